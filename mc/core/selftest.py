"""Oracle self-test: ./check selftest

Validates the trusted base (the value-level operator functions of refsem / smtref) against the
installed z3 and cvc5 binaries on ground terms: all bit-vector operators x all operands at
widths 1-3, integer div/mod/abs, the string operators on corner cases, Real division.  It never
decides a property; it is skipped (exit 0 with a note) if no binary is available.
"""
import itertools
import shutil
import subprocess
from fractions import Fraction
from . import smtref
from .smtref import Interp, Sym, Num, Dec, BVLit, Str
from .termio import BOOL, INT, REAL, STRING


def bv(v, w):
    return "#b" + format(v, "0%db" % w)


def terms():
    out = []
    for w in (1, 2, 3):
        vals = range(1 << w)
        for op in ("bvand", "bvor", "bvxor", "bvadd", "bvsub", "bvmul", "bvudiv", "bvurem", "bvsdiv", "bvsrem", "bvsmod",
                   "bvshl", "bvlshr", "bvashr", "bvnand", "bvnor", "bvxnor", "bvcomp", "bvult", "bvule", "bvugt", "bvuge",
                   "bvslt", "bvsle", "bvsgt", "bvsge", "concat"):
            for a, b in itertools.product(vals, vals):
                out.append("(%s %s %s)" % (op, bv(a, w), bv(b, w)))
        for a in vals:
            out.append("(bvnot %s)" % bv(a, w))
            out.append("(bvneg %s)" % bv(a, w))
            out.append("(bv2nat %s)" % bv(a, w))
            for k in range(0, 4):
                out.append("((_ rotate_left %d) %s)" % (k, bv(a, w)))
                out.append("((_ rotate_right %d) %s)" % (k, bv(a, w)))
                out.append("((_ zero_extend %d) %s)" % (k, bv(a, w)))
                out.append("((_ sign_extend %d) %s)" % (k, bv(a, w)))
            for k in (1, 2):
                out.append("((_ repeat %d) %s)" % (k, bv(a, w)))
            for hi in range(w):
                for lo in range(hi + 1):
                    out.append("((_ extract %d %d) %s)" % (hi, lo, bv(a, w)))

    def n(i):
        return str(i) if i >= 0 else "(- %d)" % -i
    for a in range(-7, 8):
        out.append("(abs %s)" % n(a))
        for b in (-3, -2, -1, 1, 2, 3):
            out.append("(div %s %s)" % (n(a), n(b)))
            out.append("(mod %s %s)" % (n(a), n(b)))
    strs = ['""', '"a"', '"ab"', '"abc"', '"12"', '"-5"', '" 1"', '"1_0"', '"+3"', '"007"']
    for s in strs:
        out.append("(str.len %s)" % s)
        out.append("(str.to_int %s)" % s)
        for i in range(-2, 4):
            out.append("(str.at %s %s)" % (s, n(i)))
            for j in range(-1, 4):
                out.append("(str.substr %s %s %s)" % (s, n(i), n(j)))
    for s, t in itertools.product(strs[:5], strs[:4]):
        out.append("(str.++ %s %s)" % (s, t))
        out.append("(str.contains %s %s)" % (s, t))
        out.append("(str.prefixof %s %s)" % (s, t))
        out.append("(str.suffixof %s %s)" % (s, t))
        for i in range(-1, 4):
            out.append("(str.indexof %s %s %s)" % (s, t, n(i)))
        for u in strs[:3]:
            out.append("(str.replace %s %s %s)" % (s, t, u))
    for i in (-3, 0, 7, 12):
        out.append("(str.from_int %s)" % n(i))
    for a, b in itertools.product(("1.0", "(- 3.0)", "0.5", "7.0"), ("2.0", "(- 4.0)", "0.25")):
        out.append("(/ %s %s)" % (a, b))
    return out


def value_of(sx):
    """python value of a solver's value s-expression"""
    if isinstance(sx, BVLit):
        return ("bv", sx.v, sx.w)
    if isinstance(sx, Num):
        return Fraction(sx.v)
    if isinstance(sx, Dec):
        return Fraction(sx.v)
    if isinstance(sx, Str):
        return sx.v
    if isinstance(sx, Sym):
        return {"true": True, "false": False}[sx.name]
    if isinstance(sx, list) and sx and isinstance(sx[0], Sym):
        if sx[0].name == "-" and len(sx) == 2:
            return -value_of(sx[1])
        if sx[0].name == "/" and len(sx) == 3:
            return value_of(sx[1]) / value_of(sx[2])
        if sx[0].name == "_" and len(sx) == 3 and sx[1].name.startswith("bv"):
            return ("bv", int(sx[1].name[2:]), sx[2].v)
    raise ValueError(sx)


def expected(text):
    it = Interp()
    sx = smtref.read_all("(assert %s)" % text)[0][1]
    s, f = it.elab(sx, {})
    v = f({})
    if isinstance(s, tuple) and s[0] == "BV":
        return ("bv", v, s[1])
    if s in (INT, REAL):
        return Fraction(v)
    return v


def ask(binary, args, ts, rename=None):
    outs = []
    for i in range(0, len(ts), 400):
        chunk = ts[i:i + 400]
        script = "(set-option :produce-models true)\n(set-logic ALL)\n(check-sat)\n"
        for t in chunk:
            script += "(get-value (%s))\n" % (rename(t) if rename else t)
        p = subprocess.run([binary] + args, input=script, stdout=subprocess.PIPE, stderr=subprocess.STDOUT, text=True,
                           timeout=600)
        lines = [l for l in p.stdout.splitlines() if l.strip()]
        if not lines or lines[0].strip() != "sat":
            raise RuntimeError("%s: unexpected output %r" % (binary, p.stdout[:200]))
        body = "\n".join(lines[1:])
        # errors are single lines starting with (error
        vals = smtref.read_all(body)
        if len(vals) != len(chunk):
            raise RuntimeError("%s: %d answers for %d terms: %s" % (binary, len(vals), len(chunk), body[:300]))
        outs.extend(vals)
    return outs


def main():
    ts = terms()
    exp = [expected(t) for t in ts]
    solvers = []
    if shutil.which("z3"):
        # z3 4.8 spells the conversions str.to.int / int.to.str
        solvers.append(("z3", "z3", ["-in", "-smt2"],
                        lambda t: t.replace("str.to_int", "str.to.int").replace("str.from_int", "int.to.str")))
    if shutil.which("cvc5"):
        solvers.append(("cvc5", "cvc5", ["--lang", "smt2", "--strings-exp"], None))
    if not solvers:
        print("selftest: no z3/cvc5 binary available - skipped")
        return 0
    bad = 0
    for name, binary, args, ren in solvers:
        try:
            answers = ask(binary, args, ts, ren)
        except Exception as e:
            print("selftest: %s could not be queried: %s" % (name, e))
            continue
        n = 0
        for t, e, a in zip(ts, exp, answers):
            try:
                got = value_of(a[0][1])
            except Exception:
                print("selftest: %s: cannot read the answer %r for %s" % (name, a, t))
                bad += 1
                continue
            n += 1
            if got != e:
                bad += 1
                if bad <= 20:
                    print("selftest: DISAGREEMENT with %s on %s: solver %r, reference %r" % (name, t, got, e))
        print("selftest: %s agrees with the reference semantics on %d ground terms" % (name, n - 0))
    print("selftest: %d disagreements" % bad)
    return 1 if bad else 0
