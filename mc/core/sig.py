"""Signatures of minimised counterexamples (DESIGN Appendix B)."""
import pysmt.operators as op
from .profiles import BIG


def kind(n):
    """child kind: sym, const0, const+, const-, constbig, arrval, app, quant, op:<NAME>"""
    t = n.node_type()
    if t == op.SYMBOL:
        return "sym"
    if t == op.ARRAY_VALUE:
        return "arrval"
    if t in op.CONSTANTS:
        if t == op.BOOL_CONSTANT:
            return "constT" if n.constant_value() else "constF"
        if t == op.STR_CONSTANT:
            return "const"
        if t == op.ALGEBRAIC_CONSTANT:
            return "constalg"
        v = n.constant_value()
        if t == op.BV_CONSTANT:
            return "const0" if v == 0 else "const+"
        if abs(v) >= BIG - 1:
            return "constbig"
        if v == 0:
            return "const0"
        if int(v) != v:
            return "constfrac+" if v > 0 else "constfrac-"
        return "const+" if v > 0 else "const-"
    if n.is_function_application():
        return "app"
    if n.is_quantifier():
        return "quant"
    return "op:" + op.op_to_str(n.node_type())


def term_sig(part, n, failure):
    return "%s:%s(%s):%s" % (part, op.op_to_str(n.node_type()),
                             ",".join(kind(a) for a in n.args()), failure)


def subterms_postorder(f):
    out, seen, stack = [], set(), [(f, False)]
    while stack:
        n, done = stack.pop()
        if n in seen:
            continue
        if done:
            seen.add(n)
            out.append(n)
            continue
        stack.append((n, True))
        for k in n.args():
            if k not in seen:
                stack.append((k, False))
    return out


def minimal_failing(f, fails):
    """first sub-term in post-order for which fails(sub) is truthy (all its proper
    sub-terms pass); returns (sub, failure) - falls back to f itself"""
    for n in subterms_postorder(f):
        r = fails(n)
        if r:
            return n, r
    return f, None


def shrink(env, f, fails, equiv):
    """minimise a failing term: smallest failing sub-term, then replace each argument by its
    simplified/equivalent form equiv(arg) while the failure persists, and repeat.
    `fails(t)` returns a truthy failure record or None."""
    mgr = env.formula_manager
    cur, why = minimal_failing(f, fails)
    if why is None:
        return f, fails(f)
    for _ in range(20):
        changed = False
        args = list(cur.args())
        for i, a in enumerate(args):
            try:
                b = equiv(a)
            except Exception:
                continue
            if b is a:
                continue
            try:
                cand = mgr.create_node(cur.node_type(), tuple(args[:i] + [b] + args[i + 1:]),
                                       cur._content.payload)
            except Exception:
                continue
            if cand.node_type() != cur.node_type():
                continue
            r = fails(cand)
            if r:
                sub, r2 = minimal_failing(cand, fails)
                if r2:
                    cur, why = sub, r2
                    changed = True
                    break
        if not changed:
            break
    return cur, why
