"""Independent reference semantics for pySMT terms (SMT-LIB 2.6 theory definitions).

compile(f) -> (sort, fn) where fn(I) is the value of f under interpretation I.
The sort is re-derived bottom-up from the declared sorts of the symbols by this module's
own typing rules (reftype); nothing of pySMT's type checker or simplifier is used.

Values: Bool -> bool; Int -> int; Real -> Fraction; BV(w) -> int in [0,2^w) (width is
static); String -> str; Array -> ArrVal (canonical, hashable, extensional equality);
custom sort -> int; function symbol -> FunVal.

Interpretation I: dict  name -> value ; key QDOM -> {sort: tuple of values} gives the
quantification domain for sorts that are not enumerated exactly (Int, Real, custom).
"""
from fractions import Fraction
from itertools import product
import pysmt.operators as op
from .termio import sort_of, BOOL, INT, REAL, STRING

QDOM = "%qdom"


class Unconstrained(Exception):
    """an Int/Real division by zero was evaluated: the interpretation is skipped"""


class IllTyped(Exception):
    pass


class Unsupported(Exception):
    pass


# ---------------------------------------------------------------------------------------
# array and function values

def is_finite(s):
    if s == BOOL:
        return True
    if isinstance(s, tuple):
        if s[0] == "BV":
            return True
        if s[0] == "Array":
            return is_finite(s[1]) and is_finite(s[2])
    return False


def domain(s, I=None):
    """all values of sort s (exact for finite sorts, I[QDOM][s] otherwise)"""
    if s == BOOL:
        return (False, True)
    if isinstance(s, tuple) and s[0] == "BV":
        return range(1 << s[1])
    if isinstance(s, tuple) and s[0] == "Array" and is_finite(s):
        idx = list(domain(s[1]))
        return [ArrVal.total(s[1], dict(zip(idx, vals)))
                for vals in product(list(domain(s[2])), repeat=len(idx))]
    if I is not None and QDOM in I and s in I[QDOM]:
        return I[QDOM][s]
    raise Unsupported("no quantification domain for sort %r" % (s,))


class ArrVal(object):
    """canonical array value.
    finite index sort  : table = tuple of element values over the whole index domain
    infinite index sort: default + frozenset of (index, value) with value != default
    """
    __slots__ = ("isort", "table", "default", "items", "_h")

    def __init__(self, isort, table, default, items):
        self.isort = isort
        self.table = table
        self.default = default
        self.items = items
        self._h = hash((isort, table, default, items))

    @staticmethod
    def const(isort, default):
        if is_finite(isort):
            n = len(domain(isort))
            return ArrVal(isort, (default,) * n, None, None)
        return ArrVal(isort, None, default, frozenset())

    @staticmethod
    def total(isort, mapping):
        dom = list(domain(isort))
        return ArrVal(isort, tuple(mapping[i] for i in dom), None, None)

    def _pos(self, i):
        if self.isort == BOOL:
            return int(i)
        if self.isort[0] == "BV":
            return i
        return list(domain(self.isort)).index(i)

    def get(self, i):
        if self.table is not None:
            return self.table[self._pos(i)]
        for k, v in self.items:
            if k == i:
                return v
        return self.default

    def put(self, i, v):
        if self.table is not None:
            p = self._pos(i)
            return ArrVal(self.isort, self.table[:p] + (v,) + self.table[p + 1:], None, None)
        d = dict(self.items)
        if v == self.default:
            d.pop(i, None)
        else:
            d[i] = v
        return ArrVal(self.isort, None, self.default, frozenset(d.items()))

    def __eq__(self, o):
        return isinstance(o, ArrVal) and self.isort == o.isort and self.table == o.table \
            and self.default == o.default and self.items == o.items

    def __ne__(self, o):
        return not self.__eq__(o)

    def __hash__(self):
        return self._h

    def __repr__(self):
        if self.table is not None:
            return "Arr%r" % (self.table,)
        return "Arr(%r|%s)" % (self.default, sorted(self.items, key=repr))


class FunVal(object):
    __slots__ = ("table", "default")

    def __init__(self, table, default):
        self.table = table
        self.default = default

    def __call__(self, *args):
        return self.table.get(args, self.default)

    def __repr__(self):
        return "Fun(%r|%r)" % (self.table, self.default)


# ---------------------------------------------------------------------------------------
# value-level operator functions (shared with smtref; validated by the oracle self-test)

def int_div(m, n):
    if n == 0:
        raise Unconstrained()
    return m // n if n > 0 else -(m // -n)


def int_mod(m, n):
    return m - n * int_div(m, n)


def to_signed(v, w):
    return v - (1 << w) if v >> (w - 1) else v


def bv_udiv(a, b, w):
    return (1 << w) - 1 if b == 0 else a // b


def bv_urem(a, b, w):
    return a if b == 0 else a % b


def bv_neg(a, w):
    return (-a) % (1 << w)


def bv_sdiv(a, b, w):
    sa, sb = a >> (w - 1), b >> (w - 1)
    if not sa and not sb:
        return bv_udiv(a, b, w)
    if sa and not sb:
        return bv_neg(bv_udiv(bv_neg(a, w), b, w), w)
    if not sa and sb:
        return bv_neg(bv_udiv(a, bv_neg(b, w), w), w)
    return bv_udiv(bv_neg(a, w), bv_neg(b, w), w)


def bv_srem(a, b, w):
    sa, sb = a >> (w - 1), b >> (w - 1)
    if not sa and not sb:
        return bv_urem(a, b, w)
    if sa and not sb:
        return bv_neg(bv_urem(bv_neg(a, w), b, w), w)
    if not sa and sb:
        return bv_urem(a, bv_neg(b, w), w)
    return bv_neg(bv_urem(bv_neg(a, w), bv_neg(b, w), w), w)


def bv_smod(a, b, w):
    sa, sb = a >> (w - 1), b >> (w - 1)
    abs_a = bv_neg(a, w) if sa else a
    abs_b = bv_neg(b, w) if sb else b
    u = bv_urem(abs_a, abs_b, w)
    if u == 0:
        return u
    if not sa and not sb:
        return u
    if sa and not sb:
        return (bv_neg(u, w) + b) % (1 << w)
    if not sa and sb:
        return (u + b) % (1 << w)
    return bv_neg(u, w)


def bv_shl(a, b, w):
    return 0 if b >= w else (a << b) % (1 << w)


def bv_lshr(a, b, w):
    return 0 if b >= w else a >> b


def bv_ashr(a, b, w):
    s = to_signed(a, w)
    if b >= w:
        return ((1 << w) - 1) if s < 0 else 0
    return (s >> b) % (1 << w)


def bv_rol(a, k, w):
    k %= w
    return ((a << k) | (a >> (w - k))) % (1 << w)


def bv_ror(a, k, w):
    k %= w
    return ((a >> k) | (a << (w - k))) % (1 << w)


def bv_sext(a, w, k):
    return to_signed(a, w) % (1 << (w + k))


def str_at(s, i):
    return s[i] if 0 <= i < len(s) else ""


def str_substr(s, i, n):
    if i < 0 or i >= len(s) or n <= 0:
        return ""
    return s[i:i + min(n, len(s) - i)]


def str_indexof(s, t, i):
    if i < 0 or i > len(s):
        return -1
    return s.find(t, i)


def str_replace(s, t, u):
    if t == "":
        return u + s
    return s.replace(t, u, 1)


def str_to_int(s):
    if s != "" and all(c in "0123456789" for c in s):
        return int(s)
    return -1


def str_from_int(n):
    return str(n) if n >= 0 else ""


# ---------------------------------------------------------------------------------------
# the compiler

_BV_BIN = {
    op.BV_AND: lambda a, b, w: a & b,
    op.BV_OR: lambda a, b, w: a | b,
    op.BV_XOR: lambda a, b, w: a ^ b,
    op.BV_ADD: lambda a, b, w: (a + b) % (1 << w),
    op.BV_SUB: lambda a, b, w: (a - b) % (1 << w),
    op.BV_MUL: lambda a, b, w: (a * b) % (1 << w),
    op.BV_UDIV: bv_udiv, op.BV_UREM: bv_urem, op.BV_SDIV: bv_sdiv, op.BV_SREM: bv_srem,
    op.BV_LSHL: bv_shl, op.BV_LSHR: bv_lshr, op.BV_ASHR: bv_ashr,
}
_BV_REL = {
    op.BV_ULT: lambda a, b, w: a < b,
    op.BV_ULE: lambda a, b, w: a <= b,
    op.BV_SLT: lambda a, b, w: to_signed(a, w) < to_signed(b, w),
    op.BV_SLE: lambda a, b, w: to_signed(a, w) <= to_signed(b, w),
}


def _isbv(s):
    return isinstance(s, tuple) and s[0] == "BV"


def _need(c, msg):
    if not c:
        raise IllTyped(msg)


def compile_term(f, memo=None):
    """FNode -> (sort, fn(I)->value).  Iterative post-order; per-call memo on nodes."""
    if memo is None:
        memo = {}
    stack = [(f, False)]
    while stack:
        n, done = stack.pop()
        if n in memo:
            continue
        if not done:
            stack.append((n, True))
            for k in n.args():
                if k not in memo:
                    stack.append((k, False))
            continue
        memo[n] = _compile_node(n, [memo[k] for k in n.args()])
    return memo[f]


def reftype(f):
    return compile_term(f)[0]


def ev(f, I):
    return compile_term(f)[1](I)


def _compile_node(n, kids):
    t = n.node_type()
    ks = [k[0] for k in kids]
    kf = [k[1] for k in kids]
    nk = len(kids)

    # ---- leaves
    if t == op.SYMBOL:
        name = n.symbol_name()
        return sort_of(n.symbol_type()), (lambda I: I[name])
    if t == op.BOOL_CONSTANT:
        v = bool(n.constant_value())
        return BOOL, (lambda I: v)
    if t == op.INT_CONSTANT:
        v = int(n.constant_value())
        return INT, (lambda I: v)
    if t == op.REAL_CONSTANT:
        c = n.constant_value()
        v = Fraction(int(c.numerator), int(c.denominator))
        return REAL, (lambda I: v)
    if t == op.STR_CONSTANT:
        v = n.constant_value()
        return STRING, (lambda I: v)
    if t == op.BV_CONSTANT:
        v, w = int(n.constant_value()), n.bv_width()
        _need(0 <= v < (1 << w) and w > 0, "bv constant out of range")
        return ("BV", w), (lambda I: v)

    # ---- Boolean
    if t == op.NOT:
        _need(ks == [BOOL], "not")
        a, = kf
        return BOOL, (lambda I: not a(I))
    if t == op.AND:
        _need(nk >= 1 and all(s == BOOL for s in ks), "and")
        fs = tuple(kf)

        def f_and(I):
            # evaluate all (no short-circuit): a division by zero anywhere skips I
            r = True
            for g in fs:
                if not g(I):
                    r = False
            return r
        return BOOL, f_and
    if t == op.OR:
        _need(nk >= 1 and all(s == BOOL for s in ks), "or")
        fs = tuple(kf)

        def f_or(I):
            r = False
            for g in fs:
                if g(I):
                    r = True
            return r
        return BOOL, f_or
    if t == op.IMPLIES:
        _need(ks == [BOOL, BOOL], "implies")
        a, b = kf

        def f_imp(I):
            x, y = a(I), b(I)
            return (not x) or y
        return BOOL, f_imp
    if t == op.IFF:
        _need(ks == [BOOL, BOOL], "iff")
        a, b = kf
        return BOOL, (lambda I: a(I) == b(I))
    if t == op.ITE:
        _need(nk == 3 and ks[0] == BOOL and ks[1] == ks[2], "ite")
        c, a, b = kf

        def f_ite(I):
            x, y, z = c(I), a(I), b(I)
            return y if x else z
        return ks[1], f_ite
    if t in (op.FORALL, op.EXISTS):
        _need(ks == [BOOL], "quantifier body")
        body, = kf
        qv = [(v.symbol_name(), sort_of(v.symbol_type())) for v in n.quantifier_vars()]
        names = [q[0] for q in qv]
        want = (t == op.EXISTS)

        def f_q(I):
            doms = [domain(s, I) for _, s in qv]
            J = dict(I)
            res = not want
            for vals in product(*doms):
                for nm, v in zip(names, vals):
                    J[nm] = v
                if body(J) == want:
                    res = want
            return res
        return BOOL, f_q

    # ---- equality
    if t == op.EQUALS:
        _need(nk == 2 and ks[0] == ks[1] and ks[0] != BOOL, "equals %r" % (ks,))
        a, b = kf
        return BOOL, (lambda I: a(I) == b(I))

    # ---- arithmetic
    if t in (op.PLUS, op.TIMES):
        _need(nk >= 2 and ks[0] in (INT, REAL) and all(s == ks[0] for s in ks), "plus/times")
        fs = tuple(kf)
        if t == op.PLUS:
            def f_plus(I):
                r = 0
                for g in fs:
                    r = r + g(I)
                return r
            return ks[0], f_plus

        def f_times(I):
            r = 1
            for g in fs:
                r = r * g(I)
            return r
        return ks[0], f_times
    if t == op.MINUS:
        _need(nk == 2 and ks[0] in (INT, REAL) and ks[0] == ks[1], "minus")
        a, b = kf
        return ks[0], (lambda I: a(I) - b(I))
    if t == op.DIV:
        _need(nk == 2 and ks[0] in (INT, REAL) and ks[0] == ks[1], "div")
        a, b = kf
        if ks[0] == INT:
            def f_idiv(I):
                x, y = a(I), b(I)
                return int_div(x, y)
            return INT, f_idiv

        def f_rdiv(I):
            x, y = a(I), b(I)
            if y == 0:
                raise Unconstrained()
            return Fraction(x) / y
        return REAL, f_rdiv
    if t == op.POW:
        # no SMT-LIB meaning; pySMT: constant exponent, result sort Real
        _need(nk == 2 and ks[0] in (INT, REAL) and ks[0] == ks[1], "pow")
        _need(n.arg(1).is_constant(), "pow exponent")
        a, b = kf

        def f_pow(I):
            x, e = a(I), b(I)
            if e != int(e):
                raise Unsupported("pow with fractional exponent")
            e = int(e)
            if e < 0:
                if x == 0:
                    raise Unconstrained()
                return Fraction(1) / (Fraction(x) ** (-e))
            return Fraction(x) ** e
        return REAL, f_pow
    if t in (op.LE, op.LT):
        _need(nk == 2 and ks[0] in (INT, REAL) and ks[0] == ks[1], "le/lt")
        a, b = kf
        if t == op.LE:
            return BOOL, (lambda I: a(I) <= b(I))
        return BOOL, (lambda I: a(I) < b(I))
    if t == op.TOREAL:
        _need(ks == [INT], "toreal")
        a, = kf
        return REAL, (lambda I: Fraction(a(I)))

    # ---- bit-vectors
    if t in _BV_BIN:
        _need(nk == 2 and _isbv(ks[0]) and ks[0] == ks[1], "bv binary")
        w = ks[0][1]
        a, b = kf
        g = _BV_BIN[t]
        return ks[0], (lambda I: g(a(I), b(I), w))
    if t in _BV_REL:
        _need(nk == 2 and _isbv(ks[0]) and ks[0] == ks[1], "bv relation")
        w = ks[0][1]
        a, b = kf
        g = _BV_REL[t]
        return BOOL, (lambda I: g(a(I), b(I), w))
    if t == op.BV_NOT:
        _need(nk == 1 and _isbv(ks[0]), "bvnot")
        w = ks[0][1]
        a, = kf
        m = (1 << w) - 1
        return ks[0], (lambda I: a(I) ^ m)
    if t == op.BV_NEG:
        _need(nk == 1 and _isbv(ks[0]), "bvneg")
        w = ks[0][1]
        a, = kf
        return ks[0], (lambda I: (-a(I)) % (1 << w))
    if t == op.BV_CONCAT:
        _need(nk == 2 and _isbv(ks[0]) and _isbv(ks[1]), "concat")
        w2 = ks[1][1]
        a, b = kf
        return ("BV", ks[0][1] + w2), (lambda I: (a(I) << w2) | b(I))
    if t == op.BV_EXTRACT:
        _need(nk == 1 and _isbv(ks[0]), "extract")
        lo, hi = n.bv_extract_start(), n.bv_extract_end()
        _need(0 <= lo <= hi < ks[0][1], "extract range")
        a, = kf
        m = (1 << (hi - lo + 1)) - 1
        return ("BV", hi - lo + 1), (lambda I: (a(I) >> lo) & m)
    if t in (op.BV_ROL, op.BV_ROR):
        _need(nk == 1 and _isbv(ks[0]), "rotate")
        w = ks[0][1]
        k = n.bv_rotation_step()
        _need(k >= 0, "rotate step")
        a, = kf
        g = bv_rol if t == op.BV_ROL else bv_ror
        return ks[0], (lambda I: g(a(I), k, w))
    if t in (op.BV_ZEXT, op.BV_SEXT):
        _need(nk == 1 and _isbv(ks[0]), "extend")
        w = ks[0][1]
        k = n.bv_extend_step()
        _need(k >= 0, "extend step")
        a, = kf
        if t == op.BV_ZEXT:
            return ("BV", w + k), (lambda I: a(I))
        return ("BV", w + k), (lambda I: bv_sext(a(I), w, k))
    if t == op.BV_COMP:
        _need(nk == 2 and _isbv(ks[0]) and ks[0] == ks[1], "bvcomp")
        a, b = kf
        return ("BV", 1), (lambda I: 1 if a(I) == b(I) else 0)
    if t == op.BV_TONATURAL:
        _need(nk == 1 and _isbv(ks[0]), "bv2nat")
        a, = kf
        return INT, (lambda I: a(I))

    # ---- strings
    if t == op.STR_LENGTH:
        _need(ks == [STRING], "str.len")
        a, = kf
        return INT, (lambda I: len(a(I)))
    if t == op.STR_CONCAT:
        _need(nk >= 2 and all(s == STRING for s in ks), "str.++")
        fs = tuple(kf)
        return STRING, (lambda I: "".join(g(I) for g in fs))
    if t == op.STR_CONTAINS:
        _need(ks == [STRING, STRING], "str.contains")
        a, b = kf
        return BOOL, (lambda I: b(I) in a(I))
    if t == op.STR_INDEXOF:
        _need(ks == [STRING, STRING, INT], "str.indexof")
        a, b, c = kf
        return INT, (lambda I: str_indexof(a(I), b(I), c(I)))
    if t == op.STR_REPLACE:
        _need(ks == [STRING, STRING, STRING], "str.replace")
        a, b, c = kf
        return STRING, (lambda I: str_replace(a(I), b(I), c(I)))
    if t == op.STR_SUBSTR:
        _need(ks == [STRING, INT, INT], "str.substr")
        a, b, c = kf
        return STRING, (lambda I: str_substr(a(I), b(I), c(I)))
    if t == op.STR_PREFIXOF:
        _need(ks == [STRING, STRING], "str.prefixof")
        a, b = kf
        return BOOL, (lambda I: b(I).startswith(a(I)))
    if t == op.STR_SUFFIXOF:
        _need(ks == [STRING, STRING], "str.suffixof")
        a, b = kf
        return BOOL, (lambda I: b(I).endswith(a(I)))
    if t == op.STR_TO_INT:
        _need(ks == [STRING], "str.to_int")
        a, = kf
        return INT, (lambda I: str_to_int(a(I)))
    if t == op.INT_TO_STR:
        _need(ks == [INT], "str.from_int")
        a, = kf
        return STRING, (lambda I: str_from_int(a(I)))
    if t == op.STR_CHARAT:
        _need(ks == [STRING, INT], "str.at")
        a, b = kf
        return STRING, (lambda I: str_at(a(I), b(I)))

    # ---- arrays
    if t == op.ARRAY_SELECT:
        _need(nk == 2 and isinstance(ks[0], tuple) and ks[0][0] == "Array" and ks[0][1] == ks[1],
              "select")
        a, i = kf
        return ks[0][2], (lambda I: a(I).get(i(I)))
    if t == op.ARRAY_STORE:
        _need(nk == 3 and isinstance(ks[0], tuple) and ks[0][0] == "Array"
              and ks[0][1] == ks[1] and ks[0][2] == ks[2], "store")
        a, i, v = kf
        return ks[0], (lambda I: a(I).put(i(I), v(I)))
    if t == op.ARRAY_VALUE:
        isort = sort_of(n.array_value_index_type())
        _need(nk % 2 == 1, "array value arity")
        for j in range(1, nk, 2):
            _need(ks[j] == isort and ks[j + 1] == ks[0], "array value entry")
        d = kf[0]
        pairs = [(kf[j], kf[j + 1]) for j in range(1, nk, 2)]

        def f_arr(I):
            r = ArrVal.const(isort, d(I))
            seen = set()
            for ki, vi in pairs:
                k = ki(I)
                if k in seen:
                    raise Unsupported("duplicate index in array value")
                seen.add(k)
                r = r.put(k, vi(I))
            return r
        return ("Array", isort, ks[0]), f_arr

    # ---- uninterpreted functions
    if t == op.FUNCTION:
        fn = n.function_name()
        fs = sort_of(fn.symbol_type())
        _need(fs[0] == "Fun" and tuple(ks) == fs[2], "function application")
        name = fn.symbol_name()
        args = tuple(kf)
        return fs[1], (lambda I: I[name](*[g(I) for g in args]))

    raise Unsupported("node type %d" % t)


# ---------------------------------------------------------------------------------------
# helpers

def free_symbols(f):
    """own traversal: {name: sort} of the symbols occurring free (function names included)."""
    out = {}

    def rec(n, bound):
        stack = [n]
        seen = set()
        while stack:
            x = stack.pop()
            if x in seen:
                continue
            seen.add(x)
            if x.is_symbol():
                if x.symbol_name() not in bound:
                    out[x.symbol_name()] = sort_of(x.symbol_type())
            elif x.is_quantifier():
                b2 = bound | set(v.symbol_name() for v in x.quantifier_vars())
                rec(x.arg(0), b2)
            else:
                if x.is_function_application():
                    fn = x.function_name()
                    if fn.symbol_name() not in bound:
                        out[fn.symbol_name()] = sort_of(fn.symbol_type())
                stack.extend(x.args())
    rec(f, frozenset())
    return out


def value_to_const(env, sort, v):
    """reference value -> pySMT constant of environment env (for models / comparisons)"""
    m = env.formula_manager
    if sort == BOOL:
        return m.Bool(bool(v))
    if sort == INT:
        return m.Int(int(v))
    if sort == REAL:
        return m.Real(Fraction(v))
    if sort == STRING:
        return m.String(v)
    if sort[0] == "BV":
        return m.BV(v, sort[1])
    if sort[0] == "Array":
        from .termio import mk_type
        it = mk_type(env, sort[1])
        if v.table is not None:
            dom = list(domain(sort[1]))
            # most common value as default
            cnt = {}
            for x in v.table:
                cnt[x] = cnt.get(x, 0) + 1
            d = max(sorted(cnt, key=repr), key=lambda x: cnt[x])
            return m.Array(it, value_to_const(env, sort[2], d),
                           {value_to_const(env, sort[1], i): value_to_const(env, sort[2], x)
                            for i, x in zip(dom, v.table) if x != d})
        return m.Array(it, value_to_const(env, sort[2], v.default),
                       {value_to_const(env, sort[1], i): value_to_const(env, sort[2], x)
                        for i, x in v.items})
    raise Unsupported("constant of sort %r" % (sort,))


def const_to_value(c):
    """pySMT constant (incl. array values of constants) -> reference value"""
    s, fn = compile_term(c)
    return s, fn({})
