"""Standard profiles (leaf alphabets + operator tables) shared by the input-space checks."""
from fractions import Fraction
from .termio import BOOL, INT, REAL, STRING, mk_type
from .termgen import Profile

BIG = 10 ** 20 + 1


def _ty(p, s):
    return mk_type(p.env, s)


def add_bool_ops(p, nary3=True, ite=True):
    p.op("not", [BOOL], BOOL, lambda m, a: m.Not(a))
    p.op("and", [BOOL, BOOL], BOOL, lambda m, a, b: m.And(a, b))
    p.op("or", [BOOL, BOOL], BOOL, lambda m, a, b: m.Or(a, b))
    p.op("implies", [BOOL, BOOL], BOOL, lambda m, a, b: m.Implies(a, b))
    p.op("iff", [BOOL, BOOL], BOOL, lambda m, a, b: m.Iff(a, b))
    if nary3:
        p.op("and3", [BOOL, BOOL, BOOL], BOOL, lambda m, a, b, c: m.And(a, b, c))
        p.op("or3", [BOOL, BOOL, BOOL], BOOL, lambda m, a, b, c: m.Or(a, b, c))
    if ite:
        p.op("bite", [BOOL, BOOL, BOOL], BOOL, lambda m, a, b, c: m.Ite(a, b, c))


def bool_profile(env, nsyms=2, nary3=True, consts=(True, False)):
    p = Profile("bool", env)
    names = ["a", "b", "c"][:nsyms]
    p.leaf(BOOL, *[p.sym(n, BOOL) for n in names])
    p.leaf(BOOL, *[p.m.Bool(c) for c in consts])
    add_bool_ops(p, nary3=nary3)
    return p


def add_arith_ops(p, s, div=True, pow_=True, nary3=False):
    p.op("plus", [s, s], s, lambda m, a, b: m.Plus(a, b))
    p.op("minus", [s, s], s, lambda m, a, b: m.Minus(a, b))
    p.op("times", [s, s], s, lambda m, a, b: m.Times(a, b))
    if nary3:
        p.op("plus3", [s, s, s], s, lambda m, a, b, c: m.Plus(a, b, c))
        p.op("times3", [s, s, s], s, lambda m, a, b, c: m.Times(a, b, c))
    if div:
        p.op("div", [s, s], s, lambda m, a, b: m.Div(a, b))
    p.op("le", [s, s], BOOL, lambda m, a, b: m.LE(a, b))
    p.op("lt", [s, s], BOOL, lambda m, a, b: m.LT(a, b))
    p.op("eq", [s, s], BOOL, lambda m, a, b: m.Equals(a, b))
    p.op("ite", [BOOL, s, s], s, lambda m, c, a, b: m.Ite(c, a, b))
    if pow_:
        m = p.m
        mk = m.Int if s == INT else m.Real
        for e in (0, 1, 2, -1):
            p.op("pow%d" % e, [s], REAL, (lambda e: lambda m, a: m.Pow(a, mk(e)))(e))


def lia_profile(env, consts=(-1, 0, 1, 2), big=True, nsyms=2, consts_first=False, **kw):
    p = Profile("lia", env)
    if consts_first:
        # node ids follow creation order and the simplifier sorts commutative arguments by node id:
        # with the constants created before the symbols, constants come first in sorted products
        [p.m.Int(c) for c in consts]
    p.leaf(INT, *[p.sym(n, INT) for n in ["x", "y", "z"][:nsyms]])
    p.leaf(INT, *[p.m.Int(c) for c in consts])
    if big:
        p.leaf(INT, p.m.Int(BIG))
    p.leaf(BOOL, p.sym("a", BOOL))
    add_arith_ops(p, INT, **kw)
    return p


def lra_profile(env, consts=(Fraction(-1), Fraction(0), Fraction(1), Fraction(2), Fraction(1, 2)),
                nsyms=2, consts_first=False, **kw):
    p = Profile("lra", env)
    if consts_first:
        [p.m.Real(c) for c in consts]       # see lia_profile
    p.leaf(REAL, *[p.sym(n, REAL) for n in ["r", "s", "t"][:nsyms]])
    p.leaf(REAL, *[p.m.Real(c) for c in consts])
    p.leaf(BOOL, p.sym("a", BOOL))
    add_arith_ops(p, REAL, **kw)
    return p


def lira_profile(env):
    """mixed Int/Real through to_real"""
    p = Profile("lira", env)
    p.leaf(INT, p.sym("x", INT), p.m.Int(0), p.m.Int(2), p.m.Int(-1))
    p.leaf(REAL, p.sym("r", REAL), p.m.Real(0), p.m.Real(Fraction(1, 2)), p.m.Real(2))
    p.leaf(BOOL, p.sym("a", BOOL))
    p.op("toreal", [INT], REAL, lambda m, a: m.ToReal(a))
    add_arith_ops(p, INT, div=True, pow_=False)
    add_arith_ops(p, REAL, div=True, pow_=False)
    return p


def add_bv_ops(p, w, widths=(), extract=True, shifts=True):
    s = ("BV", w)
    m = p.m
    for nm, fn in [("bvand", m.BVAnd), ("bvor", m.BVOr), ("bvxor", m.BVXor), ("bvadd", m.BVAdd),
                   ("bvsub", m.BVSub), ("bvmul", m.BVMul), ("bvudiv", m.BVUDiv),
                   ("bvurem", m.BVURem), ("bvsdiv", m.BVSDiv), ("bvsrem", m.BVSRem),
                   ("bvshl", m.BVLShl), ("bvlshr", m.BVLShr), ("bvashr", m.BVAShr)]:
        p.op("%s_%d" % (nm, w), [s, s], s, (lambda fn: lambda m, a, b: fn(a, b))(fn))
    for nm, fn in [("bvult", m.BVULT), ("bvule", m.BVULE), ("bvslt", m.BVSLT), ("bvsle", m.BVSLE),
                   ("bveq", m.Equals)]:
        p.op("%s_%d" % (nm, w), [s, s], BOOL, (lambda fn: lambda m, a, b: fn(a, b))(fn))
    p.op("bvcomp_%d" % w, [s, s], ("BV", 1), lambda m, a, b: m.BVComp(a, b))
    p.op("bvnot_%d" % w, [s], s, lambda m, a: m.BVNot(a))
    p.op("bvneg_%d" % w, [s], s, lambda m, a: m.BVNeg(a))
    p.op("bv2nat_%d" % w, [s], INT, lambda m, a: m.BVToNatural(a))
    p.op("bvite_%d" % w, [BOOL, s, s], s, lambda m, c, a, b: m.Ite(c, a, b))
    for k in range(0, w + 1):
        p.op("rol%d_%d" % (k, w), [s], s, (lambda k: lambda m, a: m.BVRol(a, k))(k))
        p.op("ror%d_%d" % (k, w), [s], s, (lambda k: lambda m, a: m.BVRor(a, k))(k))
    for k in (0, 1, 2):
        p.op("zext%d_%d" % (k, w), [s], ("BV", w + k), (lambda k: lambda m, a: m.BVZExt(a, k))(k))
        p.op("sext%d_%d" % (k, w), [s], ("BV", w + k), (lambda k: lambda m, a: m.BVSExt(a, k))(k))
    if extract:
        for lo in range(w):
            for hi in range(lo, w):
                p.op("extract%d_%d_%d" % (lo, hi, w), [s], ("BV", hi - lo + 1),
                     (lambda lo, hi: lambda m, a: m.BVExtract(a, lo, hi))(lo, hi))
    for w2 in widths:
        p.op("concat_%d_%d" % (w, w2), [s, ("BV", w2)], ("BV", w + w2),
             lambda m, a, b: m.BVConcat(a, b))


def bv_profile(env, widths=(1, 2), consts="all", nsyms=2):
    p = Profile("bv", env)
    p.leaf(BOOL, p.sym("a", BOOL))
    for w in widths:
        s = ("BV", w)
        p.leaf(s, *[p.sym("%s%d" % (n, w), s) for n in ["u", "v"][:nsyms]])
        cs = range(1 << w) if consts == "all" else [c for c in consts if c < (1 << w)]
        p.leaf(s, *[p.m.BV(c, w) for c in cs])
        add_bv_ops(p, w, widths=widths)
    return p


def str_profile(env, strs=("", "a", "ab", "12"), ints=(-2, -1, 0, 1, 2, 3)):
    p = Profile("str", env)
    m = p.m
    p.leaf(STRING, p.sym("s", STRING), p.sym("t", STRING), *[m.String(x) for x in strs])
    p.leaf(INT, p.sym("i", INT), *[m.Int(x) for x in ints])
    S, I = STRING, INT
    p.op("strlen", [S], I, lambda m, a: m.StrLength(a))
    p.op("strconcat", [S, S], S, lambda m, a, b: m.StrConcat(a, b))
    p.op("strcontains", [S, S], BOOL, lambda m, a, b: m.StrContains(a, b))
    p.op("strindexof", [S, S, I], I, lambda m, a, b, c: m.StrIndexOf(a, b, c))
    p.op("strreplace", [S, S, S], S, lambda m, a, b, c: m.StrReplace(a, b, c))
    p.op("strsubstr", [S, I, I], S, lambda m, a, b, c: m.StrSubstr(a, b, c))
    p.op("strprefixof", [S, S], BOOL, lambda m, a, b: m.StrPrefixOf(a, b))
    p.op("strsuffixof", [S, S], BOOL, lambda m, a, b: m.StrSuffixOf(a, b))
    p.op("strtoint", [S], I, lambda m, a: m.StrToInt(a))
    p.op("inttostr", [I], S, lambda m, a: m.IntToStr(a))
    p.op("strcharat", [S, I], S, lambda m, a, b: m.StrCharAt(a, b))
    p.op("streq", [S, S], BOOL, lambda m, a, b: m.Equals(a, b))
    return p


def arr_profile(env, isort=INT, esort=INT):
    """arrays isort->esort: symbols, constant arrays with 0..2 assignments, select/store/=/ite"""
    p = Profile("arr", env)
    m = p.m
    A = ("Array", isort, esort)

    def consts(s):
        if s == INT:
            return [m.Int(0), m.Int(1), m.Int(2)]
        if s == BOOL:
            return [m.TRUE(), m.FALSE()]
        if s == REAL:
            return [m.Real(0), m.Real(1)]
        return [m.BV(c, s[1]) for c in range(min(4, 1 << s[1]))]
    ic, ec = consts(isort), consts(esort)
    it = mk_type(env, isort)
    p.leaf(A, p.sym("A", A), p.sym("B", A))
    p.leaf(A, m.Array(it, ec[0]), m.Array(it, ec[1]),
           m.Array(it, ec[0], {ic[0]: ec[1]}),
           m.Array(it, ec[0], {ic[0]: ec[1], ic[1]: ec[-1]}),
           m.Array(it, ec[1], {ic[1]: ec[0]}))
    # an array literal whose stored value is a symbol (occurring nowhere else in the literal)
    p.leaf(A, m.Array(it, ec[0], {ic[1]: p.sym("e" if esort != isort else "i", esort)}))
    # an array literal whose default element is a symbol that occurs nowhere else
    p.leaf(A, m.Array(it, p.sym("dflt", esort)))
    p.leaf(isort, p.sym("i", isort), *ic[:2])
    if esort != isort:
        if esort == BOOL:
            p.leaf(esort, p.sym("e", esort), *ec)
        else:
            p.leaf(esort, p.sym("e", esort), *ec[:2])
    p.op("select", [A, isort], esort, lambda m, a, i: m.Select(a, i))
    p.op("store", [A, isort, esort], A, lambda m, a, i, v: m.Store(a, i, v))
    p.op("arreq", [A, A], BOOL, lambda m, a, b: m.Equals(a, b))
    if esort != BOOL:
        p.op("eeq", [esort, esort], BOOL, lambda m, a, b: m.Equals(a, b))
    p.leaf(BOOL, p.sym("a", BOOL))
    p.op("arrite", [BOOL, A, A], A, lambda m, c, a, b: m.Ite(c, a, b))
    return p


def uf_profile(env):
    p = Profile("uf", env)
    m = p.m
    B1 = ("BV", 1)
    f = p.sym("f", ("Fun", INT, (INT,)))
    g = p.sym("g", ("Fun", B1, (B1, BOOL)))
    q = p.sym("q", ("Fun", BOOL, (INT, INT)))
    p.leaf(INT, p.sym("x", INT), m.Int(0), m.Int(1))
    p.leaf(B1, p.sym("u", B1), m.BV(1, 1))
    p.leaf(BOOL, p.sym("a", BOOL), m.TRUE())
    p.op("f", [INT], INT, lambda m, a: m.Function(f, [a]))
    p.op("g", [B1, BOOL], B1, lambda m, a, b: m.Function(g, [a, b]))
    p.op("q", [INT, INT], BOOL, lambda m, a, b: m.Function(q, [a, b]))
    p.op("plus", [INT, INT], INT, lambda m, a, b: m.Plus(a, b))
    p.op("eq", [INT, INT], BOOL, lambda m, a, b: m.Equals(a, b))
    p.op("bveq", [B1, B1], BOOL, lambda m, a, b: m.Equals(a, b))
    p.op("not", [BOOL], BOOL, lambda m, a: m.Not(a))
    p.op("and", [BOOL, BOOL], BOOL, lambda m, a, b: m.And(a, b))
    p.op("ite", [BOOL, INT, INT], INT, lambda m, c, a, b: m.Ite(c, a, b))
    return p


def quant_profile(env):
    """quantifiers over Bool, BV1, BV2, Int incl. unused, shadowing and same-name nesting"""
    p = Profile("quant", env)
    m = p.m
    B1, B2 = ("BV", 1), ("BV", 2)
    a, b = p.sym("a", BOOL), p.sym("b", BOOL)
    u, v = p.sym("u", B1), p.sym("v", B1)
    w2 = p.sym("w", B2)
    x, y = p.sym("x", INT), p.sym("y", INT)
    p.leaf(BOOL, a, b, m.TRUE(), m.FALSE())
    p.leaf(B1, u, v, m.BV(0, 1))
    p.leaf(B2, w2, m.BV(2, 2))
    p.leaf(INT, x, y, m.Int(0), m.Int(1))
    p.op("not", [BOOL], BOOL, lambda m, a: m.Not(a))
    p.op("and", [BOOL, BOOL], BOOL, lambda m, a, b: m.And(a, b))
    p.op("or", [BOOL, BOOL], BOOL, lambda m, a, b: m.Or(a, b))
    p.op("implies", [BOOL, BOOL], BOOL, lambda m, a, b: m.Implies(a, b))
    p.op("iff", [BOOL, BOOL], BOOL, lambda m, a, b: m.Iff(a, b))
    p.op("bveq1", [B1, B1], BOOL, lambda m, a, b: m.Equals(a, b))
    p.op("bvult2", [B2, B2], BOOL, lambda m, a, b: m.BVULT(a, b))
    p.op("bvand1", [B1, B1], B1, lambda m, a, b: m.BVAnd(a, b))
    p.op("le", [INT, INT], BOOL, lambda m, a, b: m.LE(a, b))
    p.op("inteq", [INT, INT], BOOL, lambda m, a, b: m.Equals(a, b))
    p.op("plus", [INT, INT], INT, lambda m, a, b: m.Plus(a, b))
    for q, Q in (("forall", m.ForAll), ("exists", m.Exists)):
        for nm, vs in (("a", [a]), ("b", [b]), ("ab", [a, b]), ("u", [u]), ("uv", [u, v]),
                       ("w", [w2]), ("x", [x]), ("xy", [x, y]), ("au", [a, u]), ("ux", [u, x])):
            p.op("%s_%s" % (q, nm), [BOOL], BOOL, (lambda Q, vs: lambda m, f: Q(vs, f))(Q, vs))
    return p


def mixed_profile(env, quant=False, uf=True):
    """cross-theory terms: every operator that takes operands of one theory into another (bv2nat, str.len,
    str.to_int, int.to.str, to_real, select, function application, relations) next to ITE / equality of every
    sort and the basic operators of each theory, so that a depth-2 term has children of another theory"""
    p = Profile("mixed", env)
    m = p.m
    B2 = ("BV", 2)
    A = ("Array", INT, INT)
    AB = ("Array", B2, BOOL)
    a = p.sym("a", BOOL)
    x = p.sym("x", INT)
    r = p.sym("r", REAL)
    u = p.sym("u", B2)
    s = p.sym("s", STRING)
    arr = p.sym("A", A)
    ab = p.sym("M", AB)
    if uf:
        f = p.sym("f", ("Fun", INT, (INT,)))
        h = p.sym("h", ("Fun", B2, (BOOL, STRING)))
    p.leaf(BOOL, a, m.TRUE())
    p.leaf(INT, x, m.Int(0), m.Int(1))
    p.leaf(REAL, r, m.Real(Fraction(1, 2)))
    p.leaf(B2, u, m.BV(2, 2))
    p.leaf(STRING, s, m.String("1"))
    p.leaf(A, arr, m.Array(mk_type(env, INT), m.Int(1)))
    p.leaf(AB, ab)
    # theory crossings
    p.op("bv2nat", [B2], INT, lambda m, t: m.BVToNatural(t))
    p.op("strlen", [STRING], INT, lambda m, t: m.StrLength(t))
    p.op("strtoint", [STRING], INT, lambda m, t: m.StrToInt(t))
    p.op("inttostr", [INT], STRING, lambda m, t: m.IntToStr(t))
    p.op("toreal", [INT], REAL, lambda m, t: m.ToReal(t))
    p.op("select", [A, INT], INT, lambda m, t, i: m.Select(t, i))
    p.op("selectb", [AB, B2], BOOL, lambda m, t, i: m.Select(t, i))
    p.op("store", [A, INT, INT], A, lambda m, t, i, v: m.Store(t, i, v))
    p.op("storeb", [AB, B2, BOOL], AB, lambda m, t, i, v: m.Store(t, i, v))
    if uf:
        p.op("f", [INT], INT, lambda m, t: m.Function(f, [t]))
        p.op("h", [BOOL, STRING], B2, lambda m, t, w: m.Function(h, [t, w]))
    p.op("strcharat", [STRING, INT], STRING, lambda m, t, i: m.StrCharAt(t, i))
    # relations and equalities of every sort
    p.op("le", [INT, INT], BOOL, lambda m, t, w: m.LE(t, w))
    p.op("lt", [REAL, REAL], BOOL, lambda m, t, w: m.LT(t, w))
    p.op("eqi", [INT, INT], BOOL, lambda m, t, w: m.Equals(t, w))
    p.op("eqr", [REAL, REAL], BOOL, lambda m, t, w: m.Equals(t, w))
    p.op("equ", [B2, B2], BOOL, lambda m, t, w: m.Equals(t, w))
    p.op("eqs", [STRING, STRING], BOOL, lambda m, t, w: m.Equals(t, w))
    p.op("eqa", [A, A], BOOL, lambda m, t, w: m.Equals(t, w))
    p.op("bvult", [B2, B2], BOOL, lambda m, t, w: m.BVULT(t, w))
    p.op("bvsle", [B2, B2], BOOL, lambda m, t, w: m.BVSLE(t, w))
    # ite of every sort
    for nm, so in (("i", INT), ("r", REAL), ("u", B2), ("s", STRING), ("a", A), ("b", BOOL)):
        p.op("ite" + nm, [BOOL, so, so], so, lambda m, c, t, w: m.Ite(c, t, w))
    # one or two plain operators per theory
    p.op("not", [BOOL], BOOL, lambda m, t: m.Not(t))
    p.op("and", [BOOL, BOOL], BOOL, lambda m, t, w: m.And(t, w))
    p.op("iff", [BOOL, BOOL], BOOL, lambda m, t, w: m.Iff(t, w))
    p.op("plus", [INT, INT], INT, lambda m, t, w: m.Plus(t, w))
    p.op("times", [INT, INT], INT, lambda m, t, w: m.Times(t, w))
    p.op("minus", [INT, INT], INT, lambda m, t, w: m.Minus(t, w))
    p.op("rplus", [REAL, REAL], REAL, lambda m, t, w: m.Plus(t, w))
    p.op("rdiv", [REAL, REAL], REAL, lambda m, t, w: m.Div(t, w))
    p.op("bvadd", [B2, B2], B2, lambda m, t, w: m.BVAdd(t, w))
    p.op("bvnot", [B2], B2, lambda m, t: m.BVNot(t))
    p.op("extract", [B2], ("BV", 1), lambda m, t: m.BVExtract(t, 1, 1))
    p.op("zext", [("BV", 1)], B2, lambda m, t: m.BVZExt(t, 1))
    p.op("strconcat", [STRING, STRING], STRING, lambda m, t, w: m.StrConcat(t, w))
    if quant:
        y = p.sym("y", INT)
        v = p.sym("v", B2)
        p.leaf(INT, y)
        p.leaf(B2, v)
        p.op("forall_y", [BOOL], BOOL, lambda m, t: m.ForAll([y], t))
        p.op("exists_v", [BOOL], BOOL, lambda m, t: m.Exists([v], t))
        p.op("forall_a", [BOOL], BOOL, lambda m, t: m.ForAll([a], t))
    return p


def ufarr_profile(env):
    """uninterpreted functions with array arguments, applied to array literals over a finite index sort that are
    different nodes but the same array (K(T)[0:=F][1:=F] and K(F)), next to other arguments that differ"""
    p = Profile("ufarr", env)
    m = p.m
    B1 = ("BV", 1)
    AR = ("Array", B1, BOOL)
    it = mk_type(env, B1)
    a, b = p.sym("a", BOOL), p.sym("b", BOOL)
    arr = p.sym("A", AR)
    f = p.sym("f", ("Fun", BOOL, (AR, BOOL)))
    g = p.sym("g", ("Fun", AR, (AR,)))
    z, o = m.BV(0, 1), m.BV(1, 1)
    lits = [m.Array(it, m.FALSE()), m.Array(it, m.TRUE(), {z: m.FALSE(), o: m.FALSE()}),
            m.Array(it, m.TRUE(), {z: m.FALSE()}), m.Array(it, m.FALSE(), {o: m.TRUE()})]
    p.leaf(AR, arr, *lits)
    p.leaf(BOOL, a, b)
    p.op("f", [AR, BOOL], BOOL, lambda m, t, w: m.Function(f, [t, w]))
    p.op("g", [AR], AR, lambda m, t: m.Function(g, [t]))
    k = p.sym("k", ("Fun", B1, (AR, BOOL)))
    p.op("k", [AR, BOOL], B1, lambda m, t, w: m.Function(k, [t, w]))
    p.op("eqk", [B1, B1], BOOL, lambda m, t, w: m.Equals(t, w))
    p.op("iff", [BOOL, BOOL], BOOL, lambda m, t, w: m.Iff(t, w))
    p.op("eqa", [AR, AR], BOOL, lambda m, t, w: m.Equals(t, w))
    p.op("not", [BOOL], BOOL, lambda m, t: m.Not(t))
    return p


def nary5_profile(env):
    """n-ary operators with five arguments (Boolean, Int, Real)"""
    p = Profile("nary5", env)
    m = p.m
    a, b = p.sym("a", BOOL), p.sym("b", BOOL)
    x, y = p.sym("x", INT), p.sym("y", INT)
    r = p.sym("r", REAL)
    p.leaf(BOOL, a, b, m.TRUE(), m.FALSE(), m.Not(a))
    p.leaf(INT, x, y, m.Int(0), m.Int(1), m.Int(-2), m.Times(x, m.Int(-1)))
    p.leaf(REAL, r, m.Real(0), m.Real(Fraction(1, 2)), m.Real(-1), m.Times(r, m.Real(2)))
    p.op("and5", [BOOL] * 5, BOOL, lambda m, *t: m.And(*t))
    p.op("or5", [BOOL] * 5, BOOL, lambda m, *t: m.Or(*t))
    p.op("plus5", [INT] * 5, INT, lambda m, *t: m.Plus(*t))
    p.op("times5", [INT] * 5, INT, lambda m, *t: m.Times(*t))
    p.op("rplus5", [REAL] * 5, REAL, lambda m, *t: m.Plus(*t))
    p.op("rtimes5", [REAL] * 5, REAL, lambda m, *t: m.Times(*t))
    return p


def widebv_dom(w):
    """a finite value pool for a bit-vector width whose values cannot be enumerated"""
    top = 1 << w
    return {("BV", w): (0, 1, 2, top >> 1, (top >> 1) - 1, (top >> 1) + 1, top - 1, top - 2, 0x5A5A5A5A5A5A5A5A5 % top)}


def widebv_profile(env, w):
    """all bit-vector operators at a wide width over two symbols and the boundary constants"""
    top = 1 << w
    p = bv_profile(env, (w,), consts=(0, 1, top >> 1, top - 1), nsyms=2)
    # the generic table lists every extract range / rotation of small widths: keep the boundary ones
    keep = []
    for o in p.ops:
        n = o.name
        if n.startswith("extract"):
            lo, hi = [int(t) for t in n[len("extract"):].split("_")[:2]]
            if not ((lo, hi) in ((0, 0), (0, w - 1), (w - 1, w - 1), (1, w - 2), (0, 31), (32, w - 1), (31, 32))):
                continue
        if n.startswith(("rol", "ror")):
            k = int(n[3:].split("_")[0])
            if k not in (0, 1, w - 1, w, 31, 32):
                continue
        keep.append(o)
    p.ops = keep
    return p


def nary5mix_profile(env, compound=False, quant=True, natoms=None):
    """five-argument And / Or over atoms of different theories (each atom is the only one that brings its theory),
    or (compound=True) over Boolean symbols and compound Boolean arguments"""
    p = Profile("nary5mix", env)
    m = p.m
    a, b, c = p.sym("a", BOOL), p.sym("b", BOOL), p.sym("c", BOOL)
    if compound:
        p.leaf(BOOL, *[a, b, m.And(a, b), m.Or(b, c), m.Iff(a, c), c, m.Not(a)][:natoms or 7])
    else:
        x, y = p.sym("x", INT), p.sym("y", INT)
        r = p.sym("r", REAL)
        u = p.sym("u", ("BV", 2))
        st = p.sym("st", STRING)
        arr = p.sym("A", ("Array", INT, INT))
        f = p.sym("f", ("Fun", INT, (INT,)))
        atoms = [a, m.LE(x, y), m.LT(r, m.Real(Fraction(1, 2))), m.Equals(u, m.BV(1, 2)), m.Equals(st, m.String("a")),
                 m.Equals(m.Select(arr, x), m.Int(0)), m.Equals(m.Function(f, [x]), x)]
        if quant:
            atoms.append(m.Exists([p.sym("q", BOOL)], m.Or(p.sym("q", BOOL), b)))
        if natoms:
            atoms = atoms[:natoms]
        p.leaf(BOOL, *atoms)
    p.op("and5", [BOOL] * 5, BOOL, lambda m, *t: m.And(*t))
    p.op("or5", [BOOL] * 5, BOOL, lambda m, *t: m.Or(*t))
    return p


def bigarr_profile(env):
    """array literals beyond a handful of cells: six and twelve cells over Int, and two literals over BV3 that assign
    every index (different defaults, same array); reads at every index, equalities, stores"""
    p = Profile("bigarr", env)
    m = p.m
    B3 = ("BV", 3)
    AI, AB = ("Array", INT, INT), ("Array", B3, B3)
    it, bt = mk_type(env, INT), mk_type(env, B3)
    six = m.Array(it, m.Int(0), dict((m.Int(i), m.Int(10 + i)) for i in range(6)))
    twelve = m.Array(it, m.Int(1), dict((m.Int(i), m.Int(20 + i)) for i in range(12, 0, -1)))
    p.leaf(AI, six, twelve, p.sym("A", AI))
    p.leaf(INT, p.sym("i", INT), *[m.Int(i) for i in range(14)])
    full0 = m.Array(bt, m.BV(0, 3), dict((m.BV(i, 3), m.BV((i * 3) % 8, 3)) for i in range(8)))
    full1 = m.Array(bt, m.BV(1, 3), dict((m.BV(i, 3), m.BV((i * 3) % 8, 3)) for i in range(8)))
    part = m.Array(bt, m.BV(0, 3), dict((m.BV(i, 3), m.BV((i * 3) % 8, 3)) for i in range(1, 6)))
    p.leaf(AB, full0, full1, part, p.sym("M", AB))
    p.leaf(B3, p.sym("u", B3), *[m.BV(i, 3) for i in range(8)])
    p.op("select", [AI, INT], INT, lambda m, a, i: m.Select(a, i))
    p.op("selectb", [AB, B3], B3, lambda m, a, i: m.Select(a, i))
    p.op("eqi", [INT, INT], BOOL, lambda m, a, b: m.Equals(a, b))
    p.op("eqb", [B3, B3], BOOL, lambda m, a, b: m.Equals(a, b))
    p.op("eqa", [AI, AI], BOOL, lambda m, a, b: m.Equals(a, b))
    p.op("eqab", [AB, AB], BOOL, lambda m, a, b: m.Equals(a, b))
    p.op("store", [AI, INT, INT], AI, lambda m, a, i, v: m.Store(a, i, v))
    p.op("storeb", [AB, B3, B3], AB, lambda m, a, i, v: m.Store(a, i, v))
    return p


def arridx_profile(env):
    """arrays whose index sort is itself a (finite) array sort: index literals that are different nodes but the same
    array (K(T)[T:=F][F:=F] and K(F)) in stores and reads"""
    p = Profile("arridx", env)
    m = p.m
    IX = ("Array", BOOL, BOOL)
    AR = ("Array", IX, INT)
    bt = mk_type(env, BOOL)
    k1 = m.Array(bt, m.TRUE(), {m.TRUE(): m.FALSE(), m.FALSE(): m.FALSE()})
    k2 = m.Array(bt, m.FALSE())
    k3 = m.Array(bt, m.FALSE(), {m.TRUE(): m.TRUE()})
    p.leaf(IX, k1, k2, k3, p.sym("K", IX))
    p.leaf(AR, p.sym("R", AR))
    p.leaf(INT, p.sym("x", INT), m.Int(7))
    p.op("store", [AR, IX, INT], AR, lambda m, a, i, v: m.Store(a, i, v))
    p.op("select", [AR, IX], INT, lambda m, a, i: m.Select(a, i))
    p.op("eq", [INT, INT], BOOL, lambda m, a, b: m.Equals(a, b))
    p.op("eqk", [IX, IX], BOOL, lambda m, a, b: m.Equals(a, b))
    return p
