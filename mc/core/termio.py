"""Term DSL: JSON-able description of pySMT formulas and sorts.

dump(f)  goes through the public accessors of FNode only.
build(env, j) goes through the public constructors of the FormulaManager only.
A violation artefact stores the dumped term, so it is replayable without the explorer.

Sorts:  "Bool" | "Int" | "Real" | "String" | ["BV", w] | ["Array", i, e]
        | ["Fun", ret, [params]] | ["Sort", name, [args]]
(tuples are used internally so that sorts are hashable; JSON turns them into lists)
"""
from fractions import Fraction
import pysmt.operators as op

BOOL, INT, REAL, STRING = "Bool", "Int", "Real", "String"


def BV(w):
    return ("BV", w)


def ARR(i, e):
    return ("Array", i, e)


def FUN(ret, params):
    return ("Fun", ret, tuple(params))


def USORT(name, args=()):
    return ("Sort", name, tuple(args))


def sort_of(t):
    """pySMT type object -> sort tuple (uses only the public type interface)."""
    if t.is_bool_type():
        return BOOL
    if t.is_int_type():
        return INT
    if t.is_real_type():
        return REAL
    if t.is_string_type():
        return STRING
    if t.is_bv_type():
        return ("BV", t.width)
    if t.is_array_type():
        return ("Array", sort_of(t.index_type), sort_of(t.elem_type))
    if t.is_function_type():
        return ("Fun", sort_of(t.return_type), tuple(sort_of(p) for p in t.param_types))
    # custom sort
    return ("Sort", t.basename, tuple(sort_of(a) for a in t.args))


def norm_sort(j):
    """JSON (lists) -> hashable sort tuple."""
    if isinstance(j, str):
        return j
    k = j[0]
    if k == "BV":
        return ("BV", int(j[1]))
    if k == "Array":
        return ("Array", norm_sort(j[1]), norm_sort(j[2]))
    if k == "Fun":
        return ("Fun", norm_sort(j[1]), tuple(norm_sort(x) for x in j[2]))
    if k == "Sort":
        return ("Sort", j[1], tuple(norm_sort(x) for x in j[2]))
    raise ValueError(j)


def mk_type(env, s):
    """sort tuple -> pySMT type of environment env."""
    tm = env.type_manager
    if s == BOOL:
        return tm.BOOL()
    if s == INT:
        return tm.INT()
    if s == REAL:
        return tm.REAL()
    if s == STRING:
        return tm.STRING()
    k = s[0]
    if k == "BV":
        return tm.BVType(s[1])
    if k == "Array":
        return tm.ArrayType(mk_type(env, s[1]), mk_type(env, s[2]))
    if k == "Fun":
        return tm.FunctionType(mk_type(env, s[1]), [mk_type(env, p) for p in s[2]])
    if k == "Sort":
        if len(s[2]) == 0:
            return tm.Type(s[1], 0)
        decl = tm.Type(s[1], len(s[2]))
        return tm.get_type_instance(decl, *[mk_type(env, a) for a in s[2]])
    raise ValueError(s)


def sort_str(s):
    if isinstance(s, str):
        return s
    if s[0] == "BV":
        return "BV%d" % s[1]
    if s[0] == "Array":
        return "Arr[%s,%s]" % (sort_str(s[1]), sort_str(s[2]))
    if s[0] == "Fun":
        return "(%s)->%s" % (",".join(sort_str(p) for p in s[2]), sort_str(s[1]))
    return s[1] + ("<%s>" % ",".join(sort_str(a) for a in s[2]) if s[2] else "")


# ---------------------------------------------------------------------------------------
# operator names of the DSL

OPNAME = {
    op.AND: "and", op.OR: "or", op.NOT: "not", op.IMPLIES: "implies", op.IFF: "iff",
    op.PLUS: "plus", op.MINUS: "minus", op.TIMES: "times", op.DIV: "div", op.POW: "pow",
    op.LE: "le", op.LT: "lt", op.EQUALS: "equals", op.ITE: "ite", op.TOREAL: "toreal",
    op.BV_NOT: "bvnot", op.BV_AND: "bvand", op.BV_OR: "bvor", op.BV_XOR: "bvxor",
    op.BV_CONCAT: "bvconcat", op.BV_ULT: "bvult", op.BV_ULE: "bvule", op.BV_NEG: "bvneg",
    op.BV_ADD: "bvadd", op.BV_SUB: "bvsub", op.BV_MUL: "bvmul", op.BV_UDIV: "bvudiv",
    op.BV_UREM: "bvurem", op.BV_LSHL: "bvshl", op.BV_LSHR: "bvlshr", op.BV_SLT: "bvslt",
    op.BV_SLE: "bvsle", op.BV_COMP: "bvcomp", op.BV_SDIV: "bvsdiv", op.BV_SREM: "bvsrem",
    op.BV_ASHR: "bvashr", op.STR_LENGTH: "strlen", op.STR_CONCAT: "strconcat",
    op.STR_CONTAINS: "strcontains", op.STR_INDEXOF: "strindexof",
    op.STR_REPLACE: "strreplace", op.STR_SUBSTR: "strsubstr", op.STR_PREFIXOF: "strprefixof",
    op.STR_SUFFIXOF: "strsuffixof", op.STR_TO_INT: "strtoint", op.INT_TO_STR: "inttostr",
    op.STR_CHARAT: "strcharat", op.ARRAY_SELECT: "select", op.ARRAY_STORE: "store",
    op.BV_TONATURAL: "bv2nat",
}
PLAIN = {v: k for k, v in OPNAME.items()}
INDEXED = {op.BV_EXTRACT: "extract", op.BV_ROL: "rol", op.BV_ROR: "ror",
           op.BV_ZEXT: "zext", op.BV_SEXT: "sext"}


def dump(f):
    """FNode -> JSON-able nested lists (iterative; shared sub-DAGs are expanded)."""
    memo = {}
    stack = [(f, False)]
    while stack:
        n, done = stack.pop()
        if n in memo:
            continue
        kids = list(n.args())
        if n.is_function_application():
            pass
        if not done:
            stack.append((n, True))
            for k in kids:
                if k not in memo:
                    stack.append((k, False))
            continue
        t = n.node_type()
        ka = [memo[k] for k in kids]
        if t == op.SYMBOL:
            r = ["sym", n.symbol_name(), _js(sort_of(n.symbol_type()))]
        elif t == op.BOOL_CONSTANT:
            r = ["bool", bool(n.constant_value())]
        elif t == op.INT_CONSTANT:
            r = ["int", int(n.constant_value())]
        elif t == op.REAL_CONSTANT:
            v = n.constant_value()
            r = ["real", "%d/%d" % (v.numerator, v.denominator)]
        elif t == op.STR_CONSTANT:
            r = ["str", n.constant_value()]
        elif t == op.BV_CONSTANT:
            r = ["bv", int(n.constant_value()), n.bv_width()]
        elif t in (op.FORALL, op.EXISTS):
            r = ["forall" if t == op.FORALL else "exists",
                 [([v.symbol_name(), _js(sort_of(v.symbol_type()))] if v.is_symbol()
                   else ["?not-a-symbol", str(v)]) for v in n.quantifier_vars()],
                 ka[0]]
        elif t == op.FUNCTION:
            fn = n.function_name()
            r = ["app", fn.symbol_name(), _js(sort_of(fn.symbol_type()))] + ka
        elif t == op.BV_EXTRACT:
            r = ["extract", n.bv_extract_start(), n.bv_extract_end(), ka[0]]
        elif t in (op.BV_ROL, op.BV_ROR):
            r = [INDEXED[t], n.bv_rotation_step(), ka[0]]
        elif t in (op.BV_ZEXT, op.BV_SEXT):
            r = [INDEXED[t], n.bv_extend_step(), ka[0]]
        elif t == op.ARRAY_VALUE:
            r = ["arrval", _js(sort_of(n.array_value_index_type())), ka[0],
                 [[ka[i], ka[i + 1]] for i in range(1, len(ka), 2)]]
        elif t in OPNAME:
            r = [OPNAME[t]] + ka
        else:
            r = ["?node%d" % t] + ka
        memo[n] = r
    return memo[f]


def _js(s):
    if isinstance(s, tuple):
        return [_js(x) for x in s]
    return s


_PUBLIC = {
    "and": "And", "or": "Or", "not": "Not", "implies": "Implies", "iff": "Iff", "plus": "Plus", "minus": "Minus",
    "times": "Times", "div": "Div", "pow": "Pow", "le": "LE", "lt": "LT", "equals": "Equals", "ite": "Ite",
    "toreal": "ToReal", "bvnot": "BVNot", "bvand": "BVAnd", "bvor": "BVOr", "bvxor": "BVXor", "bvconcat": "BVConcat",
    "bvult": "BVULT", "bvule": "BVULE", "bvneg": "BVNeg", "bvadd": "BVAdd", "bvsub": "BVSub", "bvmul": "BVMul",
    "bvudiv": "BVUDiv", "bvurem": "BVURem", "bvshl": "BVLShl", "bvlshr": "BVLShr", "bvslt": "BVSLT", "bvsle": "BVSLE",
    "bvcomp": "BVComp", "bvsdiv": "BVSDiv", "bvsrem": "BVSRem", "bvashr": "BVAShr", "strlen": "StrLength",
    "strconcat": "StrConcat", "strcontains": "StrContains", "strindexof": "StrIndexOf", "strreplace": "StrReplace",
    "strsubstr": "StrSubstr", "strprefixof": "StrPrefixOf", "strsuffixof": "StrSuffixOf", "strtoint": "StrToInt",
    "inttostr": "IntToStr", "strcharat": "StrCharAt", "select": "Select", "store": "Store", "bv2nat": "BVToNatural",
}


def build(env, j, public=False):
    """JSON term -> FNode of env.  Plain operators go through create_node (exact structure, for replays);
    with public=True they go through the public constructors (with their documented normalisations)."""
    m = env.formula_manager
    k = j[0]
    if k == "sym":
        return m.Symbol(j[1], mk_type(env, norm_sort(j[2])))
    if k == "bool":
        return m.Bool(bool(j[1]))
    if k == "int":
        return m.Int(int(j[1]))
    if k == "real":
        return m.Real(Fraction(j[1]))
    if k == "str":
        return m.String(j[1])
    if k == "bv":
        return m.BV(int(j[1]), int(j[2]))
    if k in ("forall", "exists"):
        vs = [m.Symbol(n, mk_type(env, norm_sort(s))) for n, s in j[1]]
        body = build(env, j[2], public)
        return (m.ForAll if k == "forall" else m.Exists)(vs, body)
    if k == "app":
        fn = m.Symbol(j[1], mk_type(env, norm_sort(j[2])))
        return m.Function(fn, [build(env, a, public) for a in j[3:]])
    if k == "extract":
        return m.BVExtract(build(env, j[3], public), int(j[1]), int(j[2]))
    if k == "rol":
        return m.BVRol(build(env, j[2], public), int(j[1]))
    if k == "ror":
        return m.BVRor(build(env, j[2], public), int(j[1]))
    if k == "zext":
        return m.BVZExt(build(env, j[2], public), int(j[1]))
    if k == "sext":
        return m.BVSExt(build(env, j[2], public), int(j[1]))
    if k == "arrval":
        d = build(env, j[2], public)
        return m.Array(mk_type(env, norm_sort(j[1])), d,
                       {build(env, a, public): build(env, b, public) for a, b in j[3]})
    args = tuple(build(env, a, public) for a in j[1:])
    if public:
        return getattr(m, _PUBLIC[k])(*args)
    nt = PLAIN[k]
    # go through create_node for plain operators: the n-ary public constructors collapse
    # single arguments and Div/Pow rewrite; a replay must rebuild the exact structure.
    return m.create_node(node_type=nt, args=args, payload=_payload(nt, args))


def _payload(nt, args):
    """payload that the public constructors attach to plain BV operators (the width)."""
    if nt in (op.BV_NOT, op.BV_AND, op.BV_OR, op.BV_XOR, op.BV_NEG, op.BV_ADD, op.BV_SUB,
              op.BV_MUL, op.BV_UDIV, op.BV_UREM, op.BV_LSHL, op.BV_LSHR, op.BV_SDIV,
              op.BV_SREM, op.BV_ASHR):
        return (args[0].bv_width(),)
    if nt == op.BV_CONCAT:
        return (args[0].bv_width() + args[1].bv_width(),)
    if nt == op.BV_COMP:
        return (1,)
    return None


def short(j, limit=300):
    """compact one-line rendering of a DSL term for messages"""
    def r(x):
        k = x[0]
        if k == "sym":
            return x[1]
        if k == "bool":
            return "T" if x[1] else "F"
        if k == "int":
            return str(x[1])
        if k == "real":
            return x[1] + "r"
        if k == "str":
            return repr(x[1])
        if k == "bv":
            return "%d_%d" % (x[1], x[2])
        if k in ("forall", "exists"):
            return "%s[%s].%s" % (k, ",".join(n for n, _ in x[1]), r(x[2]))
        if k == "app":
            return "%s(%s)" % (x[1], ",".join(r(a) for a in x[3:]))
        if k == "extract":
            return "extract[%d:%d](%s)" % (x[1], x[2], r(x[3]))
        if k in ("rol", "ror", "zext", "sext"):
            return "%s[%d](%s)" % (k, x[1], r(x[2]))
        if k == "arrval":
            return "arr{%s|%s}" % (r(x[2]), ",".join("%s:%s" % (r(a), r(b)) for a, b in x[3]))
        return "%s(%s)" % (k, ",".join(r(a) for a in x[1:]))
    s = r(j)
    return s if len(s) <= limit else s[:limit] + "..."
