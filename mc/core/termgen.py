"""Bounded-exhaustive generators of well-typed pySMT terms and of interpretations.

A *profile* is a set of leaves per sort plus a table of operator instances
Op(name, argsorts, ressort, build).  grow() applies every operator to every argument
tuple drawn from the given pools, so `levels(profile, d)` is *all* terms of depth <= d
over the profile (hash-consing gives structural de-duplication for free).
"""
import warnings
from fractions import Fraction
from itertools import product
from .termio import BOOL, INT, REAL, STRING, mk_type
from .refsem import ArrVal, FunVal, domain, QDOM

warnings.simplefilter("ignore")


class Op(object):
    __slots__ = ("name", "args", "res", "build", "commut")

    def __init__(self, name, args, res, build, commut=False):
        self.name = name
        self.args = tuple(args)
        self.res = res
        self.build = build
        self.commut = commut

    def __repr__(self):
        return "Op(%s)" % self.name


class Profile(object):
    def __init__(self, name, env):
        self.name = name
        self.env = env
        self.m = env.formula_manager
        self.leaves = {}      # sort -> list of FNode
        self.ops = []         # list of Op
        self.symbols = {}     # name -> sort (declared 0-ary and function symbols)

    def sym(self, name, sort):
        s = self.m.Symbol(name, mk_type(self.env, sort))
        self.symbols[name] = sort
        return s

    def leaf(self, sort, *nodes):
        self.leaves.setdefault(sort, []).extend(nodes)

    def op(self, name, args, res, build, commut=False):
        self.ops.append(Op(name, args, res, build, commut))


def grow(profile, pools, ops=None, seen=None, require_new=None, on_error=None):
    """Apply every operator to every argument tuple from `pools` (sort -> list).
    require_new: optional set of nodes; if given, only tuples with at least one argument
    in it are built (so a level contains exactly the terms not in lower levels).
    Returns sort -> list of newly created distinct nodes (not in `seen`)."""
    m = profile.m
    if seen is None:
        seen = set()
    out = {}
    for o in (ops if ops is not None else profile.ops):
        lists = []
        ok = True
        for s in o.args:
            l = pools.get(s)
            if not l:
                ok = False
                break
            lists.append(l)
        if not ok:
            continue
        for tup in product(*lists):
            if require_new is not None and not any(a in require_new for a in tup):
                continue
            try:
                n = o.build(m, *tup)
            except Exception as e:  # constructor refused (e.g. Pow with non-constant exponent)
                if on_error is not None:
                    on_error(o, tup, e)
                continue
            if n in seen:
                continue
            seen.add(n)
            out.setdefault(o.res, []).append(n)
    return out


def levels(profile, depth, ops_by_level=None):
    """[L0, L1, ...] where Lk maps sort -> list of terms first created at depth k."""
    seen = set()
    L0 = {}
    for s, ns in profile.leaves.items():
        for n in ns:
            if n not in seen:
                seen.add(n)
                L0.setdefault(s, []).append(n)
    lv = [L0]
    pools = {s: list(ns) for s, ns in L0.items()}
    for d in range(1, depth + 1):
        newest = set()
        for ns in lv[-1].values():
            newest.update(ns)
        ops = ops_by_level[d] if ops_by_level else None
        new = grow(profile, pools, ops=ops, seen=seen, require_new=newest if d > 1 else None)
        lv.append(new)
        for s, ns in new.items():
            pools.setdefault(s, []).extend(ns)
    return lv


def flatten(lv):
    out = []
    for L in lv:
        for s in sorted(L, key=repr):
            out.extend(L[s])
    return out


# ---------------------------------------------------------------------------------------
# value domains and interpretations

INT_DOM = (-2, -1, 0, 1, 2, 3)
REAL_DOM = (Fraction(-2), Fraction(-1, 2), Fraction(0), Fraction(1, 3), Fraction(1), Fraction(2))
STR_DOM = ("", "a", "b", "ab", "ba", "12", "-1", " 1", "1_0")


def sort_values(s, dom=None):
    """the finite value pool used for free symbols of sort s"""
    if dom and s in dom:
        return dom[s]
    if s == BOOL:
        return (False, True)
    if s == INT:
        return INT_DOM
    if s == REAL:
        return REAL_DOM
    if s == STRING:
        return STR_DOM
    k = s[0]
    if k == "BV":
        if s[1] > 10:
            # the values of a wide vector cannot be enumerated: a pool of boundary values (as for Int)
            top = 1 << s[1]
            return tuple(dict.fromkeys((0, 1, 2, top >> 1, (top >> 1) - 1, top - 1, top - 2, 0x5A5A5A5A5A5A5A5A5 % top)))
        return tuple(range(1 << s[1]))
    if k == "Array":
        isort, esort = s[1], s[2]
        ev = sort_values(esort, dom)
        if isort == BOOL or isort[0] == "BV":
            idx = list(domain(isort))
            if len(ev) ** len(idx) <= 16:
                return tuple(ArrVal.total(isort, dict(zip(idx, vals)))
                             for vals in product(ev, repeat=len(idx)))
            # a few: constants, single exception
            out = [ArrVal.const(isort, v) for v in ev[:3]]
            out += [ArrVal.const(isort, ev[0]).put(idx[0], ev[1]),
                    ArrVal.const(isort, ev[0]).put(idx[-1], ev[-1]),
                    ArrVal.const(isort, ev[1]).put(idx[0], ev[0]).put(idx[1 % len(idx)], ev[-1])]
            return tuple(dict.fromkeys(out))
        iv = sort_values(isort, dom)
        out = [ArrVal.const(isort, ev[0]), ArrVal.const(isort, ev[1 % len(ev)]),
               ArrVal.const(isort, ev[0]).put(iv[0], ev[1 % len(ev)]),
               ArrVal.const(isort, ev[0]).put(iv[1 % len(iv)], ev[-1]).put(iv[0], ev[1 % len(ev)])]
        return tuple(dict.fromkeys(out))
    if k == "Sort":
        return (0, 1)
    if k == "Fun":
        ret, params = s[1], s[2]
        rv = sort_values(ret, dom)
        pv = [sort_values(p, dom) for p in params]
        keys = list(product(*pv))
        if len(rv) ** len(keys) <= 64:
            return tuple(FunVal(dict(zip(keys, vals)), rv[0])
                         for vals in product(rv, repeat=len(keys)))
        out = [FunVal({}, rv[0]), FunVal({}, rv[-1])]
        out.append(FunVal({k: rv[(i + 1) % len(rv)] for i, k in enumerate(keys)}, rv[0]))
        out.append(FunVal({k: rv[(2 * i) % len(rv)] for i, k in enumerate(keys)}, rv[1 % len(rv)]))
        return tuple(out)
    raise ValueError(s)


def interps(symbols, dom=None, qdoms=None):
    """all interpretations of `symbols` (name -> sort) over the finite pools; if qdoms is a
    list of {sort: values} dicts, each interpretation is paired with each of them."""
    names = sorted(symbols)
    pools = [sort_values(symbols[n], dom) for n in names]
    for vals in product(*pools):
        I = dict(zip(names, vals))
        if qdoms:
            for q in qdoms:
                J = dict(I)
                J[QDOM] = q
                yield J
        else:
            yield I


def count_interps(symbols, dom=None, qdoms=None):
    n = 1
    for s in symbols.values():
        n *= len(sort_values(s, dom))
    return n * (len(qdoms) if qdoms else 1)
