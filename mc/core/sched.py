"""Controlled scheduler for pysmt.solvers.portfolio: virtual Process / Queue / Pipe.

portfolio.py imports `Process, Queue, Pipe` by name; install() rebinds those three module
attributes.  A virtual process is a Python thread that runs only while it holds the baton;
every start/terminate/is_alive, Queue.put/get, Connection.send/recv and every explicit
yield_point() inside a member solver is a scheduling point.  A blocking get/recv disables
the thread until data exists.  Objects crossing a queue or a pipe are pickled and unpickled,
so formulas arrive detached exactly as between real processes.  terminate() removes the
target at its current scheduling point (after kill() returns, a process with a pending
fatal signal never runs user code again).

explore(body) enumerates every schedule by depth-first search over choice sequences with
replayed prefixes (stateless model checking); a divergence while replaying is a hard error.
Optionally the number of preemptions per schedule is bounded (CHESS-style).
"""
import collections
import pickle
import threading
import _thread


class Baton(object):
    """binary hand-off signal on a raw lock (much faster than threading.Semaphore)"""
    __slots__ = ("l",)

    def __init__(self):
        self.l = _thread.allocate_lock()
        self.l.acquire()

    def acquire(self):
        self.l.acquire()

    def release(self):
        try:
            self.l.release()
        except RuntimeError:
            pass      # already signalled (terminate followed by the final clean-up)


class Deadlock(Exception):
    """no enabled thread while the caller is unfinished: the call blocks forever"""


class Killed(BaseException):
    pass


class Divergence(Exception):
    pass


class Sched(object):
    def __init__(self, choices):
        self.choices = list(choices)
        self.pos = 0
        self.trace = []          # (choice, number of alternatives, preemptive?)
        self.threads = {}        # name -> VProcess
        self.current = "main"
        self.sems = {"main": Baton()}
        self.blocked = {}        # name -> predicate (enabled when it returns True)
        self.done = set()
        self.dead = set()
        self.dl = False
        self.events = []         # human-readable log of the schedule

    def enabled(self):
        names = ["main"] + sorted(self.threads)
        res = []
        for n in names:
            if n in self.done or n in self.dead:
                continue
            if n != "main" and not self.threads[n].started:
                continue
            pred = self.blocked.get(n)
            if pred is None or pred():
                res.append(n)
        return res

    def point(self, me, what, pred=None):
        if pred is not None:
            self.blocked[me] = pred
        self.switch(me, what)
        self.blocked.pop(me, None)

    def switch(self, me, what="", finishing=False):
        en = self.enabled()
        if finishing:
            en = [n for n in en if n != me]
        if not en:
            if "main" in self.done:
                return
            self.dl = True
            self.current = "main"
            if me != "main":
                self.sems["main"].release()
                if not finishing:
                    self.sems[me].acquire()
                    if me in self.dead:
                        raise Killed()
                return
            raise Deadlock()
        me_enabled = me in en
        if me_enabled:          # canonical order: the running thread first
            en.remove(me)
            en.insert(0, me)
        if self.pos < len(self.choices):
            c = self.choices[self.pos]
            if c >= len(en):
                raise Divergence("replayed choice %d out of range %d at point %d" % (c, len(en), self.pos))
        else:
            c = 0
        self.pos += 1
        self.trace.append((c, len(en), me_enabled))
        nxt = en[c]
        self.events.append("%s@%s->%s" % (me, what, nxt))
        if nxt == me:
            return
        self.current = nxt
        self.sems[nxt].release()
        if not finishing:
            self.sems[me].acquire()
            if me in self.dead:
                raise Killed()
            if self.dl and me == "main":
                raise Deadlock()


SCHED = [None]


def S():
    return SCHED[0]


class VProcess(object):
    def __init__(self, name=None, target=None, args=()):
        self.name = name
        self.target = target
        self.args = args
        self.started = False
        self.exc = None
        s = S()
        if name in s.threads:
            # a second solve re-creates processes with the same names
            i = 2
            while "%s#%d" % (name, i) in s.threads:
                i += 1
            self._key = "%s#%d" % (name, i)
        else:
            self._key = name
        s.threads[self._key] = self
        s.sems[self._key] = Baton()

    def start(self):
        s = S()
        self.started = True
        key = self._key

        def run():
            s.sems[key].acquire()
            try:
                if key in s.dead:
                    return
                self.target(*self.args)
            except Killed:
                pass
            except BaseException as e:      # an uncaught error kills the process silently
                self.exc = e
            finally:
                s.done.add(key)
                if key not in s.dead:
                    try:
                        s.switch(key, "exit", finishing=True)
                    except BaseException:
                        pass
        self.th = threading.Thread(target=run, daemon=True)
        self.th.start()
        s.point(s.current, "start")

    def terminate(self):
        s = S()
        s.point(s.current, "terminate")
        if self._key not in s.done and self._key not in s.dead:
            s.dead.add(self._key)
            if self.started:
                s.sems[self._key].release()

    def is_alive(self):
        s = S()
        s.point(s.current, "is_alive")
        return self.started and self._key not in s.done and self._key not in s.dead


class VQueue(object):
    def __init__(self):
        self.q = collections.deque()

    def put(self, x):
        s = S()
        s.point(s.current, "put")
        self.q.append(pickle.dumps(x))

    def get(self, block=True):
        s = S()
        s.point(s.current, "get", lambda: len(self.q) > 0)
        return pickle.loads(self.q.popleft())

    # the rest of the multiprocessing.Queue interface (a change to the library may start using it)
    def put_nowait(self, x):
        self.put(x)

    def get_nowait(self):
        import queue
        s = S()
        s.point(s.current, "get_nowait")
        if not self.q:
            raise queue.Empty()
        return pickle.loads(self.q.popleft())

    def empty(self):
        s = S()
        s.point(s.current, "empty")
        return not self.q

    def qsize(self):
        s = S()
        s.point(s.current, "qsize")
        return len(self.q)

    def close(self):
        pass

    def join_thread(self):
        pass

    def cancel_join_thread(self):
        pass


PIPE_CAP = 4      # messages a virtual pipe holds before send() blocks


class VConn(object):
    def __init__(self, inq, outq):
        self.inq = inq
        self.outq = outq

    def send(self, x):
        # a pipe has a finite buffer: a send blocks while PIPE_CAP messages are unread
        s = S()
        s.point(s.current, "send", lambda: len(self.outq) < PIPE_CAP)
        self.outq.append(pickle.dumps(x))

    def recv(self):
        s = S()
        s.point(s.current, "recv", lambda: len(self.inq) > 0)
        return pickle.loads(self.inq.popleft())

    def poll(self, timeout=0.0):
        s = S()
        s.point(s.current, "poll")
        return len(self.inq) > 0

    def close(self):
        pass


def VPipe():
    a, b = collections.deque(), collections.deque()
    return VConn(a, b), VConn(b, a)


def yield_point(what="yield"):
    s = S()
    if s is not None:
        s.point(s.current, what)


def install():
    import pysmt.solvers.portfolio as P
    P.Process = VProcess
    P.Queue = VQueue
    P.Pipe = VPipe


def run_once(body, choices):
    """run body() (the caller script) as thread 'main' under the given choice prefix"""
    s = Sched(choices)
    SCHED[0] = s
    outcome = None
    try:
        outcome = ("ok", body())
    except Deadlock:
        outcome = ("DEADLOCK", None)
    except Divergence:
        raise
    except BaseException as e:
        outcome = ("exc", type(e).__name__ + ": " + str(e)[:120])
    s.done.add("main")
    leftover = sorted(n for n in s.threads if s.threads[n].started and n not in s.done and n not in s.dead)
    for n in list(s.threads):
        s.dead.add(n)
        s.sems[n].release()
    for n, t in s.threads.items():
        th = getattr(t, "th", None)
        if th is not None:
            th.join(timeout=2)
    SCHED[0] = None
    return outcome, s.trace, s.events, leftover


def explore(body, preemption_bound=None, max_schedules=None, on_schedule=None):
    """DFS over all schedules.  Returns (number of schedules, capped?)."""
    n = 0
    stack = [[]]
    capped = False
    while stack:
        pre = stack.pop()
        outcome, trace, events, leftover = run_once(body, pre)
        n += 1
        if on_schedule is not None:
            on_schedule(pre, outcome, trace, events, leftover)
        # preemptions used before position i
        used = 0
        costs = []
        for (c, k, me_en) in trace:
            costs.append(used)
            if c != 0 and me_en:
                used += 1
        for i in range(len(pre), len(trace)):
            c, k, me_en = trace[i]
            for alt in range(1, k):
                cost = costs[i] + (1 if me_en else 0)
                if preemption_bound is not None and cost > preemption_bound:
                    continue
                stack.append([t[0] for t in trace[:i]] + [alt])
        if max_schedules is not None and n >= max_schedules:
            capped = bool(stack)
            break
    return n, capped
