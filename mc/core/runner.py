"""Runner: tiers, seeds, evidence, known findings, replay artefacts, worker pool."""
import hashlib
import json
import multiprocessing
import os
import random
import sys
import time
import traceback

ROOT = os.path.dirname(os.path.dirname(os.path.dirname(os.path.abspath(__file__))))
EVIDENCE_DIR = os.path.join(ROOT, "evidence")
REPLAY_DIR = os.path.join(ROOT, "replays")
if os.environ.get("VERIF_REPO", "/repo") != "/repo":
    # detection experiments on a scratch worktree are not evidence: their output goes to a scratch directory
    # (VERIF_OUT, default /tmp/verif-scratch-out), so that such runs can go on in parallel and never touch evidence/
    _OUT = os.environ.get("VERIF_OUT") or "/tmp/verif-scratch-out"
    EVIDENCE_DIR = os.path.join(_OUT, "evidence")
    REPLAY_DIR = os.path.join(_OUT, "replays")
KNOWN_FILE = os.path.join(ROOT, "known-findings.txt")
NPROC = max(1, min(16, int(os.environ.get("VERIF_NPROC") or 0) or (os.cpu_count() or 2)))


def load_known(prop):
    """known-findings.txt: 'known: property=C07 sig=<signature> :: text' (read-only)"""
    out = {}
    if not os.path.exists(KNOWN_FILE):
        return out
    for line in open(KNOWN_FILE, encoding="utf-8"):
        line = line.strip()
        if not line.startswith("known:"):
            continue
        head, _, text = line[len("known:"):].partition("::")
        fields = dict(x.split("=", 1) for x in head.split() if "=" in x)
        if fields.get("property") == prop and "sig" in fields:
            out[fields["sig"]] = text.strip()
    return out


class Result(object):
    """what one shard (or one whole check) measured; mergeable and picklable"""

    def __init__(self):
        self.counters = {}
        self.violations = []   # dicts: part, sig, msg, case
        self.samples = []
        self.outcomes = {}     # outcome label -> count (to expose vacuity)
        self.notes = []
        self.sigcount = {}     # signature -> number of violating cases

    def count(self, key, n=1):
        self.counters[key] = self.counters.get(key, 0) + n

    def outcome(self, label, n=1):
        self.outcomes[label] = self.outcomes.get(label, 0) + n

    def violation(self, part, sig, msg, case):
        # keep at most 25 cases per signature (a prolific signature must not push out others);
        # the number of cases per signature is still counted
        self.sigcount[sig] = self.sigcount.get(sig, 0) + 1
        if self.sigcount[sig] <= 25:
            self.violations.append({"part": part, "sig": sig, "msg": msg, "case": case})
        self.count("violations_raw")

    def sample(self, case, limit=4):
        if len(self.samples) < limit:
            self.samples.append(case)

    def merge(self, other):
        for k, v in other.counters.items():
            self.counters[k] = self.counters.get(k, 0) + v
        for k, v in other.outcomes.items():
            self.outcomes[k] = self.outcomes.get(k, 0) + v
        for v in other.violations:
            if sum(1 for w in self.violations if w["sig"] == v["sig"]) < 25:
                self.violations.append(v)
        for k, v in getattr(other, "sigcount", {}).items():
            self.sigcount[k] = self.sigcount.get(k, 0) + v
        for s in other.samples:
            if len(self.samples) < 6:
                self.samples.append(s)
        self.notes.extend(other.notes)


class Ctx(object):
    def __init__(self, prop, tier, seed):
        self.prop = prop
        self.tier = tier
        self.seed = seed
        self.quick = (tier == "quick")
        self.t0 = time.time()
        self.res = Result()
        self.rng = random.Random(seed)
        self.coverage = {}       # extra coverage keys set by the check
        self.assumptions = []
        self.level = "exploration"
        self.rule = ""
        self.exhaustive = True
        self.cap_note = None
        self.deadline = self.t0 + (float(os.environ.get("VERIF_QUICK_CAP", 600)) if self.quick
                                   else float(os.environ.get("VERIF_THOROUGH_CAP", 3 * 3600)))

    def elapsed(self):
        return time.time() - self.t0

    def out_of_time(self):
        return time.time() > self.deadline

    # -- worker pool -------------------------------------------------------------------
    def pmap(self, fn, shards, nproc=None):
        """run fn(shard) -> Result in a pool of long-lived forked workers; merge results"""
        nproc = nproc or NPROC
        shards = list(shards)
        if len(shards) <= 1 or nproc == 1 or os.environ.get("VERIF_SERIAL"):
            for s in shards:
                self.res.merge(_guard(fn, s))
            return
        mpc = multiprocessing.get_context("fork")
        with mpc.Pool(min(nproc, len(shards))) as pool:
            for r in pool.imap_unordered(_Guard(fn), shards, chunksize=1):
                self.res.merge(r)


class _Guard(object):
    def __init__(self, fn):
        self.fn = fn

    def __call__(self, shard):
        return _guard(self.fn, shard)


def _guard(fn, shard):
    try:
        return fn(shard)
    except Exception:
        r = Result()
        r.violation("harness", "harness:crash", "worker crashed on shard %r:\n%s"
                    % (shard, traceback.format_exc()), {"shard": repr(shard)})
        return r


def finish(ctx):
    """group violations by signature, apply known findings, write replays + evidence"""
    res = ctx.res
    known = load_known(ctx.prop)
    groups = {}
    for v in res.violations:
        groups.setdefault(v["sig"], []).append(v)
    new = 0
    known_seen = []
    os.makedirs(EVIDENCE_DIR, exist_ok=True)
    for sig in sorted(groups):
        vs = groups[sig]
        first = min(vs, key=lambda v: len(json.dumps(v["case"], default=str)))
        ncases = res.sigcount.get(sig, len(vs))
        if sig in known:
            known_seen.append(sig)
            print("KNOWN-FINDING: property=%s sig=%s (%d cases) %s | first: %s"
                  % (ctx.prop, sig, ncases, known[sig], _one_line(first["msg"])))
            continue
        new += 1
        d = os.path.join(REPLAY_DIR, ctx.prop)
        os.makedirs(d, exist_ok=True)
        h = hashlib.sha1(sig.encode()).hexdigest()[:12]
        path = os.path.join(d, h + ".json")
        with open(path, "w") as fp:
            json.dump({"property": ctx.prop, "part": first["part"], "sig": sig,
                       "msg": first["msg"], "case": first["case"], "count": ncases},
                      fp, indent=1, default=str)
        print("  violation sig=%s (%d cases): %s" % (sig, ncases, _one_line(first["msg"], 600)))
        print("VIOLATION property=%s replay=%s" % (ctx.prop, os.path.relpath(path, ROOT)))
    cov = dict(ctx.coverage)
    cov.setdefault("evaluations", res.counters.get("evaluations", 0))
    cov.setdefault("distinct_nontrivial", res.counters.get("nontrivial", 0))
    cov["rule"] = ctx.rule
    cov["samples"] = res.samples[:6] if res.samples else []
    cov["exhaustive"] = bool(ctx.exhaustive)
    if ctx.cap_note:
        cov["cap"] = ctx.cap_note
    cov["counters"] = dict(sorted(res.counters.items()))
    cov["distinct_outcomes"] = len(res.outcomes)
    cov["outcomes"] = dict(sorted(res.outcomes.items(), key=lambda kv: -kv[1])[:40])
    cov["known_findings_seen"] = known_seen
    if res.notes:
        cov["notes"] = res.notes[:20]
    ev = {"property_id": ctx.prop, "tier": ctx.tier, "seed": ctx.seed, "level": ctx.level,
          "coverage": cov, "assumptions": ctx.assumptions, "wall_s": round(ctx.elapsed(), 2),
          "violations": new}
    with open(os.path.join(EVIDENCE_DIR, ctx.prop + ".json"), "w") as fp:
        json.dump(ev, fp, indent=1, default=str)
        fp.write("\n")
    if ctx.tier == "thorough" and os.environ.get("VERIF_REPO", "/repo") == "/repo":
        # the per-property file is rewritten by every run: keep the record of the last thorough run beside it
        os.makedirs(os.path.join(EVIDENCE_DIR, "thorough"), exist_ok=True)
        with open(os.path.join(EVIDENCE_DIR, "thorough", ctx.prop + ".json"), "w") as fp:
            json.dump(ev, fp, indent=1, default=str)
            fp.write("\n")
    print("%s tier=%s seed=%d: evaluations=%d nontrivial=%d violations=%d known=%d exhaustive=%s wall=%.1fs"
          % (ctx.prop, ctx.tier, ctx.seed, cov["evaluations"], cov["distinct_nontrivial"], new,
             len(known_seen), cov["exhaustive"], ctx.elapsed()))
    return 1 if new else 0


def _one_line(s, n=300):
    s = " ".join(str(s).split())
    return s if len(s) <= n else s[:n] + "..."


def shuffled(seq, seed):
    seq = list(seq)
    random.Random(seed).shuffle(seq)
    return seq
