"""Same contract as sweep.py (same part dicts, same set of enumerated applications, same counters),
but the last level is enumerated *constructively*: for a part with `max_new`, the argument tuples with
exactly k = 1..max_new arguments from the newest lower level are generated as products of the
(new | old) pools per argument position, instead of filtering the full product.  sweep.run_shard
spends  shards x |full product|  tuple visits on filtering, which dominates when max_new cuts a large
product down (e.g. 2*10^8 tuples for 10^6 applications); here a shard visits exactly the
applications of the part.  sweep.estimate(part) is the size of the enumerated set in both engines.
"""
from itertools import product, combinations
from pysmt.environment import Environment, push_env, pop_env
from .runner import Result
from .sweep import _levels_below

_PARTS = []
_MAKE = [None]


def applications(profile, lv, depth, top, max_new):
    """yield (op, argument tuple) for the last level; lv = levels below (lists per sort)"""
    oldp, newp, allp = {}, {}, {}
    for i, L in enumerate(lv):
        for s in sorted(L, key=repr):
            allp.setdefault(s, []).extend(L[s])
            (newp if i == len(lv) - 1 else oldp).setdefault(s, []).extend(L[s])
    for o in profile.ops:
        if top is not None and not top(o):
            continue
        n = len(o.args)
        if depth <= 1:
            lists = [allp.get(s) for s in o.args]
            if any(not l for l in lists):
                continue
            for tup in product(*lists):
                yield o, tup
            continue
        kmax = n if max_new is None else min(n, max_new)
        for k in range(1, kmax + 1):
            for pos in combinations(range(n), k):
                lists = [(newp if i in pos else oldp).get(s) for i, s in enumerate(o.args)]
                if any(not l for l in lists):
                    continue
                for tup in product(*lists):
                    yield o, tup


def run_shard(args):
    pi, idx, nshards, seed = args
    part, make = _PARTS[pi], _MAKE[0]
    res = Result()
    env = Environment()
    push_env(env)
    try:
        profile = part["profile"](env)
        depth = part["depth"]
        check = make(env, profile, res, part)
        lv = _levels_below(profile, max(depth - 1, 0), part.get("mid_ops"))
        seen = set()
        counter = 0
        for L in lv:
            for s in sorted(L, key=repr):
                for n in L[s]:
                    seen.add(n)
                    if (counter + seed) % nshards == idx:
                        res.count("evaluations")
                        check(n)
                    counter += 1
        if depth >= 1:
            m = profile.m
            for o, tup in applications(profile, lv, depth, part.get("top_ops"), part.get("max_new")):
                counter += 1
                if (counter + seed) % nshards != idx:
                    continue
                try:
                    n = o.build(m, *tup)
                except Exception:
                    res.count("constructor_refused")
                    continue
                if n in seen:
                    res.count("duplicates")
                    continue
                seen.add(n)
                res.count("evaluations")
                check(n)
    finally:
        pop_env()
    return res


def sweep(ctx, parts, make):
    shards = []
    del _PARTS[:]
    _PARTS.extend(parts)
    _MAKE[0] = make
    for pi, part in enumerate(parts):
        if getattr(ctx, "parts", None) and part["name"] not in ctx.parts:
            continue
        n = part.get("shards", 16)
        for i in range(n):
            shards.append((pi, i, n, ctx.seed))
    ctx.rng.shuffle(shards)
    ctx.pmap(run_shard, shards)
