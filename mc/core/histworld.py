"""A small universe of formulas sharing sub-DAGs, an alphabet of API events over it and a probe
set, shared by the history checks C14 (independence of earlier use) and C15 (a failing call
leaves no trace).  Results are canonicalised up to the order of commutative arguments and
the names of fresh symbols.
"""
import re
from fractions import Fraction
from io import StringIO
import pysmt.operators as op
from pysmt.environment import Environment, push_env, pop_env
from .termio import BOOL, INT, REAL, mk_type, sort_of, sort_str

UNIVERSE_SYMS = {"a": BOOL, "b": BOOL, "x": INT, "y": INT, "r": REAL, "u": ("BV", 2),
                 "f": ("Fun", INT, (INT,)), "st": "String", "A": ("Array", INT, INT),
                 # a user symbol whose name looks like the library's fresh names
                 "FV1": BOOL, "@a": INT, "@b": INT, "pq": ("Fun", BOOL, (INT, BOOL))}
FRESH_RE = re.compile(r"^(FV|ack|__x|\.def_|_assertion_|x!)(\d+)$")

COMMUTATIVE = {op.AND, op.OR, op.PLUS, op.TIMES, op.IFF, op.EQUALS, op.BV_AND, op.BV_OR, op.BV_XOR,
               op.BV_ADD, op.BV_MUL, op.BV_COMP}


def _formula_table():
    """(name, builder(m, S, F)) in creation order; S and F are mappings name -> FNode"""
    T = []

    def add(name, fn):
        T.append((name, fn))
    add("F1", lambda m, S, F: m.And(S["a"], m.Or(S["b"], m.Not(S["a"]))))
    add("F2", lambda m, S, F: m.Implies(S["a"], m.LE(S["x"], S["y"])))
    add("F3", lambda m, S, F: m.Equals(m.Plus(S["x"], m.Int(1)), m.Times(m.Int(2), S["y"])))
    add("F4", lambda m, S, F: m.ForAll([S["x"]], m.Exists([S["y"]], m.LT(S["x"], S["y"]))))
    add("F5", lambda m, S, F: m.Iff(F["F1"], F["F2"]))
    add("F6", lambda m, S, F: m.Ite(S["a"], S["x"], m.Plus(S["x"], S["y"])))
    add("F7", lambda m, S, F: m.BVULT(S["u"], m.BVAdd(S["u"], m.BV(1, 2))))
    add("F8", lambda m, S, F: m.Equals(m.Function(S["f"], [S["x"]]), S["y"]))
    add("F9", lambda m, S, F: m.And(F["F3"], F["F2"], m.Not(F["F1"])))
    add("F10", lambda m, S, F: m.LE(m.ToReal(S["x"]), m.Plus(S["r"], m.Real(Fraction(1, 2)))))
    add("F11", lambda m, S, F: m.Equals(m.StrLength(S["st"]), S["x"]))
    add("F12", lambda m, S, F: m.StrContains(S["st"], m.String("a")))
    add("F13", lambda m, S, F: m.Equals(m.Select(m.Store(S["A"], S["x"], m.Int(1)), S["y"]), m.Select(S["A"], S["y"])))
    # the simplifier is not idempotent on F14: its result is (structurally) F15, which simplifies further
    add("F14", lambda m, S, F: m.Plus(m.Minus(m.Int(3), S["x"]), m.Plus(m.Int(1), m.Int(1))))
    add("F15", lambda m, S, F: m.Minus(m.Plus(m.Int(3), m.Int(2)), S["x"]))
    add("F16", lambda m, S, F: m.LE(F["F15"], S["y"]))
    add("F17", lambda m, S, F: m.Or(S["a"], m.And(S["FV1"], S["b"])))
    # a power over an Int-typed non-linear base, and another formula sharing that base (analyses that
    # memoise one result object per node must not let the result of the power touch the base's)
    add("F18", lambda m, S, F: m.Equals(m.Pow(m.Times(S["x"], S["y"]), m.Int(2)), S["r"]))
    add("F19", lambda m, S, F: m.Equals(m.Times(S["x"], S["y"]), m.Int(4)))
    # an equality between symbols whose names start with @ (the model-validation simplifier of the SMT-LIB
    # layer treats such symbols as distinct values; the ordinary simplifier must not)
    add("F20", lambda m, S, F: m.Or(m.Equals(S["@a"], S["@b"]), S["a"]))
    # a connective with a quantified argument (rewriters that collect the variables of such arguments must not
    # write into the analyses' memoised answers)
    add("F21", lambda m, S, F: m.And(S["a"], m.Exists([S["y"]], m.LT(S["x"], S["y"]))))
    # a predicate over a theory term and a purely Boolean term (F6 shares the theory term): analyses that combine the
    # answers for the arguments must not write into one of them
    add("F22", lambda m, S, F: m.Function(S["pq"], [m.Plus(S["x"], S["y"]), m.And(S["a"], S["b"])]))
    return T


FORMULA_TABLE = _formula_table()
# further formulas that only the construction-order part builds (products with negative / fractional
# coefficients, whose normal form must not depend on whether the constant existed before the symbols)
ORDER_TABLE = [
    ("G1", lambda m, S, F: m.Equals(m.Plus(S["x"], m.Times(S["y"], m.Int(-3))), m.Int(0))),
    ("G2", lambda m, S, F: m.LT(m.Times(S["r"], m.Real(Fraction(-1, 2))), m.Plus(S["r"], m.Real(2)))),
    ("G3", lambda m, S, F: m.LE(m.Minus(S["x"], m.Times(m.Int(2), S["y"])), m.Times(m.Int(-1), S["x"], S["y"]))),
    ("G4", lambda m, S, F: m.Equals(m.BVMul(S["u"], m.BV(3, 2)), m.BVAdd(m.BV(3, 2), S["u"]))),
    ("G5", lambda m, S, F: m.And(m.LE(m.Int(-3), S["y"]), m.Or(S["b"], S["a"]), m.Iff(S["b"], S["a"]))),
]


def build_universe(env):
    """name -> FNode (in creation order); every environment builds the same structures"""
    m = env.formula_manager
    S = {n: m.Symbol(n, mk_type(env, s)) for n, s in UNIVERSE_SYMS.items()}
    F = {}
    for name, fn in FORMULA_TABLE:
        F[name] = fn(m, S, F)
    return S, F


class _LazySyms(dict):
    def __init__(self, env):
        dict.__init__(self)
        self.env = env

    def __missing__(self, n):
        v = self.env.formula_manager.Symbol(n, mk_type(self.env, UNIVERSE_SYMS[n]))
        self[n] = v
        return v


class _LazyFormulas(dict):
    def __init__(self, env, S):
        dict.__init__(self)
        self.env, self.S = env, S
        self.table = dict(FORMULA_TABLE + ORDER_TABLE)

    def __missing__(self, n):
        v = self.table[n](self.env.formula_manager, self.S, self)
        self[n] = v
        return v


SUBST_MAPS = {
    "x:=y+1": lambda m, S: {S["x"]: m.Plus(S["y"], m.Int(1))},
    "a:=b": lambda m, S: {S["a"]: S["b"]},
    "x:=0,y:=x": lambda m, S: {S["x"]: m.Int(0), S["y"]: S["x"]},
    # a map with four entries (walkers that switch to another code path for larger maps)
    "4keys": lambda m, S: {S["x"]: m.Plus(S["y"], m.Int(2)), S["a"]: S["b"], S["r"]: m.Real(Fraction(1, 2)),
                           S["u"]: m.BV(1, 2)},
}
PARSE_TEXTS = {
    "t1": "(declare-fun a () Bool)(declare-fun x () Int)(assert (and a (< x 3)))",
    "t2": "(declare-fun x () Int)(declare-fun y () Int)(assert (let ((z (+ x 1))) (= z (* 2 y))))",
}
CONST_SPELLINGS = {
    "Int(1)": lambda m: m.Int(1), "Int(1.0)": lambda m: m.Int(1.0), "Int(True)": lambda m: m.Int(True),
    "Int(Fraction(1))": lambda m: m.Int(Fraction(1)),
    "Int(7)": lambda m: m.Int(7), "Int(7.0)": lambda m: m.Int(7.0), "Int(Fraction(7))": lambda m: m.Int(Fraction(7)),
    "Real(7)": lambda m: m.Real(7), "Real(Fraction(7))": lambda m: m.Real(Fraction(7)),
    "Real((14,2))": lambda m: m.Real((14, 2)),
    "Real(1)": lambda m: m.Real(1), "Real(1.0)": lambda m: m.Real(1.0), "Real(True)": lambda m: m.Real(True),
    "Real(0.5)": lambda m: m.Real(0.5), "Real((1,2))": lambda m: m.Real((1, 2)),
    "Real(Fraction(1,2))": lambda m: m.Real(Fraction(1, 2)), "Real('1')": lambda m: m.Real("1"),
    "String('a')": lambda m: m.String("a"), "BV(1,2)": lambda m: m.BV(1, 2),
}
# constants that the construction-order part creates ahead of the symbols
ORDER_CONSTS = {
    "Int(-3)": lambda m: m.Int(-3), "Int(-1)": lambda m: m.Int(-1), "Int(2)": lambda m: m.Int(2),
    "Real(-1/2)": lambda m: m.Real(Fraction(-1, 2)), "Real(2)": lambda m: m.Real(2), "BV(3,2)": lambda m: m.BV(3, 2),
    "Int(0)": lambda m: m.Int(0), "TRUE": lambda m: m.TRUE(),
}
MEASURES = (0, 1, 2, 3, 4, 5)


class World(object):
    def __init__(self, env=None, lazy=False):
        """lazy: nothing exists until an event mentions it (symbols and formulas are created on first use), so
        the creation order of the nodes is part of the history"""
        self.env = env or Environment()
        self.m = self.env.formula_manager
        self.lazy = lazy
        if lazy:
            self.S = _LazySyms(self.env)
            self.F = _LazyFormulas(self.env, self.S)
        else:
            self.S, self.F = build_universe(self.env)

    # ---- one API call, described by a JSON-able tuple -----------------------------------
    def call(self, ev):
        """executes the event; returns the raw result (or raises)"""
        from pysmt.rewritings import nnf, cnf, prenex_normal_form, aig
        from pysmt.oracles import get_logic
        from pysmt.smtlib.printers import to_smtlib
        env, m, F, S = self.env, self.m, self.F, self.S
        k = ev[0]
        if k == "build":
            if self.lazy:
                return F[ev[1]]
            # re-building goes through create_node (and its type check) again
            return build_universe(env)[1][ev[1]]
        if k == "const":
            return (CONST_SPELLINGS.get(ev[1]) or ORDER_CONSTS[ev[1]])(m)
        if k == "fresh":
            return m.FreshSymbol(mk_type(env, BOOL))
        if k == "parse":
            from pysmt.smtlib.parser import SmtLibParser
            return SmtLibParser(env).get_script(StringIO(PARSE_TEXTS[ev[1]])).get_last_formula(m)
        f = F[ev[1]]
        if k == "get_type":
            return env.stc.get_type(f)
        if k == "simplify":
            return env.simplifier.simplify(f)
        if k == "mvsimplify":
            from pysmt.smtlib.utils import SmtLibModelValidationSimplifier
            return SmtLibModelValidationSimplifier(env).simplify(f)
        if k == "subst":
            return env.substituter.substitute(f, SUBST_MAPS[ev[2]](m, S))
        if k == "fv":
            return env.fvo.get_free_variables(f)
        if k == "atoms":
            return env.ao.get_atoms(f)
        if k == "is_qf":
            return env.qfo.is_qf(f)
        if k == "types":
            return env.typeso.get_types(f)
        if k == "logic":
            return get_logic(f, env)
        if k == "theory":
            return env.theoryo.get_theory(f)
        if k == "theory_mutate":
            t = env.theoryo.get_theory(f)
            t.strings = True
            t.arrays = True
            t.bit_vectors = not t.bit_vectors
            return None
        if k == "size":
            return env.sizeo.get_size(f, ev[2])
        if k == "serialize":
            return env.serializer.serialize(f)
        if k == "smtlib":
            return to_smtlib(f, daggify=ev[2])
        if k == "nnf":
            return nnf(f, env)
        if k == "cnf":
            return cnf(f, env)
        if k == "prenex":
            return prenex_normal_form(f, env)
        if k == "aig":
            return aig(f, env)
        raise ValueError(ev)

    def observe(self, ev):
        """canonical, comparable form of the outcome of an event"""
        try:
            r = self.call(ev)
        except Exception as e:
            return ("exc", type(e).__name__)
        _USER[0] = set(dict.keys(self.S)) if self.lazy else UNIVERSE_SYMS
        try:
            return canon(r)
        finally:
            _USER[0] = UNIVERSE_SYMS

    def same_object_twice(self, ev):
        """for calls that introduce no fresh symbol: repeating returns the very same object"""
        try:
            r1 = self.call(ev)
            r2 = self.call(ev)
        except Exception:
            return True
        if hasattr(r1, "node_type") and hasattr(r2, "node_type"):
            _USER[0] = set(dict.keys(self.S)) if self.lazy else UNIVERSE_SYMS
            try:
                if has_fresh(r1):
                    return True
            finally:
                _USER[0] = UNIVERSE_SYMS
            return r1 is r2
        return True


# names that denote user symbols in the world being observed (a lazy world only knows the symbols created so far)
_USER = [UNIVERSE_SYMS]


def has_fresh(f):
    stack, seen = [f], set()
    while stack:
        n = stack.pop()
        if n in seen:
            continue
        seen.add(n)
        if n.is_symbol() and n.symbol_name() not in _USER[0]:
            return True
        stack.extend(n.args())
    return False


def canon(r):
    if r is None or isinstance(r, (bool, int, str, Fraction)):
        if isinstance(r, str):
            return ("str", _norm_fresh_text(r))
        return ("val", r)
    if hasattr(r, "node_type"):
        return ("term", ackey(r))
    if isinstance(r, (set, frozenset)):
        return ("set", tuple(sorted(repr(canon(x)) for x in r)))
    if isinstance(r, (list, tuple)):
        return ("seq", tuple(canon(x) for x in r))
    if hasattr(r, "is_bool_type"):
        return ("type", sort_str(sort_of(r)))
    if hasattr(r, "theory") and hasattr(r, "name"):     # Logic
        return ("logic", str(r.name), _theory_key(r.theory), bool(r.quantifier_free))
    if hasattr(r, "integer_arithmetic"):               # Theory
        return ("theory", _theory_key(r))
    return ("repr", repr(r))


def _theory_key(t):
    return tuple((k, v) for k, v in sorted(vars(t).items()))


def _norm_fresh_text(s):
    names = [m_ for m_ in re.findall(r"(?:FV|ack|__x)\d+", s) if m_ not in _USER[0]]
    nums = sorted(set(int(re.search(r"\d+", x).group()) for x in names))
    ren = {n: i for i, n in enumerate(nums)}
    return re.sub(r"(FV|ack|__x)(\d+)", lambda mo: mo.group(0) if mo.group(0) in _USER[0]
                  else "%s#%d" % (mo.group(1), ren[int(mo.group(2))]), s)


def ackey(f):
    """AC-canonical structural key with fresh symbols renamed in the order of their numbers"""
    fresh = {}
    stack, seen = [f], set()
    while stack:
        n = stack.pop()
        if n in seen:
            continue
        seen.add(n)
        if n.is_symbol():
            mo = FRESH_RE.match(n.symbol_name())
            if mo and n.symbol_name() not in _USER[0]:
                fresh[n.symbol_name()] = (mo.group(1), int(mo.group(2)))
        if n.is_quantifier():
            for v in n.quantifier_vars():
                mo = FRESH_RE.match(v.symbol_name())
                if mo and v.symbol_name() not in _USER[0]:
                    fresh[v.symbol_name()] = (mo.group(1), int(mo.group(2)))
        if n.is_function_application():
            stack.append(n.function_name())
        stack.extend(n.args())
    order = {nm: "%s#%d" % (pf, i) for i, (nm, (pf, k)) in
             enumerate(sorted(fresh.items(), key=lambda kv: (kv[1][0], kv[1][1])))}

    def symname(s):
        return order.get(s.symbol_name(), s.symbol_name())
    memo = {}
    stack = [(f, False)]
    while stack:
        n, done = stack.pop()
        if n in memo:
            continue
        if not done:
            stack.append((n, True))
            for c in n.args():
                if c not in memo:
                    stack.append((c, False))
            continue
        t = n.node_type()
        kids = [memo[c] for c in n.args()]
        if t in COMMUTATIVE:
            kids = sorted(kids)
        if t == op.SYMBOL:
            key = "sym(%s:%s)" % (symname(n), sort_str(sort_of(n.symbol_type())))
        elif t in op.CONSTANTS:
            key = "const(%s:%s)" % (n.constant_value(), t)
        elif t in (op.FORALL, op.EXISTS):
            key = "%s[%s](%s)" % (op.op_to_str(t), ",".join(sorted(symname(v) for v in n.quantifier_vars())), kids[0])
        elif t == op.FUNCTION:
            key = "app(%s;%s)" % (symname(n.function_name()), ",".join(kids))
        elif t == op.ARRAY_VALUE:
            pairs = sorted((kids[i], kids[i + 1]) for i in range(1, len(kids), 2))
            key = "arr(%s;%s;%s)" % (sort_str(sort_of(n.array_value_index_type())), kids[0], pairs)
        else:
            payload = ""
            if t == op.BV_EXTRACT:
                payload = "[%d:%d]" % (n.bv_extract_start(), n.bv_extract_end())
            elif t in (op.BV_ROL, op.BV_ROR):
                payload = "[%d]" % n.bv_rotation_step()
            elif t in (op.BV_ZEXT, op.BV_SEXT):
                payload = "[%d]" % n.bv_extend_step()
            key = "%s%s(%s)" % (op.op_to_str(t), payload, ",".join(kids))
        memo[n] = key
    return memo[f]


# single events over further universe formulas (not the full per-formula alphabet)
EXTRA_EVENTS = (("logic", "F22"), ("theory", "F22"), ("types", "F22"), ("prenex", "F21"), ("nnf", "F21"), ("mvsimplify", "F20"), ("simplify", "F20"), ("simplify", "F14"), ("logic", "F18"), ("theory", "F18"), ("simplify", "F18"), ("types", "F18"),
                ("logic", "F19"))


def query_events(names, quick=True, extra=()):
    """the alphabet of non-failing events over the named universe formulas"""
    evs = [e for e in extra if e[1] not in names]
    for n in names:
        evs.append(("build", n))
        evs.append(("get_type", n))
        evs.append(("simplify", n))
        for mk in SUBST_MAPS:
            evs.append(("subst", n, mk))
        for k in ("fv", "atoms", "is_qf", "types", "logic", "theory", "theory_mutate", "serialize", "nnf", "cnf",
                  "prenex", "aig"):
            evs.append((k, n))
        for ms in MEASURES:
            evs.append(("size", n, ms))
        evs.append(("smtlib", n, True))
        evs.append(("smtlib", n, False))
    for c in CONST_SPELLINGS:
        evs.append(("const", c))
    evs.append(("fresh",))
    for t in PARSE_TEXTS:
        evs.append(("parse", t))
    return evs


def probe_events(names):
    """the probe set: every query and transformation on every universe formula (no mutation)"""
    return [e for e in query_events(names) if e[0] not in ("theory_mutate", "build")]
