"""A small universe of formulas sharing sub-DAGs, an alphabet of API events over it and a probe
set, shared by the history checks C14 (independence of earlier use) and C15 (a failing call
leaves no trace).  Results are canonicalised up to the order of commutative arguments and
the names of fresh symbols.
"""
import re
from fractions import Fraction
from io import StringIO
import pysmt.operators as op
from pysmt.environment import Environment, push_env, pop_env
from .termio import BOOL, INT, REAL, mk_type, sort_of, sort_str

UNIVERSE_SYMS = {"a": BOOL, "b": BOOL, "x": INT, "y": INT, "r": REAL, "u": ("BV", 2),
                 "f": ("Fun", INT, (INT,)), "st": "String", "A": ("Array", INT, INT),
                 # a user symbol whose name looks like the library's fresh names
                 "FV1": BOOL, "@a": INT, "@b": INT}
FRESH_RE = re.compile(r"^(FV|ack|__x|\.def_|_assertion_|x!)(\d+)$")

COMMUTATIVE = {op.AND, op.OR, op.PLUS, op.TIMES, op.IFF, op.EQUALS, op.BV_AND, op.BV_OR, op.BV_XOR,
               op.BV_ADD, op.BV_MUL, op.BV_COMP}


def build_universe(env):
    """name -> FNode (in creation order); every environment builds the same structures"""
    m = env.formula_manager
    S = {n: m.Symbol(n, mk_type(env, s)) for n, s in UNIVERSE_SYMS.items()}
    a, b, x, y, r, u, f = (S[n] for n in ("a", "b", "x", "y", "r", "u", "f"))
    F = {}
    F["F1"] = m.And(a, m.Or(b, m.Not(a)))
    F["F2"] = m.Implies(a, m.LE(x, y))
    F["F3"] = m.Equals(m.Plus(x, m.Int(1)), m.Times(m.Int(2), y))
    F["F4"] = m.ForAll([x], m.Exists([y], m.LT(x, y)))
    F["F5"] = m.Iff(F["F1"], F["F2"])
    F["F6"] = m.Ite(a, x, m.Plus(x, y))
    F["F7"] = m.BVULT(u, m.BVAdd(u, m.BV(1, 2)))
    F["F8"] = m.Equals(m.Function(f, [x]), y)
    F["F9"] = m.And(F["F3"], F["F2"], m.Not(F["F1"]))
    F["F10"] = m.LE(m.ToReal(x), m.Plus(r, m.Real(Fraction(1, 2))))
    st, A = S["st"], S["A"]
    F["F11"] = m.Equals(m.StrLength(st), x)
    F["F12"] = m.StrContains(st, m.String("a"))
    F["F13"] = m.Equals(m.Select(m.Store(A, x, m.Int(1)), y), m.Select(A, y))
    # the simplifier is not idempotent on F14: its result is (structurally) F15, which simplifies further
    F["F14"] = m.Plus(m.Minus(m.Int(3), x), m.Plus(m.Int(1), m.Int(1)))
    F["F15"] = m.Minus(m.Plus(m.Int(3), m.Int(2)), x)
    F["F16"] = m.LE(F["F15"], y)
    F["F17"] = m.Or(a, m.And(S["FV1"], b))
    # a power over an Int-typed non-linear base, and another formula sharing that base (analyses that
    # memoise one result object per node must not let the result of the power touch the base's)
    xy = m.Times(x, y)
    F["F18"] = m.Equals(m.Pow(xy, m.Int(2)), r)
    F["F19"] = m.Equals(xy, m.Int(4))
    # an equality between symbols whose names start with @ (the model-validation simplifier of the SMT-LIB
    # layer treats such symbols as distinct values; the ordinary simplifier must not)
    F["F20"] = m.Or(m.Equals(S["@a"], S["@b"]), a)
    return S, F


SUBST_MAPS = {
    "x:=y+1": lambda m, S: {S["x"]: m.Plus(S["y"], m.Int(1))},
    "a:=b": lambda m, S: {S["a"]: S["b"]},
    "x:=0,y:=x": lambda m, S: {S["x"]: m.Int(0), S["y"]: S["x"]},
}
PARSE_TEXTS = {
    "t1": "(declare-fun a () Bool)(declare-fun x () Int)(assert (and a (< x 3)))",
    "t2": "(declare-fun x () Int)(declare-fun y () Int)(assert (let ((z (+ x 1))) (= z (* 2 y))))",
}
CONST_SPELLINGS = {
    "Int(1)": lambda m: m.Int(1), "Int(1.0)": lambda m: m.Int(1.0), "Int(True)": lambda m: m.Int(True),
    "Int(Fraction(1))": lambda m: m.Int(Fraction(1)),
    "Int(7)": lambda m: m.Int(7), "Int(7.0)": lambda m: m.Int(7.0), "Int(Fraction(7))": lambda m: m.Int(Fraction(7)),
    "Real(7)": lambda m: m.Real(7), "Real(Fraction(7))": lambda m: m.Real(Fraction(7)),
    "Real((14,2))": lambda m: m.Real((14, 2)),
    "Real(1)": lambda m: m.Real(1), "Real(1.0)": lambda m: m.Real(1.0), "Real(True)": lambda m: m.Real(True),
    "Real(0.5)": lambda m: m.Real(0.5), "Real((1,2))": lambda m: m.Real((1, 2)),
    "Real(Fraction(1,2))": lambda m: m.Real(Fraction(1, 2)), "Real('1')": lambda m: m.Real("1"),
    "String('a')": lambda m: m.String("a"), "BV(1,2)": lambda m: m.BV(1, 2),
}
MEASURES = (0, 1, 2, 3, 4, 5)


class World(object):
    def __init__(self, env=None):
        self.env = env or Environment()
        self.m = self.env.formula_manager
        self.S, self.F = build_universe(self.env)

    # ---- one API call, described by a JSON-able tuple -----------------------------------
    def call(self, ev):
        """executes the event; returns the raw result (or raises)"""
        from pysmt.rewritings import nnf, cnf, prenex_normal_form, aig
        from pysmt.oracles import get_logic
        from pysmt.smtlib.printers import to_smtlib
        env, m, F, S = self.env, self.m, self.F, self.S
        k = ev[0]
        if k == "build":
            # re-building goes through create_node (and its type check) again
            return build_universe(env)[1][ev[1]]
        if k == "const":
            return CONST_SPELLINGS[ev[1]](m)
        if k == "fresh":
            return m.FreshSymbol(mk_type(env, BOOL))
        if k == "parse":
            from pysmt.smtlib.parser import SmtLibParser
            return SmtLibParser(env).get_script(StringIO(PARSE_TEXTS[ev[1]])).get_last_formula(m)
        f = F[ev[1]]
        if k == "get_type":
            return env.stc.get_type(f)
        if k == "simplify":
            return env.simplifier.simplify(f)
        if k == "mvsimplify":
            from pysmt.smtlib.utils import SmtLibModelValidationSimplifier
            return SmtLibModelValidationSimplifier(env).simplify(f)
        if k == "subst":
            return env.substituter.substitute(f, SUBST_MAPS[ev[2]](m, S))
        if k == "fv":
            return env.fvo.get_free_variables(f)
        if k == "atoms":
            return env.ao.get_atoms(f)
        if k == "is_qf":
            return env.qfo.is_qf(f)
        if k == "types":
            return env.typeso.get_types(f)
        if k == "logic":
            return get_logic(f, env)
        if k == "theory":
            return env.theoryo.get_theory(f)
        if k == "theory_mutate":
            t = env.theoryo.get_theory(f)
            t.strings = True
            t.arrays = True
            t.bit_vectors = not t.bit_vectors
            return None
        if k == "size":
            return env.sizeo.get_size(f, ev[2])
        if k == "serialize":
            return env.serializer.serialize(f)
        if k == "smtlib":
            return to_smtlib(f, daggify=ev[2])
        if k == "nnf":
            return nnf(f, env)
        if k == "cnf":
            return cnf(f, env)
        if k == "prenex":
            return prenex_normal_form(f, env)
        if k == "aig":
            return aig(f, env)
        raise ValueError(ev)

    def observe(self, ev):
        """canonical, comparable form of the outcome of an event"""
        try:
            r = self.call(ev)
        except Exception as e:
            return ("exc", type(e).__name__)
        return canon(r)

    def same_object_twice(self, ev):
        """for calls that introduce no fresh symbol: repeating returns the very same object"""
        try:
            r1 = self.call(ev)
            r2 = self.call(ev)
        except Exception:
            return True
        if hasattr(r1, "node_type") and hasattr(r2, "node_type"):
            if has_fresh(r1):
                return True
            return r1 is r2
        return True


def has_fresh(f):
    stack, seen = [f], set()
    while stack:
        n = stack.pop()
        if n in seen:
            continue
        seen.add(n)
        if n.is_symbol() and n.symbol_name() not in UNIVERSE_SYMS:
            return True
        stack.extend(n.args())
    return False


def canon(r):
    if r is None or isinstance(r, (bool, int, str, Fraction)):
        if isinstance(r, str):
            return ("str", _norm_fresh_text(r))
        return ("val", r)
    if hasattr(r, "node_type"):
        return ("term", ackey(r))
    if isinstance(r, (set, frozenset)):
        return ("set", tuple(sorted(repr(canon(x)) for x in r)))
    if isinstance(r, (list, tuple)):
        return ("seq", tuple(canon(x) for x in r))
    if hasattr(r, "is_bool_type"):
        return ("type", sort_str(sort_of(r)))
    if hasattr(r, "theory") and hasattr(r, "name"):     # Logic
        return ("logic", str(r.name), _theory_key(r.theory), bool(r.quantifier_free))
    if hasattr(r, "integer_arithmetic"):               # Theory
        return ("theory", _theory_key(r))
    return ("repr", repr(r))


def _theory_key(t):
    return tuple((k, v) for k, v in sorted(vars(t).items()))


def _norm_fresh_text(s):
    names = [m_ for m_ in re.findall(r"(?:FV|ack|__x)\d+", s) if m_ not in UNIVERSE_SYMS]
    nums = sorted(set(int(re.search(r"\d+", x).group()) for x in names))
    ren = {n: i for i, n in enumerate(nums)}
    return re.sub(r"(FV|ack|__x)(\d+)", lambda mo: mo.group(0) if mo.group(0) in UNIVERSE_SYMS
                  else "%s#%d" % (mo.group(1), ren[int(mo.group(2))]), s)


def ackey(f):
    """AC-canonical structural key with fresh symbols renamed in the order of their numbers"""
    fresh = {}
    stack, seen = [f], set()
    while stack:
        n = stack.pop()
        if n in seen:
            continue
        seen.add(n)
        if n.is_symbol():
            mo = FRESH_RE.match(n.symbol_name())
            if mo and n.symbol_name() not in UNIVERSE_SYMS:
                fresh[n.symbol_name()] = (mo.group(1), int(mo.group(2)))
        if n.is_quantifier():
            for v in n.quantifier_vars():
                mo = FRESH_RE.match(v.symbol_name())
                if mo and v.symbol_name() not in UNIVERSE_SYMS:
                    fresh[v.symbol_name()] = (mo.group(1), int(mo.group(2)))
        if n.is_function_application():
            stack.append(n.function_name())
        stack.extend(n.args())
    order = {nm: "%s#%d" % (pf, i) for i, (nm, (pf, k)) in
             enumerate(sorted(fresh.items(), key=lambda kv: (kv[1][0], kv[1][1])))}

    def symname(s):
        return order.get(s.symbol_name(), s.symbol_name())
    memo = {}
    stack = [(f, False)]
    while stack:
        n, done = stack.pop()
        if n in memo:
            continue
        if not done:
            stack.append((n, True))
            for c in n.args():
                if c not in memo:
                    stack.append((c, False))
            continue
        t = n.node_type()
        kids = [memo[c] for c in n.args()]
        if t in COMMUTATIVE:
            kids = sorted(kids)
        if t == op.SYMBOL:
            key = "sym(%s:%s)" % (symname(n), sort_str(sort_of(n.symbol_type())))
        elif t in op.CONSTANTS:
            key = "const(%s:%s)" % (n.constant_value(), t)
        elif t in (op.FORALL, op.EXISTS):
            key = "%s[%s](%s)" % (op.op_to_str(t), ",".join(sorted(symname(v) for v in n.quantifier_vars())), kids[0])
        elif t == op.FUNCTION:
            key = "app(%s;%s)" % (symname(n.function_name()), ",".join(kids))
        elif t == op.ARRAY_VALUE:
            pairs = sorted((kids[i], kids[i + 1]) for i in range(1, len(kids), 2))
            key = "arr(%s;%s;%s)" % (sort_str(sort_of(n.array_value_index_type())), kids[0], pairs)
        else:
            payload = ""
            if t == op.BV_EXTRACT:
                payload = "[%d:%d]" % (n.bv_extract_start(), n.bv_extract_end())
            elif t in (op.BV_ROL, op.BV_ROR):
                payload = "[%d]" % n.bv_rotation_step()
            elif t in (op.BV_ZEXT, op.BV_SEXT):
                payload = "[%d]" % n.bv_extend_step()
            key = "%s%s(%s)" % (op.op_to_str(t), payload, ",".join(kids))
        memo[n] = key
    return memo[f]


# single events over further universe formulas (not the full per-formula alphabet)
EXTRA_EVENTS = (("mvsimplify", "F20"), ("simplify", "F20"), ("simplify", "F14"), ("logic", "F18"), ("theory", "F18"), ("simplify", "F18"), ("types", "F18"),
                ("logic", "F19"))


def query_events(names, quick=True, extra=()):
    """the alphabet of non-failing events over the named universe formulas"""
    evs = [e for e in extra if e[1] not in names]
    for n in names:
        evs.append(("build", n))
        evs.append(("get_type", n))
        evs.append(("simplify", n))
        for mk in SUBST_MAPS:
            evs.append(("subst", n, mk))
        for k in ("fv", "atoms", "is_qf", "types", "logic", "theory", "theory_mutate", "serialize", "nnf", "cnf",
                  "prenex", "aig"):
            evs.append((k, n))
        for ms in MEASURES:
            evs.append(("size", n, ms))
        evs.append(("smtlib", n, True))
        evs.append(("smtlib", n, False))
    for c in CONST_SPELLINGS:
        evs.append(("const", c))
    evs.append(("fresh",))
    for t in PARSE_TEXTS:
        evs.append(("parse", t))
    return evs


def probe_events(names):
    """the probe set: every query and transformation on every universe formula (no mutation)"""
    return [e for e in query_events(names) if e[0] not in ("theory_mutate", "build")]
