"""Reference solvers used as harness components (not pySMT code under test).

NativeStack : a strict little "solver core": assertion levels, push/pop (pop beyond depth
              raises like a real solver), check by brute-force enumeration with refsem.
BruteSolver : an IncrementalTrackingSolver that drives NativeStack exactly the way the
              concrete pySMT solvers (e.g. Z3Solver) drive their native solver: the proxy
              methods carry @clear_pending_pop, non-literal assumptions are realised as
              push + assert + pending pop.
"""
from itertools import product
from pysmt.solvers.solver import IncrementalTrackingSolver, Model
from pysmt.solvers.eager import EagerModel
from pysmt.solvers.options import SolverOptions
from pysmt.decorators import clear_pending_pop
from pysmt.exceptions import SolverReturnedUnknownResultError, InternalSolverError
from pysmt.logics import PYSMT_LOGICS
from .refsem import compile_term, free_symbols, value_to_const, Unconstrained
from .termgen import sort_values


class NativeError(Exception):
    pass


class NativeStack(object):
    """strict assertion stack with brute-force satisfiability"""

    def __init__(self, dom=None):
        self.levels = [[]]
        self.dom = dom
        self.cmemo = {}
        self.model = None
        self.checks = 0
        self.model_order = "first"     # or "last": the model kept is the last one in product order

    def push(self):
        self.levels.append([])

    def pop(self):
        if len(self.levels) <= 1:
            raise NativeError("pop beyond the bottom of the assertion stack")
        self.levels.pop()
        self.model = None

    def reset(self):
        self.levels = [[]]
        self.model = None

    def add(self, f):
        self.levels[-1].append(f)
        self.model = None

    def live(self):
        return [f for l in self.levels for f in l]

    def depth(self):
        return len(self.levels) - 1

    def check(self, extra=()):
        """True/False; stores a model (dict name->(sort,value)) when satisfiable.
        Enumeration order is deterministic: the first model in product order is kept (model_order
        'last': the pools are walked downwards, so the last one is)."""
        self.checks += 1
        fs = self.live() + list(extra)
        syms = {}
        fns = []
        for f in fs:
            syms.update(free_symbols(f))
            fns.append(compile_term(f, self.cmemo)[1])
        names = sorted(syms)
        pools = [sort_values(syms[n], self.dom) for n in names]
        if self.model_order == "last":
            pools = [tuple(reversed(tuple(p))) for p in pools]
        for vals in product(*pools):
            I = dict(zip(names, vals))
            ok = True
            for g in fns:
                try:
                    if not g(I):
                        ok = False
                        break
                except Unconstrained:
                    ok = False
                    break
            if ok:
                self.model = {n: (syms[n], I[n]) for n in names}
                return True
        self.model = None
        return False


class BruteOptions(SolverOptions):
    def __call__(self, solver):
        pass


class BruteSolver(IncrementalTrackingSolver):
    LOGICS = PYSMT_LOGICS
    OptionsClass = BruteOptions

    def __init__(self, environment, logic=None, dom=None, unknown_on=(), raise_on=(), **options):
        from pysmt.logics import QF_BOOL
        IncrementalTrackingSolver.__init__(self, environment=environment,
                                           logic=logic if logic is not None else QF_BOOL, **options)
        self.mgr = environment.formula_manager
        self.native = NativeStack(dom)
        self.unknown_on = set(unknown_on)   # formulas whose presence makes check answer unknown
        self.raise_on = set(raise_on)       # formulas that the solver refuses to assert
        self.log = []                       # native calls, for histories

    @clear_pending_pop
    def _reset_assertions(self):
        self.log.append("reset")
        self.native.reset()

    @clear_pending_pop
    def _add_assertion(self, formula, named=None):
        self._assert_is_boolean(formula)
        if formula in self.raise_on:
            raise InternalSolverError("the solver refuses %s" % formula)
        self.log.append("assert")
        self.native.add(formula)
        return formula

    @clear_pending_pop
    def _solve(self, assumptions=None):
        extra = []
        if assumptions is not None:
            other = []
            for x in assumptions:
                if x.is_literal():
                    extra.append(x)
                else:
                    other.append(x)
            if other:
                self.push()
                self.add_assertion(self.mgr.And(other))
                self.pending_pop = True
        self.log.append("check")
        if any(f in self.unknown_on for f in self.native.live() + extra):
            raise SolverReturnedUnknownResultError()
        return self.native.check(extra)

    @clear_pending_pop
    def _push(self, levels=1):
        for _ in range(levels):
            self.log.append("push")
            self.native.push()

    @clear_pending_pop
    def _pop(self, levels=1):
        for _ in range(levels):
            self.log.append("pop")
            self.native.pop()

    def get_model(self):
        if self.native.model is None:
            raise InternalSolverError("no model available")
        assign = {}
        for n, (s, v) in self.native.model.items():
            if isinstance(s, tuple) and s[0] == "Fun":
                continue
            assign[self.mgr.get_symbol(n)] = value_to_const(self.environment, s, v)
        return EagerModel(assignment=assign, environment=self.environment)

    def get_value(self, item):
        self._assert_no_function_type(item)
        return self.get_model().get_value(item)

    def _exit(self):
        pass
