"""Work monitor for C20: counts, from outside, what pySMT does per distinct node.

Nothing in /repo is edited.  install() rebinds, in this process only,

* Walker.__init__            -> every walker's `functions` table becomes a MonDict whose
                                 lookups return counting wrappers around the walk_* callbacks
                                 (this also covers set_function / dynamic walker functions and
                                 walkers that are created inside the operation under test);
* every definition of DagWalker._push_with_children_to_stack / _compute_node_result in the
  class tree below DagWalker  -> "machine steps" (one per outermost call and node);
* FormulaManager.create_node -> created / looked-up nodes;
* SmtLibParser.atom / get_expression -> parser term construction.

A *step budget* (never wall-clock) stops runaway work: every counted event and - while
`budget_calls` is active - every Python-level function call (sys.setprofile) is charged
against a limit; exceeding it raises BudgetExceeded inside the code under test.
"""
import sys


class BudgetExceeded(BaseException):
    """BaseException so that no `except Exception` in the code under test swallows it."""


class Monitor(object):
    def __init__(self):
        self.reset()
        self.limit_events = None
        self.limit_calls = None
        self.limit_str = None

    def reset(self):
        self.cb = 0              # walker callback invocations
        self.cb_by = {}          # walker class name -> invocations
        self.per_node = {}       # (walker, node) -> invocations (objects, so ids are never reused)
        self.cb_max = 0
        self.cb_max_at = None
        self.push = 0
        self.compute = 0
        self.create = 0          # create_node calls
        self.created = 0         # ... that made a new node
        self.atoms = 0
        self.getexpr = 0
        self.calls = 0           # python-level calls (only while profiling)
        self.jumps = 0           # backward jumps = loop iterations (only while profiling, sys.monitoring)
        self._active = []        # re-entrancy stack for push/compute overrides calling super

    # -- events ---------------------------------------------------------------------------
    def events(self):
        return self.cb + self.push + self.compute + self.create + self.atoms

    def _charge(self):
        if self.limit_events is not None and self.events() > self.limit_events:
            lim = self.limit_events
            self.limit_events = None        # raise once
            raise BudgetExceeded("more than %d monitored events" % lim)

    def on_callback(self, walker, formula):
        self.cb += 1
        n = type(walker).__name__
        self.cb_by[n] = self.cb_by.get(n, 0) + 1
        k = (_Ref(walker), formula)
        c = self.per_node.get(k, 0) + 1
        self.per_node[k] = c
        if c > self.cb_max:
            self.cb_max = c
            self.cb_max_at = (n, formula)
        self._charge()

    def snapshot(self):
        return {"cb": self.cb, "cb_max": self.cb_max, "push": self.push, "compute": self.compute,
                "create": self.create, "created": self.created, "atoms": self.atoms,
                "getexpr": self.getexpr, "calls": self.calls, "jumps": self.jumps, "by": dict(self.cb_by)}

    # -- python-call budget ---------------------------------------------------------------
    # sys.monitoring (3.12+, PY_START events: one per Python-level call) is about half as
    # expensive as sys.setprofile, which is the fallback
    _tool = None

    def start_calls(self, limit):
        self.limit_calls = limit
        mon = self
        sm = getattr(sys, "monitoring", None)
        if sm is not None:
            if Monitor._tool is None:
                for tid in (3, 4, 2):
                    try:
                        sm.use_tool_id(tid, "c20-workmon")
                    except ValueError:
                        continue
                    Monitor._tool = tid
                    break

                def on_start(code, offset):
                    m = MON
                    m.calls += 1
                    if m.limit_calls is not None and m.calls > m.limit_calls:
                        lim = m.limit_calls
                        m.limit_calls = None
                        raise BudgetExceeded("more than %d python-level calls" % lim)
                sm.register_callback(Monitor._tool, sm.events.PY_START, on_start)

                def on_jump(code, src, dst):
                    # a loop that calls nothing (a scan over the arguments of a node) is work too
                    if dst < src:
                        MON.jumps += 1
                sm.register_callback(Monitor._tool, sm.events.JUMP, on_jump)
            sm.set_events(Monitor._tool, sm.events.PY_START | sm.events.JUMP)
            return

        def prof(frame, event, arg):
            if event == "call":
                mon.calls += 1
                if mon.limit_calls is not None and mon.calls > mon.limit_calls:
                    lim = mon.limit_calls
                    mon.limit_calls = None
                    sys.setprofile(None)
                    raise BudgetExceeded("more than %d python-level calls" % lim)
        sys.setprofile(prof)

    def stop_calls(self):
        sm = getattr(sys, "monitoring", None)
        if sm is not None and Monitor._tool is not None:
            sm.set_events(Monitor._tool, 0)
        else:
            sys.setprofile(None)
        self.limit_calls = None


class _Ref(object):
    """identity key that keeps the walker alive (walkers may define __eq__/__hash__)"""
    __slots__ = ("o",)

    def __init__(self, o):
        self.o = o

    def __hash__(self):
        return id(self.o)

    def __eq__(self, other):
        return self.o is other.o


MON = Monitor()
_installed = False


class MonDict(dict):
    """walker.functions replacement: same content, lookups return counting wrappers"""

    def __init__(self, base, walker):
        dict.__init__(self, base)
        self._walker = walker
        self._wrapped = {}

    def __getitem__(self, k):
        f = dict.__getitem__(self, k)
        w = self._wrapped.get(k)
        if w is None or w[0] is not f:
            walker = self._walker

            def counted(formula, *a, **kw):
                MON.on_callback(walker, formula)
                r = f(formula, *a, **kw)
                # a callback result that is a huge string = tree-style text built bottom-up
                if type(r) is str and MON.limit_str is not None and len(r) > MON.limit_str:
                    raise BudgetExceeded("a %s callback returned a string of %d characters"
                                         % (type(walker).__name__, len(r)))
                return r
            w = (f, counted)
            self._wrapped[k] = w
        return w[1]


def _wrap_machine(cls, name, field):
    orig = cls.__dict__[name]

    def wrapper(self, formula, *a, **kw):
        act = MON._active
        key = (id(self), id(formula), name)
        outer = not act or act[-1] != key
        if outer:
            setattr(MON, field, getattr(MON, field) + 1)
            MON._charge()
        act.append(key)
        try:
            return orig(self, formula, *a, **kw)
        finally:
            act.pop()
    wrapper.__name__ = name
    wrapper._c20_wrapped = True
    setattr(cls, name, wrapper)


def _all_subclasses(c):
    out, todo = [], [c]
    while todo:
        x = todo.pop()
        out.append(x)
        todo.extend(x.__subclasses__())
    return out


def install():
    """idempotent; must be called before the Environment under test is created"""
    global _installed
    if _installed:
        return
    _installed = True
    # every module that defines a walker used by the operations of C20
    import pysmt.walkers.generic as generic
    import pysmt.walkers.dag as dag
    import pysmt.type_checker, pysmt.simplifier, pysmt.substituter, pysmt.oracles  # noqa: F401,E401
    import pysmt.rewritings, pysmt.printers, pysmt.smtlib.printers                # noqa: F401,E401
    import pysmt.smtlib.parser.parser as parser
    import pysmt.formula as formula

    winit = generic.Walker.__init__

    def init(self, *a, **kw):
        winit(self, *a, **kw)
        if not isinstance(self.functions, MonDict):
            self.functions = MonDict(self.functions, self)
    generic.Walker.__init__ = init

    for cls in _all_subclasses(dag.DagWalker):
        for name, field in (("_push_with_children_to_stack", "push"), ("_compute_node_result", "compute")):
            if name in cls.__dict__ and not getattr(cls.__dict__[name], "_c20_wrapped", False):
                _wrap_machine(cls, name, field)

    cn = formula.FormulaManager.create_node

    def create_node(self, *a, **kw):
        MON.create += 1
        before = self._next_free_id
        r = cn(self, *a, **kw)
        if self._next_free_id != before:
            MON.created += 1
        MON._charge()
        return r
    formula.FormulaManager.create_node = create_node

    P = parser.SmtLibParser
    atom = P.atom

    def atom_(self, *a, **kw):
        MON.atoms += 1
        MON._charge()
        return atom(self, *a, **kw)
    P.atom = atom_
    ge = P.get_expression

    def get_expression(self, *a, **kw):
        MON.getexpr += 1
        return ge(self, *a, **kw)
    P.get_expression = get_expression
