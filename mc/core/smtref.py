"""smtref - an independent, from-scratch reading of SMT-LIB 2.6 (oracle for C07/C08/C17).

Tokenizer, s-expression reader, command interpreter with assertion-stack and declaration
scoping, sort checker over the theory signatures and an evaluator producing refsem values.
It shares the value-level operator functions with refsem (validated separately) but none of
pySMT's name / argument-order / scoping tables.

Accepted deviations (fixed here so they cannot become false alarms):
  * str.to.int / int.to.str (pre-2.6 names) are aliases of str.to_int / str.from_int;
  * ((as const (Array I E)) v) is accepted (de-facto extension);
  * bv2nat / nat2bv as in the common solvers;
  * bit-vector and/or/add/mul/xor/concat and string concatenation accept n >= 2 arguments
    (left-associative), as the 2.6 theory revisions declare.
"""
from fractions import Fraction
from itertools import product
from . import refsem as R
from .refsem import ArrVal, FunVal, Unconstrained, QDOM
from .termio import BOOL, INT, REAL, STRING


class SmtError(Exception):
    """the text is not well-formed / well-sorted SMT-LIB"""


RESERVED = {"!", "_", "as", "BINARY", "DECIMAL", "exists", "HEXADECIMAL", "forall", "let", "match",
            "NUMERAL", "par", "STRING"}


# ---------------------------------------------------------------------------------------
# lexer / reader

class Sym(object):
    __slots__ = ("name", "quoted")

    def __init__(self, name, quoted=False):
        self.name = name
        self.quoted = quoted

    def __repr__(self):
        return "Sym(%r)" % self.name

    def __eq__(self, o):
        return isinstance(o, Sym) and o.name == self.name

    def __hash__(self):
        return hash(self.name)


class Num(object):
    __slots__ = ("v",)

    def __init__(self, v):
        self.v = v

    def __repr__(self):
        return "Num(%d)" % self.v


class Dec(object):
    __slots__ = ("v",)

    def __init__(self, v):
        self.v = v

    def __repr__(self):
        return "Dec(%s)" % self.v


class BVLit(object):
    __slots__ = ("v", "w")

    def __init__(self, v, w):
        self.v, self.w = v, w

    def __repr__(self):
        return "BVLit(%d,%d)" % (self.v, self.w)


class Str(object):
    __slots__ = ("v",)

    def __init__(self, v):
        self.v = v

    def __repr__(self):
        return "Str(%r)" % self.v


class Kw(object):
    __slots__ = ("name",)

    def __init__(self, name):
        self.name = name

    def __repr__(self):
        return "Kw(%s)" % self.name


_SYMCHARS = set("abcdefghijklmnopqrstuvwxyzABCDEFGHIJKLMNOPQRSTUVWXYZ0123456789~!@$%^&*_-+=<>.?/")
_DIGITS = set("0123456789")
_WS = set(" \t\r\n")


def tokenize(text):
    i, n = 0, len(text)
    out = []
    while i < n:
        c = text[i]
        if c in _WS:
            i += 1
        elif c == ";":
            while i < n and text[i] != "\n":
                i += 1
        elif c == "(" or c == ")":
            out.append(c)
            i += 1
        elif c == '"':
            j = i + 1
            buf = []
            while True:
                if j >= n:
                    raise SmtError("unterminated string literal")
                if text[j] == '"':
                    if j + 1 < n and text[j + 1] == '"':
                        buf.append('"')
                        j += 2
                        continue
                    break
                buf.append(text[j])
                j += 1
            out.append(Str("".join(buf)))
            i = j + 1
        elif c == "|":
            j = text.find("|", i + 1)
            if j < 0:
                raise SmtError("unterminated quoted symbol")
            name = text[i + 1:j]
            if "\\" in name:
                raise SmtError("backslash in quoted symbol")
            out.append(Sym(name, quoted=True))
            i = j + 1
        elif c == "#":
            j = i + 2
            if i + 1 >= n or text[i + 1] not in "bx":
                raise SmtError("bad # literal")
            while j < n and text[j] not in _WS and text[j] not in "()":
                j += 1
            body = text[i + 2:j]
            if not body:
                raise SmtError("empty # literal")
            try:
                if text[i + 1] == "b":
                    if any(ch not in "01" for ch in body):
                        raise ValueError
                    out.append(BVLit(int(body, 2), len(body)))
                else:
                    if any(ch not in "0123456789abcdefABCDEF" for ch in body):
                        raise ValueError
                    out.append(BVLit(int(body, 16), 4 * len(body)))
            except ValueError:
                raise SmtError("bad literal #%s" % text[i + 1:j])
            i = j
        elif c == ":":
            j = i + 1
            while j < n and text[j] in _SYMCHARS:
                j += 1
            if j == i + 1:
                raise SmtError("empty keyword")
            out.append(Kw(text[i:j]))
            i = j
        elif c in _SYMCHARS:
            j = i
            while j < n and text[j] in _SYMCHARS:
                j += 1
            tok = text[i:j]
            if tok[0] in _DIGITS:
                if all(ch in _DIGITS for ch in tok):
                    if len(tok) > 1 and tok[0] == "0":
                        raise SmtError("numeral with leading zero: %s" % tok)
                    out.append(Num(int(tok)))
                else:
                    parts = tok.split(".")
                    if len(parts) == 2 and parts[0] and parts[1] and all(ch in _DIGITS for ch in parts[0] + parts[1]) \
                            and not (len(parts[0]) > 1 and parts[0][0] == "0"):
                        out.append(Dec(Fraction(int(parts[0] + parts[1]), 10 ** len(parts[1]))))
                    else:
                        raise SmtError("malformed numeric literal %s" % tok)
            else:
                out.append(Sym(tok))
            i = j
        else:
            raise SmtError("illegal character %r" % c)
    return out


def read_all(text):
    toks = tokenize(text)
    out, stack = [], []
    for t in toks:
        if t == "(":
            stack.append([])
        elif t == ")":
            if not stack:
                raise SmtError("unbalanced ')'")
            l = stack.pop()
            (stack[-1] if stack else out).append(l)
        else:
            if not stack:
                raise SmtError("atom %r outside of a command" % (t,))
            stack[-1].append(t)
    if stack:
        raise SmtError("unbalanced '('")
    return out


# ---------------------------------------------------------------------------------------
# sorts

def is_bv(s):
    return isinstance(s, tuple) and s[0] == "BV"


def is_arr(s):
    return isinstance(s, tuple) and s[0] == "Array"


class Interp(object):
    """an SMT-LIB command interpreter (strict)"""

    def __init__(self, strict_logic=False):
        self.logic = None
        self.levels = [self._new_level()]
        self.options = {}
        self.uid = 0
        self.print_success = False
        self.assert_log = []     # all (sort-checked) assertions in order, for C07
        self.decl_order = []     # names in declaration order

    @staticmethod
    def _new_level():
        return {"sorts": {}, "sortdefs": {}, "funs": {}, "defs": {}, "asserts": []}

    # ---- lookup through the levels
    def _find(self, kind, name):
        for lv in reversed(self.levels):
            if name in lv[kind]:
                return lv[kind][name]
        return None

    def declared(self, name):
        return self._find("funs", name) is not None or self._find("defs", name) is not None

    def all_funs(self):
        out = {}
        for lv in self.levels:
            out.update(lv["funs"])
        return out

    def live_asserts(self):
        return [a for lv in self.levels for a in lv["asserts"]]

    # ---- sorts
    def sort(self, e, params=None):
        if isinstance(e, Sym):
            n = e.name
            if params and n in params:
                return params[n]
            if n == "Bool":
                return BOOL
            if n == "Int":
                return self._need_theory("ints", INT)
            if n == "Real":
                return self._need_theory("reals", REAL)
            if n == "String":
                return STRING
            d = self._find("sortdefs", n)
            if d is not None:
                ps, body = d
                if ps:
                    raise SmtError("sort %s expects %d arguments" % (n, len(ps)))
                return self.sort(body)
            ar = self._find("sorts", n)
            if ar is None:
                raise SmtError("unknown sort %s" % n)
            if ar != 0:
                raise SmtError("sort %s expects %d arguments" % (n, ar))
            return ("Sort", n, ())
        if isinstance(e, list) and e:
            h = e[0]
            if isinstance(h, Sym) and h.name == "_":
                if len(e) == 3 and isinstance(e[1], Sym) and e[1].name == "BitVec" and isinstance(e[2], Num) \
                        and e[2].v > 0:
                    return ("BV", e[2].v)
                raise SmtError("bad indexed sort")
            if isinstance(h, Sym) and h.name == "Array":
                if len(e) != 3:
                    raise SmtError("Array expects 2 arguments")
                return ("Array", self.sort(e[1], params), self.sort(e[2], params))
            if isinstance(h, Sym):
                d = self._find("sortdefs", h.name)
                if d is not None:
                    ps, body = d
                    if len(ps) != len(e) - 1:
                        raise SmtError("sort %s expects %d arguments" % (h.name, len(ps)))
                    return self.sort(body, dict(zip(ps, [self.sort(x, params) for x in e[1:]])))
                ar = self._find("sorts", h.name)
                if ar is None:
                    raise SmtError("unknown sort %s" % h.name)
                if ar != len(e) - 1:
                    raise SmtError("sort %s expects %d arguments" % (h.name, ar))
                return ("Sort", h.name, tuple(self.sort(x, params) for x in e[1:]))
        raise SmtError("bad sort %r" % (e,))

    def _need_theory(self, th, s):
        return s

    # ---- numerals by logic
    def numeral_sort(self):
        """a numeral denotes an Int unless the logic has Reals and no Ints"""
        lg = self.logic
        if lg is None:
            return INT
        name = lg.replace("QF_", "")
        has_real = "RA" in name or "RDL" in name
        has_int = "IA" in name or "IDL" in name or "IRA" in name
        if "IRA" in name:
            return INT
        if has_real and not has_int:
            return REAL
        return INT

    # ---- terms
    def fresh(self):
        self.uid += 1
        return ("%b", self.uid)

    def elab(self, e, scope):
        """-> (sort, fn(I))"""
        if isinstance(e, Num):
            if self.numeral_sort() == REAL:
                v = Fraction(e.v)
                return REAL, (lambda I: v)
            v = e.v
            return INT, (lambda I: v)
        if isinstance(e, Dec):
            v = e.v
            return REAL, (lambda I: v)
        if isinstance(e, BVLit):
            v = e.v
            return ("BV", e.w), (lambda I: v)
        if isinstance(e, Str):
            v = e.v
            return STRING, (lambda I: v)
        if isinstance(e, Kw):
            raise SmtError("keyword %s where a term is expected" % e.name)
        if isinstance(e, Sym):
            return self.elab_id(e, None, [], scope)
        if not isinstance(e, list) or not e:
            raise SmtError("empty term")
        h = e[0]
        if isinstance(h, Sym) and not h.quoted:
            n = h.name
            if n == "let":
                return self.elab_let(e, scope)
            if n in ("forall", "exists"):
                return self.elab_quant(e, scope)
            if n == "!":
                if len(e) < 4 or (len(e) - 2) % 2 != 0 and False:
                    raise SmtError("bad annotation")
                if len(e) < 3:
                    raise SmtError("bad annotation")
                for a in e[2:]:
                    pass
                return self.elab(e[1], scope)
            if n == "_":
                return self.elab_indexed_const(e)
            if n == "as":
                raise SmtError("'as' needs arguments")
        if isinstance(h, list) and h and isinstance(h[0], Sym) and h[0].name == "_" and not h[0].quoted:
            args = [self.elab(a, scope) for a in e[1:]]
            return self.elab_indexed_app(h, args)
        if isinstance(h, list) and h and isinstance(h[0], Sym) and h[0].name == "as" and not h[0].quoted:
            # ((as const (Array I E)) v)
            if len(h) == 3 and isinstance(h[1], Sym) and h[1].name == "const":
                s = self.sort(h[2])
                if not is_arr(s) or len(e) != 2:
                    raise SmtError("bad 'as const'")
                vs, vf = self.elab(e[1], scope)
                if vs != s[2]:
                    raise SmtError("as const: element sort mismatch")
                isort = s[1]
                return s, (lambda I: ArrVal.const(isort, vf(I)))
            raise SmtError("unsupported qualified identifier")
        if isinstance(h, Sym):
            args = [self.elab(a, scope) for a in e[1:]]
            if not args:
                raise SmtError("application %s without arguments" % h.name)
            return self.elab_id(h, None, args, scope)
        raise SmtError("bad term head %r" % (h,))

    def elab_indexed_const(self, e):
        # (_ bvN w)
        if len(e) == 3 and isinstance(e[1], Sym) and e[1].name.startswith("bv") and e[1].name[2:] != "" and all(c in _DIGITS for c in e[1].name[2:]) \
                and isinstance(e[2], Num) and e[2].v > 0:
            v, w = int(e[1].name[2:]), e[2].v
            if v >= (1 << w):
                raise SmtError("bv literal out of range")
            return ("BV", w), (lambda I: v)
        raise SmtError("unknown indexed identifier %r" % (e,))

    def elab_indexed_app(self, h, args):
        if len(h) < 3 or not isinstance(h[1], Sym):
            raise SmtError("bad indexed identifier")
        n = h[1].name
        idx = h[2:]
        if not all(isinstance(i, Num) for i in idx):
            raise SmtError("indices must be numerals")
        idx = [i.v for i in idx]
        ss = [a[0] for a in args]
        fs = [a[1] for a in args]
        if n == "extract":
            if len(idx) != 2 or len(args) != 1 or not is_bv(ss[0]):
                raise SmtError("extract")
            hi, lo = idx
            if not (0 <= lo <= hi < ss[0][1]):
                raise SmtError("extract range")
            a, = fs
            m = (1 << (hi - lo + 1)) - 1
            return ("BV", hi - lo + 1), (lambda I: (a(I) >> lo) & m)
        if n in ("zero_extend", "sign_extend", "rotate_left", "rotate_right", "repeat"):
            if len(idx) != 1 or len(args) != 1 or not is_bv(ss[0]):
                raise SmtError(n)
            k, w = idx[0], ss[0][1]
            a, = fs
            if n == "zero_extend":
                return ("BV", w + k), (lambda I: a(I))
            if n == "sign_extend":
                return ("BV", w + k), (lambda I: R.bv_sext(a(I), w, k))
            if n == "rotate_left":
                return ss[0], (lambda I: R.bv_rol(a(I), k, w))
            if n == "rotate_right":
                return ss[0], (lambda I: R.bv_ror(a(I), k, w))
            if k < 1:
                raise SmtError("repeat count")

            def rep(I):
                v, r = a(I), 0
                for _ in range(k):
                    r = (r << w) | v
                return r
            return ("BV", w * k), rep
        if n == "int2bv" or n == "nat2bv":
            if len(idx) != 1 or ss != [INT]:
                raise SmtError(n)
            w = idx[0]
            a, = fs
            return ("BV", w), (lambda I: a(I) % (1 << w))
        raise SmtError("unknown indexed operator %s" % n)

    def elab_let(self, e, scope):
        if len(e) != 3 or not isinstance(e[1], list) or not e[1]:
            raise SmtError("bad let")
        binds = []
        names = set()
        for b in e[1]:
            if not (isinstance(b, list) and len(b) == 2 and isinstance(b[0], Sym)):
                raise SmtError("bad let binding")
            if b[0].name in names:
                raise SmtError("duplicate let variable")
            names.add(b[0].name)
            # parallel: every value is elaborated in the OUTER scope
            s, f = self.elab(b[1], scope)
            binds.append((b[0].name, self.fresh(), s, f))
        sc2 = dict(scope)
        for n, key, s, f in binds:
            sc2[n] = (key, s)
        bs, bf = self.elab(e[2], sc2)
        keys = [(key, f) for _, key, _, f in binds]

        def f_let(I):
            vals = [(k, g(I)) for k, g in keys]
            J = dict(I)
            for k, v in vals:
                J[k] = v
            return bf(J)
        return bs, f_let

    def elab_quant(self, e, scope):
        if len(e) != 3 or not isinstance(e[1], list) or not e[1]:
            raise SmtError("bad quantifier")
        sc2 = dict(scope)
        vs = []
        seen = set()
        for b in e[1]:
            if not (isinstance(b, list) and len(b) == 2 and isinstance(b[0], Sym)):
                raise SmtError("bad sorted var")
            if b[0].name in seen:
                raise SmtError("duplicate bound variable")
            seen.add(b[0].name)
            s = self.sort(b[1])
            key = self.fresh()
            sc2[b[0].name] = (key, s)
            vs.append((key, s))
        bs, bf = self.elab(e[2], sc2)
        if bs != BOOL:
            raise SmtError("quantifier body is not Bool")
        want = e[0].name == "exists"

        def f_q(I):
            doms = [R.domain(s, I) for _, s in vs]
            J = dict(I)
            res = not want
            for vals in product(*doms):
                for (k, _), v in zip(vs, vals):
                    J[k] = v
                if bf(J) == want:
                    res = want
            return res
        return BOOL, f_q

    def elab_id(self, h, _as, args, scope):
        n = h.name
        ss = [a[0] for a in args]
        fs = [a[1] for a in args]
        # 1. binders shadow everything
        if n in scope:
            key, s = scope[n]
            if args:
                raise SmtError("bound variable %s applied to arguments" % n)
            return s, (lambda I: I[key])
        # 2. user declarations / definitions shadow nothing predefined: SMT-LIB forbids
        #    redeclaring theory symbols, so the order does not matter
        d = self._find("defs", n)
        if d is not None:
            params, rs, bf = d
            if [p[1] for p in params] != ss:
                raise SmtError("defined function %s applied to %r" % (n, ss))
            keys = [p[0] for p in params]

            def f_def(I):
                vals = [g(I) for g in fs]
                J = dict(I)
                for k, v in zip(keys, vals):
                    J[k] = v
                return bf(J)
            return rs, f_def
        f = self._find("funs", n)
        if f is not None:
            ps, rs = f
            if list(ps) != ss:
                raise SmtError("function %s applied to %r, expects %r" % (n, ss, ps))
            if not ps:
                return rs, (lambda I: I[n])
            return rs, (lambda I: I[n](*[g(I) for g in fs]))
        if h.quoted:
            raise SmtError("undeclared symbol |%s|" % n)
        return self.elab_theory(n, ss, fs)

    # ---- theory symbols
    def elab_theory(self, n, ss, fs):
        k = len(ss)

        def need(c):
            if not c:
                raise SmtError("ill-sorted application of %s to %r" % (n, ss))
        if n == "true" or n == "false":
            need(k == 0)
            v = n == "true"
            return BOOL, (lambda I: v)
        if n == "not":
            need(ss == [BOOL])
            a, = fs
            return BOOL, (lambda I: not a(I))
        if n in ("and", "or", "xor"):
            need(k >= 2 and all(s == BOOL for s in ss))
            t = tuple(fs)
            if n == "and":
                return BOOL, (lambda I: all([g(I) for g in t]))
            if n == "or":
                return BOOL, (lambda I: any([g(I) for g in t]))
            return BOOL, (lambda I: sum(1 for g in t if g(I)) % 2 == 1)
        if n == "=>":
            need(k >= 2 and all(s == BOOL for s in ss))
            t = tuple(fs)

            def f_imp(I):
                vals = [g(I) for g in t]
                r = vals[-1]
                for v in reversed(vals[:-1]):
                    r = (not v) or r
                return r
            return BOOL, f_imp
        if n == "=":
            need(k >= 2 and all(s == ss[0] for s in ss))
            t = tuple(fs)

            def f_eq(I):
                vals = [g(I) for g in t]
                return all(vals[i] == vals[i + 1] for i in range(len(vals) - 1))
            return BOOL, f_eq
        if n == "distinct":
            need(k >= 2 and all(s == ss[0] for s in ss))
            t = tuple(fs)

            def f_di(I):
                vals = [g(I) for g in t]
                return all(vals[i] != vals[j] for i in range(len(vals)) for j in range(i + 1, len(vals)))
            return BOOL, f_di
        if n == "ite":
            need(k == 3 and ss[0] == BOOL and ss[1] == ss[2])
            c, a, b = fs

            def f_ite(I):
                x, y, z = c(I), a(I), b(I)
                return y if x else z
            return ss[1], f_ite
        # arithmetic
        if n in ("+", "*"):
            need(k >= 2 and ss[0] in (INT, REAL) and all(s == ss[0] for s in ss))
            t = tuple(fs)
            if n == "+":
                return ss[0], (lambda I: sum([g(I) for g in t]))

            def f_mul(I):
                r = 1
                for g in t:
                    r = r * g(I)
                return r
            return ss[0], f_mul
        if n == "-":
            need(k >= 1 and ss[0] in (INT, REAL) and all(s == ss[0] for s in ss))
            t = tuple(fs)
            if k == 1:
                a, = fs
                return ss[0], (lambda I: -a(I))

            def f_sub(I):
                vals = [g(I) for g in t]
                r = vals[0]
                for v in vals[1:]:
                    r = r - v
                return r
            return ss[0], f_sub
        if n == "/":
            need(k >= 2 and all(s == REAL for s in ss))
            t = tuple(fs)

            def f_div(I):
                vals = [g(I) for g in t]
                r = Fraction(vals[0])
                for v in vals[1:]:
                    if v == 0:
                        raise Unconstrained()
                    r = r / v
                return r
            return REAL, f_div
        if n in ("div", "mod"):
            need(k >= 2 and all(s == INT for s in ss) and (n == "div" or k == 2))
            t = tuple(fs)
            op = R.int_div if n == "div" else R.int_mod

            def f_idiv(I):
                vals = [g(I) for g in t]
                r = vals[0]
                for v in vals[1:]:
                    r = op(r, v)
                return r
            return INT, f_idiv
        if n == "abs":
            need(ss == [INT])
            a, = fs
            return INT, (lambda I: abs(a(I)))
        if n in ("<=", "<", ">=", ">"):
            need(k >= 2 and ss[0] in (INT, REAL) and all(s == ss[0] for s in ss))
            t = tuple(fs)
            cmp_ = {"<=": lambda x, y: x <= y, "<": lambda x, y: x < y,
                    ">=": lambda x, y: x >= y, ">": lambda x, y: x > y}[n]

            def f_rel(I):
                vals = [g(I) for g in t]
                return all(cmp_(vals[i], vals[i + 1]) for i in range(len(vals) - 1))
            return BOOL, f_rel
        if n == "to_real":
            need(ss == [INT])
            a, = fs
            return REAL, (lambda I: Fraction(a(I)))
        if n == "to_int":
            need(ss == [REAL])
            a, = fs
            import math
            return INT, (lambda I: math.floor(a(I)))
        if n == "is_int":
            need(ss == [REAL])
            a, = fs
            return BOOL, (lambda I: a(I).denominator == 1)
        # bit-vectors
        bvbin = {"bvand": lambda a, b, w: a & b, "bvor": lambda a, b, w: a | b, "bvxor": lambda a, b, w: a ^ b,
                 "bvadd": lambda a, b, w: (a + b) % (1 << w), "bvmul": lambda a, b, w: (a * b) % (1 << w),
                 "bvsub": lambda a, b, w: (a - b) % (1 << w),
                 "bvnand": lambda a, b, w: ((1 << w) - 1) ^ (a & b), "bvnor": lambda a, b, w: ((1 << w) - 1) ^ (a | b),
                 "bvxnor": lambda a, b, w: ((1 << w) - 1) ^ (a ^ b),
                 "bvudiv": R.bv_udiv, "bvurem": R.bv_urem, "bvsdiv": R.bv_sdiv, "bvsrem": R.bv_srem,
                 "bvsmod": R.bv_smod, "bvshl": R.bv_shl, "bvlshr": R.bv_lshr, "bvashr": R.bv_ashr}
        if n in bvbin:
            nary_ok = n in ("bvand", "bvor", "bvxor", "bvadd", "bvmul")
            need(k >= 2 and is_bv(ss[0]) and all(s == ss[0] for s in ss) and (k == 2 or nary_ok))
            w = ss[0][1]
            g = bvbin[n]
            t = tuple(fs)

            def f_bv(I):
                vals = [h_(I) for h_ in t]
                r = vals[0]
                for v in vals[1:]:
                    r = g(r, v, w)
                return r
            return ss[0], f_bv
        bvrel = {"bvult": lambda a, b, w: a < b, "bvule": lambda a, b, w: a <= b,
                 "bvugt": lambda a, b, w: a > b, "bvuge": lambda a, b, w: a >= b,
                 "bvslt": lambda a, b, w: R.to_signed(a, w) < R.to_signed(b, w),
                 "bvsle": lambda a, b, w: R.to_signed(a, w) <= R.to_signed(b, w),
                 "bvsgt": lambda a, b, w: R.to_signed(a, w) > R.to_signed(b, w),
                 "bvsge": lambda a, b, w: R.to_signed(a, w) >= R.to_signed(b, w)}
        if n in bvrel:
            need(k == 2 and is_bv(ss[0]) and ss[0] == ss[1])
            w = ss[0][1]
            g = bvrel[n]
            a, b = fs
            return BOOL, (lambda I: g(a(I), b(I), w))
        if n == "bvnot":
            need(k == 1 and is_bv(ss[0]))
            m = (1 << ss[0][1]) - 1
            a, = fs
            return ss[0], (lambda I: a(I) ^ m)
        if n == "bvneg":
            need(k == 1 and is_bv(ss[0]))
            w = ss[0][1]
            a, = fs
            return ss[0], (lambda I: (-a(I)) % (1 << w))
        if n == "bvcomp":
            need(k == 2 and is_bv(ss[0]) and ss[0] == ss[1])
            a, b = fs
            return ("BV", 1), (lambda I: 1 if a(I) == b(I) else 0)
        if n == "concat":
            need(k >= 2 and all(is_bv(s) for s in ss))
            t = tuple(zip(fs, [s[1] for s in ss]))

            def f_cat(I):
                r = 0
                for g, w in t:
                    r = (r << w) | g(I)
                return r
            return ("BV", sum(s[1] for s in ss)), f_cat
        if n == "bv2nat":
            need(k == 1 and is_bv(ss[0]))
            a, = fs
            return INT, (lambda I: a(I))
        # arrays
        if n == "select":
            need(k == 2 and is_arr(ss[0]) and ss[0][1] == ss[1])
            a, i = fs
            return ss[0][2], (lambda I: a(I).get(i(I)))
        if n == "store":
            need(k == 3 and is_arr(ss[0]) and ss[0][1] == ss[1] and ss[0][2] == ss[2])
            a, i, v = fs
            return ss[0], (lambda I: a(I).put(i(I), v(I)))
        # strings
        S = STRING
        if n == "str.++":
            need(k >= 2 and all(s == S for s in ss))
            t = tuple(fs)
            return S, (lambda I: "".join([g(I) for g in t]))
        if n == "str.len":
            need(ss == [S])
            a, = fs
            return INT, (lambda I: len(a(I)))
        if n == "str.at":
            need(ss == [S, INT])
            a, b = fs
            return S, (lambda I: R.str_at(a(I), b(I)))
        if n == "str.substr":
            need(ss == [S, INT, INT])
            a, b, c = fs
            return S, (lambda I: R.str_substr(a(I), b(I), c(I)))
        if n == "str.prefixof":
            need(ss == [S, S])
            a, b = fs
            return BOOL, (lambda I: b(I).startswith(a(I)))
        if n == "str.suffixof":
            need(ss == [S, S])
            a, b = fs
            return BOOL, (lambda I: b(I).endswith(a(I)))
        if n == "str.contains":
            need(ss == [S, S])
            a, b = fs
            return BOOL, (lambda I: b(I) in a(I))
        if n == "str.indexof":
            need(ss == [S, S, INT])
            a, b, c = fs
            return INT, (lambda I: R.str_indexof(a(I), b(I), c(I)))
        if n == "str.replace":
            need(ss == [S, S, S])
            a, b, c = fs
            return S, (lambda I: R.str_replace(a(I), b(I), c(I)))
        if n in ("str.to_int", "str.to.int"):
            need(ss == [S])
            a, = fs
            return INT, (lambda I: R.str_to_int(a(I)))
        if n in ("str.from_int", "int.to.str"):
            need(ss == [INT])
            a, = fs
            return S, (lambda I: R.str_from_int(a(I)))
        raise SmtError("undeclared symbol %s (applied to %r)" % (n, ss))

    # ---- commands
    def check_new_name(self, sym):
        n = sym.name
        if not sym.quoted:
            if n in RESERVED or n in PREDEFINED or n[0] in _DIGITS:
                raise SmtError("cannot declare reserved/predefined symbol %s" % n)
        if self.declared(n):
            raise SmtError("symbol %s is already declared" % n)

    def run(self, cmd):
        """execute one command (s-expression); returns the reply string or None"""
        if not (isinstance(cmd, list) and cmd and isinstance(cmd[0], Sym)):
            raise SmtError("not a command: %r" % (cmd,))
        c = cmd[0].name
        lv = self.levels[-1]
        if c == "set-logic":
            if len(cmd) != 2 or not isinstance(cmd[1], Sym):
                raise SmtError("bad set-logic")
            if self.logic is not None:
                raise SmtError("logic already set")
            self.logic = cmd[1].name
            return "success"
        if c == "set-option":
            if len(cmd) < 2 or not isinstance(cmd[1], Kw):
                raise SmtError("bad set-option")
            if cmd[1].name == ":print-success" and len(cmd) == 3 and isinstance(cmd[2], Sym):
                self.print_success = cmd[2].name == "true"
            self.options[cmd[1].name] = cmd[2:]
            return "success"
        if c == "set-info":
            if len(cmd) < 2 or not isinstance(cmd[1], Kw):
                raise SmtError("bad set-info")
            return "success"
        if c == "declare-sort":
            if not (2 <= len(cmd) <= 3 and isinstance(cmd[1], Sym)):
                raise SmtError("bad declare-sort")
            ar = 0
            if len(cmd) == 3:
                if not isinstance(cmd[2], Num):
                    raise SmtError("bad declare-sort arity")
                ar = cmd[2].v
            n = cmd[1].name
            if self._find("sorts", n) is not None or self._find("sortdefs", n) is not None or \
                    n in ("Bool", "Int", "Real", "String", "Array", "BitVec"):
                raise SmtError("sort %s is already declared" % n)
            lv["sorts"][n] = ar
            return "success"
        if c == "define-sort":
            if not (len(cmd) == 4 and isinstance(cmd[1], Sym) and isinstance(cmd[2], list)):
                raise SmtError("bad define-sort")
            n = cmd[1].name
            if self._find("sorts", n) is not None or self._find("sortdefs", n) is not None:
                raise SmtError("sort %s is already declared" % n)
            ps = []
            for p in cmd[2]:
                if not isinstance(p, Sym):
                    raise SmtError("bad define-sort parameter")
                ps.append(p.name)
            self.sort(cmd[3], {p: ("Sort", "%param", ()) for p in ps})   # well-formedness
            lv["sortdefs"][n] = (ps, cmd[3])
            return "success"
        if c in ("declare-fun", "declare-const"):
            if c == "declare-fun":
                if not (len(cmd) == 4 and isinstance(cmd[1], Sym) and isinstance(cmd[2], list)):
                    raise SmtError("bad declare-fun")
                ps = tuple(self.sort(p) for p in cmd[2])
                rs = self.sort(cmd[3])
            else:
                if not (len(cmd) == 3 and isinstance(cmd[1], Sym)):
                    raise SmtError("bad declare-const")
                ps, rs = (), self.sort(cmd[2])
            self.check_new_name(cmd[1])
            lv["funs"][cmd[1].name] = (ps, rs)
            self.decl_order.append(cmd[1].name)
            return "success"
        if c == "define-fun":
            if not (len(cmd) == 5 and isinstance(cmd[1], Sym) and isinstance(cmd[2], list)):
                raise SmtError("bad define-fun")
            self.check_new_name(cmd[1])
            scope, params, seen = {}, [], set()
            for p in cmd[2]:
                if not (isinstance(p, list) and len(p) == 2 and isinstance(p[0], Sym)):
                    raise SmtError("bad define-fun parameter")
                if p[0].name in seen:
                    raise SmtError("duplicate parameter")
                seen.add(p[0].name)
                s = self.sort(p[1])
                key = self.fresh()
                scope[p[0].name] = (key, s)
                params.append((key, s))
            rs = self.sort(cmd[3])
            bs, bf = self.elab(cmd[4], scope)     # the name itself is not in scope: no recursion
            if bs != rs:
                raise SmtError("define-fun body has sort %r, declared %r" % (bs, rs))
            lv["defs"][cmd[1].name] = (params, rs, bf)
            return "success"
        if c == "assert":
            if len(cmd) != 2:
                raise SmtError("bad assert")
            s, f = self.elab(cmd[1], {})
            if s != BOOL:
                raise SmtError("asserted term is not Bool")
            lv["asserts"].append(f)
            self.assert_log.append(f)
            return "success"
        if c == "push" or c == "pop":
            k = 1
            if len(cmd) == 2:
                if not isinstance(cmd[1], Num):
                    raise SmtError("bad %s" % c)
                k = cmd[1].v
            elif len(cmd) != 1:
                raise SmtError("bad %s" % c)
            if c == "push":
                for _ in range(k):
                    self.levels.append(self._new_level())
            else:
                if k > len(self.levels) - 1:
                    raise SmtError("pop beyond the first level")
                for _ in range(k):
                    self.levels.pop()
            return "success"
        if c == "reset-assertions":
            if len(cmd) != 1:
                raise SmtError("bad reset-assertions")
            self.levels = [self._new_level()]
            return "success"
        if c in ("check-sat", "exit", "get-model", "get-info", "get-option", "get-assertions", "get-unsat-core",
                 "get-proof", "get-assignment", "reset", "echo", "check-sat-assuming", "get-value",
                 "get-unsat-assumptions"):
            return None      # handled by the strict solver on top (needs models)
        raise SmtError("unknown command %s" % c)


PREDEFINED = {"true", "false", "not", "and", "or", "xor", "=>", "=", "distinct", "ite", "+", "-", "*", "/", "div",
              "mod", "abs", "<=", "<", ">=", ">", "to_real", "to_int", "is_int", "select", "store", "concat",
              "extract", "bvnot", "bvand", "bvor", "bvneg", "bvadd", "bvmul", "bvudiv", "bvurem", "bvshl",
              "bvlshr", "bvult", "bvnand", "bvnor", "bvxor", "bvxnor", "bvcomp", "bvsub", "bvsdiv", "bvsrem",
              "bvsmod", "bvashr", "repeat", "zero_extend", "sign_extend", "rotate_left", "rotate_right", "bvule",
              "bvugt", "bvuge", "bvslt", "bvsle", "bvsgt", "bvsge", "bv2nat", "str.++", "str.len", "str.at",
              "str.substr", "str.prefixof", "str.suffixof", "str.contains", "str.indexof", "str.replace",
              "str.to_int", "str.from_int", "str.to.int", "int.to.str", "Bool", "Int", "Real", "String", "Array",
              "BitVec", "const"}


def needs_quoting(name):
    """True if the name cannot be written as a simple symbol"""
    return (not name) or any(ch not in _SYMCHARS for ch in name) or name[0] in _DIGITS


def undeclarable(name):
    """names SMT-LIB itself cannot declare: reserved words, predefined symbols, and names that
    contain | or backslash (not writable even as quoted symbols)"""
    return name in RESERVED or name in PREDEFINED or "|" in name or "\\" in name


def run_script(text):
    """interpret a whole script strictly; returns the Interp (assert_log holds the
    elaborated assertions in order); raises SmtError on anything ill-formed"""
    it = Interp()
    for cmd in read_all(text):
        it.run(cmd)
    return it
