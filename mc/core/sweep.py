"""Sharded bounded-exhaustive sweep over the terms of a profile.

A *part* is a dict:
  name      : label
  profile   : callable(env) -> Profile
  depth     : terms of depth <= depth are enumerated (all of them)
  top_ops   : optional predicate on Op restricting the operators applied at the last level
  mid_ops   : optional predicate on Op restricting the operators used below the last level
  max_new   : optional bound on how many arguments of a last-level application may come from
              the newest lower level (1 = "one complex argument, the others simpler")
  shards    : number of shards (each shard = fresh Environment in a pooled worker)
A checker factory  make(env, profile, res, part) -> check(term)  is called once per shard.
Every shard rebuilds the lower levels completely and streams the last level, handling the
applications whose running index is congruent to its shard number, so the union over the
shards is exactly the set of all (operator, argument tuple) applications.
"""
from itertools import product
from pysmt.environment import Environment, push_env, pop_env
from .runner import Result
from . import termgen


def _levels_below(profile, depth, mid_ops):
    ops = [o for o in profile.ops if (mid_ops is None or mid_ops(o))]
    return termgen.levels(profile, depth, ops_by_level={d: ops for d in range(1, depth + 1)})


_PARTS = []
_MAKE = [None]


def run_shard(args):
    # parts hold lambdas (not picklable): workers inherit the table through fork
    pi, idx, nshards, seed = args
    part, make = _PARTS[pi], _MAKE[0]
    res = Result()
    env = Environment()
    push_env(env)
    try:
        profile = part["profile"](env)
        depth = part["depth"]
        check = make(env, profile, res, part)
        lv = _levels_below(profile, max(depth - 1, 0), part.get("mid_ops"))
        seen = set()
        counter = 0
        pools = {}
        for L in lv:
            for s in sorted(L, key=repr):
                for n in L[s]:
                    seen.add(n)
                    pools.setdefault(s, []).append(n)
                    if (counter + seed) % nshards == idx:
                        res.count("evaluations")
                        check(n)
                    counter += 1
        if depth >= 1:
            newest = set()
            for ns in lv[-1].values():
                newest.update(ns)
            need_new = depth > 1
            max_new = part.get("max_new") if need_new else None
            m = profile.m
            top = part.get("top_ops")
            for o in profile.ops:
                if top is not None and not top(o):
                    continue
                lists = [pools.get(s) for s in o.args]
                if any(not l for l in lists):
                    continue
                for tup in product(*lists):
                    if need_new:
                        k = sum(1 for a in tup if a in newest)
                        if k == 0 or (max_new is not None and k > max_new):
                            continue
                    counter += 1
                    if (counter + seed) % nshards != idx:
                        continue
                    try:
                        n = o.build(m, *tup)
                    except Exception:
                        res.count("constructor_refused")
                        continue
                    if n in seen:
                        res.count("duplicates")
                        continue
                    seen.add(n)
                    res.count("evaluations")
                    check(n)
    finally:
        pop_env()
    return res


def sweep(ctx, parts, make):
    # the constructive enumeration of sweep_fast visits exactly the applications of a part; the
    # filtering loop of run_shard above (kept for reference / cross-checking) visits the full product
    # in every shard, which dominates for depth-3 parts with max_new
    if not __import__("os").environ.get("VERIF_SLOW_SWEEP"):
        from . import sweep_fast
        return sweep_fast.sweep(ctx, parts, make)
    shards = []
    del _PARTS[:]
    _PARTS.extend(parts)
    _MAKE[0] = make
    for pi, part in enumerate(parts):
        if getattr(ctx, "parts", None) and part["name"] not in ctx.parts:
            continue
        n = part.get("shards", 16)
        for i in range(n):
            shards.append((pi, i, n, ctx.seed))
    ctx.rng.shuffle(shards)
    ctx.pmap(run_shard, shards)


def estimate(part):
    """number of (operator, tuple) applications of a part, without building the last level"""
    env = Environment()
    push_env(env)
    try:
        profile = part["profile"](env)
        depth = part["depth"]
        lv = _levels_below(profile, max(depth - 1, 0), part.get("mid_ops"))
        pools, old = {}, {}
        for i, L in enumerate(lv):
            for s, ns in L.items():
                pools[s] = pools.get(s, 0) + len(ns)
                if i < len(lv) - 1:
                    old[s] = old.get(s, 0) + len(ns)
        total = sum(pools.values())
        if depth >= 1:
            top = part.get("top_ops")
            for o in profile.ops:
                if top is not None and not top(o):
                    continue
                if depth == 1:
                    n_all = 1
                    for s in o.args:
                        n_all *= pools.get(s, 0)
                    total += n_all
                    continue
                ways = {0: 1}   # number of new arguments -> tuples
                for s in o.args:
                    nw = {}
                    n_old = old.get(s, 0)
                    n_new = pools.get(s, 0) - n_old
                    for k, c in ways.items():
                        nw[k] = nw.get(k, 0) + c * n_old
                        nw[k + 1] = nw.get(k + 1, 0) + c * n_new
                    ways = nw
                mx = part.get("max_new")
                total += sum(c for k, c in ways.items() if k >= 1 and (mx is None or k <= mx))
        return total
    finally:
        pop_env()
