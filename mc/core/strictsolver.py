"""StrictSmtLibSolver: a deliberately pedantic SMT-LIB 2.6 command interpreter (smtref.Interp +
brute-force satisfiability) served to pysmt.smtlib.solver.SmtLibSolver through a virtual
Popen whose stdin/stdout are in-memory raw streams.

* every complete command is executed synchronously when it is flushed into stdin; its reply
  bytes are tagged with the index of the command that caused them;
* the read side hands out ONE byte per readinto, so pySMT's TextIOWrapper cannot buffer ahead
  and "bytes pulled" equals "bytes consumed";
* if non-blank bytes of reply k are still unread when command k+1 arrives, the reply was not
  attributed to its command (desync); a read on an empty stream would block forever.
"""
import io
from fractions import Fraction
from itertools import product
from . import smtref
from .smtref import SmtError, Sym, Num, Interp
from .refsem import Unconstrained, FunVal, ArrVal
from .termgen import sort_values
from .termio import BOOL, INT, REAL, STRING


class WouldBlock(Exception):
    """a read on an empty reply stream: the caller would block forever"""


def print_value(sort, v):
    if sort == BOOL:
        return "true" if v else "false"
    if sort == INT:
        return str(v) if v >= 0 else "(- %d)" % (-v)
    if sort == REAL:
        v = Fraction(v)
        n = "%d.0" % abs(v.numerator)
        s = n if v.denominator == 1 else "(/ %s %d.0)" % (n, v.denominator)
        return s if v >= 0 else "(- %s)" % s
    if sort == STRING:
        return '"%s"' % v.replace('"', '""')
    if sort[0] == "BV":
        return "#b" + format(v, "0%db" % sort[1])
    if sort[0] == "Sort":
        return "(as @%s_%d %s)" % (sort[1], v, sort[1])
    raise ValueError("cannot print a value of sort %r" % (sort,))


UNKNOWN_SYMBOL = "kk"     # check-sat answers unknown while a symbol of this name is declared


class StrictSolver(object):
    def __init__(self, dom=None):
        self.it = Interp()
        self.dom = dom
        self.errors = []        # (command text, message)
        self.commands = []      # texts in order
        self.model = None       # name -> value after sat
        self.last_result = None
        self.exited = False
        self.checks = 0
        self.fail_on = None     # fault injection: the next command with this name answers (error ...)

    def depth(self):
        return len(self.it.levels) - 1

    def execute(self, text):
        """one complete command text -> reply text (without newline) or None"""
        self.commands.append(text)
        if self.exited:
            self.errors.append((text, "command after exit"))
            return '(error "exited")'
        try:
            cmds = smtref.read_all(text)
            if len(cmds) != 1:
                raise SmtError("expected exactly one command")
            cmd = cmds[0]
            if self.fail_on is not None and isinstance(cmd, list) and cmd and getattr(cmd[0], "name", None) == self.fail_on:
                self.fail_on = None
                return '(error "injected failure")'      # not recorded as a stream error: it is the fault
            r = self.it.run(cmd)
            if r is None:
                r = self.special(cmd)
            else:
                if cmd[0].name in ("assert", "push", "pop", "reset-assertions", "define-fun"):
                    self.model = None       # the assertion set changed: no current model
                if not self.it.print_success:
                    r = None
            return r
        except SmtError as e:
            self.errors.append((text, str(e)))
            return '(error "%s")' % str(e).replace('"', "'")

    def special(self, cmd):
        c = cmd[0].name
        if c == "check-sat":
            if len(cmd) != 1:
                raise SmtError("bad check-sat")
            if UNKNOWN_SYMBOL in self.it.all_funs():
                # a solver may give up: with the designated symbol in scope every check-sat answers unknown
                self.model = None
                self.last_result = None
                self.checks += 1
                return "unknown"
            return "sat" if self.check() else "unsat"
        if c == "get-value":
            if len(cmd) != 2 or not isinstance(cmd[1], list) or not cmd[1]:
                raise SmtError("bad get-value")
            if self.model is None:
                raise SmtError("get-value without a model")
            out = []
            for t in cmd[1]:
                s, f = self.it.elab(t, {})
                # like z3 for long terms, the value is printed on its own line: replies are
                # s-expressions, not lines
                out.append("(%s\n   %s)" % (self.unparse(t), print_value(s, f(self.model))))
            return "(" + "\n ".join(out) + ")"
        if c == "exit":
            self.exited = True
            return "success" if self.it.print_success else None
        raise SmtError("unsupported command %s" % c)

    def unparse(self, t):
        if isinstance(t, list):
            return "(" + " ".join(self.unparse(x) for x in t) + ")"
        if isinstance(t, Sym):
            return "|%s|" % t.name if (t.quoted or smtref.needs_quoting(t.name)) else t.name
        if isinstance(t, Num):
            return str(t.v)
        if isinstance(t, smtref.BVLit):
            return "#b" + format(t.v, "0%db" % t.w)
        if isinstance(t, smtref.Dec):
            return str(float(t.v))
        if isinstance(t, smtref.Str):
            return '"%s"' % t.v.replace('"', '""')
        return str(t)

    def check(self):
        self.checks += 1
        funs = self.it.all_funs()
        names = sorted(funs)
        pools = []
        for n in names:
            ps, rs = funs[n]
            pools.append(sort_values(("Fun", rs, ps) if ps else rs, self.dom))
        asserts = self.it.live_asserts()
        for vals in product(*pools):
            I = dict(zip(names, vals))
            ok = True
            for f in asserts:
                try:
                    if not f(I):
                        ok = False
                        break
                except Unconstrained:
                    ok = False
                    break
            if ok:
                self.model = I
                self.last_result = True
                return True
        self.model = None
        self.last_result = False
        return False


def split_commands(buf):
    """complete top-level s-expressions at the front of buf -> (list of texts, rest)"""
    out = []
    depth, start, i, n = 0, None, 0, len(buf)
    in_str = in_bar = in_comment = False
    while i < n:
        c = buf[i]
        if in_comment:
            if c == "\n":
                in_comment = False
        elif in_str:
            if c == '"':
                in_str = False
        elif in_bar:
            if c == "|":
                in_bar = False
        elif c == ";":
            in_comment = True
        elif c == '"':
            in_str = True
        elif c == "|":
            in_bar = True
        elif c == "(":
            if depth == 0:
                start = i
            depth += 1
        elif c == ")":
            depth -= 1
            if depth == 0 and start is not None:
                out.append(buf[start:i + 1])
                start = None
            elif depth < 0:
                out.append(")")
                depth = 0
        i += 1
    rest = buf[start:] if start is not None else ""
    return out, rest


class Server(object):
    def __init__(self, dom=None):
        self.solver = StrictSolver(dom)
        self.inbuf = ""
        self.out = []             # list of [tag, bytearray]
        self.ncmd = 0
        self.desync = []          # (command index, leftover bytes, tag of leftover)
        self.blocked = False

    def feed(self, data):
        self.inbuf += data.decode("utf-8")
        cmds, self.inbuf = split_commands(self.inbuf)
        for c in cmds:
            left = b"".join(bytes(ch[1]) for ch in self.out)
            if left.strip():
                self.desync.append((self.ncmd, left.decode("utf-8", "replace"), self.out[0][0]))
            self.ncmd += 1
            r = self.solver.execute(c)
            if r is not None:
                self.out.append([self.ncmd, bytearray((r + "\n").encode("utf-8"))])

    def read1(self):
        while self.out and not self.out[0][1]:
            self.out.pop(0)
        if not self.out:
            self.blocked = True
            raise WouldBlock("read on an empty reply stream would block forever")
        b = self.out[0][1][0]
        del self.out[0][1][0]
        return b

    def pending(self):
        return b"".join(bytes(ch[1]) for ch in self.out)


class _In(io.RawIOBase):
    def __init__(self, srv):
        self.srv = srv

    def writable(self):
        return True

    def write(self, b):
        self.srv.feed(bytes(b))
        return len(b)


class _Out(io.RawIOBase):
    def __init__(self, srv):
        self.srv = srv

    def readable(self):
        return True

    def readinto(self, buf):
        buf[0] = self.srv.read1()
        return 1


class VPopen(object):
    """stands in for subprocess.Popen inside pysmt.smtlib.solver"""
    instances = []
    dom = None

    def __init__(self, args, **kw):
        self.args = args
        self.srv = Server(VPopen.dom)
        VPopen.instances.append(self)
        self.stdin = io.BufferedWriter(_In(self.srv))
        self.stdout = io.BufferedReader(_Out(self.srv), buffer_size=1)
        self.stderr = io.BytesIO()
        self.terminated = False

    def terminate(self):
        self.terminated = True


class _NoSleep(object):
    @staticmethod
    def sleep(x):
        pass

    def __getattr__(self, n):
        import time
        return getattr(time, n)


def install():
    import pysmt.smtlib.solver as S
    S.Popen = VPopen
    S.time = _NoSleep()
    del VPopen.instances[:]
