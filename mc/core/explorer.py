"""Explicit-state breadth-first search over API histories of the real implementation.

A state is the event history that reaches it.  `run(hist)` builds fresh objects (fresh
Environment, solver, parser ...), replays the real calls in lock-step with the reference
model and returns an Outcome:
    legal      False if the last event is not enabled in the reference model (pruned)
    canon      hashable fingerprint of (implementation mutable state, reference state);
               two histories are merged only if both components agree
    violation  None or (sig, msg)
    obs        small label of what was observed (vacuity statistics)
    stop       True if exploration must not continue below this state (e.g. after a known
               finding that poisons the future)
Breadth-first, level-synchronous; each level is expanded by the worker pool.  The first
counterexample found is therefore a shortest one.
"""
from .runner import Result


class Outcome(object):
    __slots__ = ("legal", "canon", "violation", "obs", "stop")

    def __init__(self, legal=True, canon=None, violation=None, obs=None, stop=False):
        self.legal = legal
        self.canon = canon
        self.violation = violation
        self.obs = obs
        self.stop = stop


_RUN = [None, None]


def _expand(args):
    hists, = args
    run, events = _RUN
    out = []
    for h in hists:
        for ev in events:
            h2 = h + (ev,)
            o = run(h2)
            out.append((h2, o.legal, o.canon, o.violation, o.obs, o.stop))
    r = Result()
    r.payload = out
    return r


def bfs(ctx, part, run, events, max_depth, merge=True, chunk=64, deadline_check=True):
    """returns dict(states, transitions, depth_completed, traces)"""
    _RUN[0], _RUN[1] = run, list(events)
    res = ctx.res
    o0 = run(())
    seen = {o0.canon}
    if o0.violation:
        res.violation(part, o0.violation[0], o0.violation[1], {"part": part, "history": []})
    frontier = [()]
    states, transitions, traces = 1, 0, 1
    depth_done = 0
    import multiprocessing
    import os
    from .runner import NPROC
    pool = None
    if not os.environ.get("VERIF_SERIAL"):
        pool = multiprocessing.get_context("fork").Pool(NPROC)
    try:
        for d in range(1, max_depth + 1):
            if not frontier:
                depth_done = max_depth
                break
            if deadline_check and ctx.out_of_time():
                ctx.exhaustive = False
                ctx.cap_note = "time cap reached at depth %d of part %s; complete below that depth" % (d, part)
                break
            chunks = [(frontier[i:i + chunk],) for i in range(0, len(frontier), chunk)]
            if pool is not None and len(chunks) > 1:
                results = pool.imap(_expand, chunks)
            else:
                results = map(_expand, chunks)
            nxt = []
            for r in results:
                for h2, legal, canon, viol, obs, stop in r.payload:
                    traces += 1
                    if not legal:
                        res.count("illegal_pruned")
                        continue
                    transitions += 1
                    res.count("evaluations")
                    if obs is not None:
                        res.outcome(str(obs))
                    if viol:
                        res.violation(part, viol[0], viol[1], {"part": part, "history": list(h2)})
                        continue     # do not explore below a violating state
                    if stop:
                        res.count("pruned_after_known")
                        continue
                    if merge:
                        if canon in seen:
                            continue
                        seen.add(canon)
                    states += 1
                    res.count("nontrivial")
                    if len(res.samples) < 3 and len(h2) >= 3:
                        res.sample({"part": part, "history": list(h2)})
                    nxt.append(h2)
            frontier = nxt
            depth_done = d
    finally:
        if pool is not None:
            pool.terminate()
    return {"states": states, "transitions": transitions, "depth_completed": depth_done,
            "traces": traces}
