"""C17 - text-interface solvers: legal command stream, replies in sync, faithful model.

Breadth-first search over SmtLibSolver API histories against the strict in-memory reference
solver (mc/core/strictsolver.py).  In every state: the strict solver never answered
(error ...), no non-blank reply bytes were left unread when the next command arrived, no
read blocked, push/pop depth agrees on both sides, every verdict equals both the solver's
answer and brute-force truth, and after 'sat' the model / values are the solver's.
"""
from pysmt.environment import Environment, push_env, pop_env
from pysmt.logics import QF_UFBV
from pysmt.exceptions import SolverReturnedUnknownResultError
from ..core import strictsolver as SS
from ..core.explorer import bfs, Outcome
from ..core.refsem import compile_term, free_symbols, const_to_value, Unconstrained
from ..core.termgen import sort_values
from ..core.termio import BOOL, mk_type
from itertools import product

B2 = ("BV", 2)
SORT_S = ("Sort", "S", ())


def world(env):
    m = env.formula_manager
    p, q = m.Symbol("p"), m.Symbol("q")
    u = m.Symbol("u", mk_type(env, B2))
    h = m.Symbol("h", mk_type(env, ("Fun", BOOL, (BOOL,))))
    c1, c2 = m.Symbol("c1", mk_type(env, SORT_S)), m.Symbol("c2", mk_type(env, SORT_S))
    PI, PB = ("Sort", "P", (("BV", 2),)), ("Sort", "P", (BOOL,))
    pa, pb = m.Symbol("pa", mk_type(env, PI)), m.Symbol("pb", mk_type(env, PI))
    pc, pd = m.Symbol("pc", mk_type(env, PB)), m.Symbol("pd", mk_type(env, PB))
    F = {"pa=pb": m.Equals(pa, pb), "pc=pd": m.Equals(pc, pd),
         "p": p, "q|p": m.Or(q, p), "u=1": m.Equals(u, m.BV(1, 2)), "h(p)": m.Function(h, [p]),
         "!p": m.Not(p), "c1=c2": m.Equals(c1, c2), "!q": m.Not(q), "u<2": m.BVULT(u, m.BV(2, 2)),
         # r only occurs in a part that simplification removes
         "p&(r|!r)": m.And(p, m.Or(m.Symbol("r"), m.Not(m.Symbol("r")))),
         # symbols of a user sort that occur only in a part that simplification removes
         "p&(c1=c2|!c1=c2)": m.And(p, m.Or(m.Equals(c1, c2), m.Not(m.Equals(c1, c2)))),
         # symbols that occur only inside an array literal (default element, stored value)
         "M=lit": m.Equals(m.Symbol("M", mk_type(env, ("Array", B2, BOOL))),
                           m.Array(mk_type(env, B2), m.Symbol("ax"), {m.BV(1, 2): m.Symbol("ay")})),
         # ten symbols first seen in one assertion (the declarations of one call), and a user sort that occurs only
         # inside the sort of array symbols
         "big10": m.Or([m.Symbol("z%d" % i) for i in range(10)]),
         "N1=N2": m.Equals(m.Symbol("N1", mk_type(env, ("Array", B2, SORT_S))), m.Symbol("N2", mk_type(env, ("Array", B2, SORT_S)))),
         # the strict solver answers unknown while kk is declared
         "kk|p": m.Or(m.Symbol(SS.UNKNOWN_SYMBOL), p)}
    T = {"p": p, "q": q, "u": u, "u+1": m.BVAdd(u, m.BV(1, 2)), "q&p": m.And(q, p)}
    return F, T


EVENTS_Q = [("add", "p"), ("add", "q|p"), ("add", "u=1"), ("add", "!p"), ("add", "p&(r|!r)"), ("push", 1), ("push", 2), ("pop", 1),
            ("pop", 2), ("pop", 0), ("push", 0), ("reset",), ("solve",), ("value", "p"), ("value", "u+1"), ("model",), ("is_sat", "!q"),
            ("is_sat", "kk|p")]
EVENTS_T = EVENTS_Q + [("push", 3), ("pop", 3), ("add", "kk|p"), ("is_valid", "kk|p"), ("add", "h(p)"), ("add", "u<2"), ("value", "q&p"), ("is_valid", "q|p"), ("is_unsat", "!p")]
EVENTS_SORT = [("add", "c1=c2"), ("add", "pa=pb"), ("add", "pc=pd"), ("add", "p&(c1=c2|!c1=c2)"), ("push", 1), ("push", 2), ("pop", 1), ("pop", 2),
               ("reset",), ("solve",), ("is_sat", "c1=c2"), ("is_sat", "pc=pd")]
# what one assertion makes the wrapper declare: symbols inside an array literal, ten symbols at once, a user sort
# that occurs only inside array sorts, symbols that simplification removes; levels opened three at a time
EVENTS_DECL = [("add", "M=lit"), ("add", "big10"), ("add", "N1=N2"), ("add", "p&(c1=c2|!c1=c2)"), ("add", "c1=c2"),
               ("push", 1), ("push", 3), ("pop", 1), ("pop", 3), ("solve",), ("reset",)]


class _Unknown(Exception):
    pass


def truth(forms):
    """brute-force satisfiability of a list of pySMT formulas (independent of the strict solver)"""
    syms = {}
    fns = []
    for f in forms:
        syms.update(free_symbols(f))
        fns.append(compile_term(f)[1])
    names = sorted(syms)
    for vals in product(*[sort_values(syms[n]) for n in names]):
        I = dict(zip(names, vals))
        if all(g(I) for g in fns):
            return True
    return False


def run_history(hist, alphabet="main"):
    env = Environment()
    push_env(env)
    SS.install()
    try:
        F, T = world(env)
        # exactly what Factory.add_generic_solver registers (a Factory per history would re-import
        # every solver module: 60 ms)
        from pysmt.smtlib.solver import SmtLibSolver
        solver = SmtLibSolver(["ref"], env, QF_UFBV, LOGICS=[QF_UFBV])
        srv = SS.VPopen.instances[-1].srv
        levels = [[]]
        have_model = False      # reference: a model is current (last solve said sat, nothing changed)
        query = None
        viol = None
        obs = None

        def live():
            return [n for l in levels for n in l]

        def gives_up(names):
            return any(SS.UNKNOWN_SYMBOL in free_symbols(F[n]) for n in names)

        def sig(kind):
            return "smtlibsolver:%s:%s" % ("→".join(_ab(e) for e in _minimal(hist, kind, alphabet)), kind)

        for i, ev in enumerate(hist):
            last = i == len(hist) - 1
            k = ev[0]
            nerr, ndes = len(srv.solver.errors), len(srv.desync)
            pending_query, query = query, None      # formula of a satisfiable is_sat made by the previous event
            try:
                if k == "add":
                    solver.add_assertion(F[ev[1]])
                    levels[-1].append(ev[1])
                    have_model = False
                elif k == "push":
                    solver.push(ev[1])
                    for _ in range(ev[1]):
                        levels.append([])
                    have_model = False
                elif k == "pop":
                    if ev[1] > len(levels) - 1:
                        return Outcome(legal=False)
                    solver.pop(ev[1])
                    for _ in range(ev[1]):
                        levels.pop()
                    have_model = False
                elif k == "reset":
                    solver.reset_assertions()
                    levels = [[]]
                    have_model = False
                elif k == "solve":
                    if gives_up(live()):
                        have_model = False
                        obs = "solve=unknown"
                        try:
                            r = solver.solve()
                        except SolverReturnedUnknownResultError:
                            pass
                        else:
                            viol = ("verdict", "solve returned %r although the solver answered unknown" % (r,))
                        if not viol:
                            raise _Unknown()
                    r = solver.solve()
                    want = truth([F[n] for n in live()])
                    obs = "solve=%s" % r
                    have_model = bool(want)
                    if r != want or srv.solver.last_result != want:
                        viol = ("verdict", "solve returned %r, the solver said %r, brute force says %r"
                                % (r, srv.solver.last_result, want))
                elif k in ("is_sat", "is_valid", "is_unsat"):
                    f = F[ev[1]]
                    if gives_up(live() + [ev[1]]):
                        have_model = False
                        obs = "%s=unknown" % k
                        try:
                            r = getattr(solver, k)(f)
                        except SolverReturnedUnknownResultError:
                            pass
                        else:
                            viol = ("verdict", "%s(%s) returned %r although the solver answered unknown" % (k, ev[1], r))
                        if not viol:
                            raise _Unknown()
                    r = getattr(solver, k)(f)
                    fs = [F[n] for n in live()]
                    if k == "is_sat":
                        want = truth(fs + [f])
                    elif k == "is_unsat":
                        want = not truth(fs + [f])
                    else:
                        want = not truth(fs + [env.formula_manager.Not(f)])
                    obs = "%s=%s" % (k, r)
                    have_model = False
                    if k == "is_sat" and want:
                        # the frame of a satisfiable one-shot query stays open until the next command, so that
                        # its model can be read: get_model / get_value right after it are legal
                        have_model = True
                        query = ev[1]
                    if r != want:
                        viol = ("verdict", "%s(%s) returned %r, brute force says %r" % (k, ev[1], r, want))
                elif k == "value":
                    if not have_model:
                        return Outcome(legal=False)
                    query = pending_query
                    t = T[ev[1]]
                    if not set(free_symbols(t)) <= set().union(*[set(free_symbols(F[n])) for n in live() + ([pending_query] if pending_query else [])] or [set()]):
                        return Outcome(legal=False)     # only terms over declared symbols
                    v = solver.get_value(t)
                    want = compile_term(t)[1](srv.solver.model)
                    got = const_to_value(v)[1]
                    obs = "value"
                    if got != want:
                        viol = ("value", "get_value(%s) returned %r, the solver reported %r" % (ev[1], got, want))
                elif k == "model":
                    if not have_model:
                        return Outcome(legal=False)
                    query = pending_query
                    model = solver.get_model()
                    obs = "model"
                    # every symbol of the live assertions that the solver was told about (a symbol that
                    # simplification removed before the assertion was sent has no reported value)
                    told = srv.solver.it.all_funs()
                    need = {}
                    scope = live() + ([pending_query] if pending_query else [])
                    for n in scope:
                        for sn, ss in free_symbols(F[n]).items():
                            if sn in told and not (isinstance(ss, tuple) and ss[0] in ("Fun", "Sort")):
                                need[sn] = ss
                    assigned = {kk.symbol_name(): vv for kk, vv in model}
                    for sn in sorted(need):
                        if sn not in assigned:
                            viol = ("model", "the model does not assign %s (live assertions %s)" % (sn, scope))
                            break
                        got = const_to_value(assigned[sn])[1]
                        if got != srv.solver.model[sn]:
                            viol = ("model", "the model assigns %s=%r, the solver reported %r"
                                    % (sn, got, srv.solver.model[sn]))
                            break
                    if not viol:
                        for n in scope:
                            if any(isinstance(ss, tuple) and ss[0] in ("Fun", "Sort") for ss in free_symbols(F[n]).values()):
                                continue
                            if not model.satisfies(F[n]):
                                viol = ("model", "the model does not satisfy the live assertion %s" % n)
                                break
            except _Unknown:
                pass        # the solver gave up and the call said so: the invariants below still apply
            except SS.WouldBlock:
                viol = ("blocks", "%s: a read would block forever (pending %r)" % (k, srv.pending()))
            except Exception as e:
                viol = ("exception", "%s raised %s: %s" % (k, type(e).__name__, str(e)[:150]))
            if len(srv.solver.errors) > nerr and (not viol or viol[0] == "exception"):
                t, msg = srv.solver.errors[nerr]
                viol = ("illegal-stream", "the strict solver rejected %r: %s" % (t[:80], msg))
            if not viol and len(srv.desync) > ndes:
                d = srv.desync[ndes]
                viol = ("desync", "reply bytes %r (of command %d) still unread when command %d arrived"
                        % (d[1], d[2], d[0] + 1))
            if not viol and srv.solver.depth() != len(levels) - 1 and not solver.pending_pop:
                viol = ("depth", "solver depth %d, API depth %d" % (srv.solver.depth(), len(levels) - 1))
            if viol:
                if not last:
                    return Outcome(legal=False)
                return Outcome(violation=(sig(viol[0]), "history %s: %s" % (list(hist), viol[1])))
        canon = (tuple(tuple(sorted(s.symbol_name() for s in l)) for l in solver.declared_vars),
                 tuple(tuple(sorted(str(s) for s in l)) for l in solver.declared_sorts),
                 solver.pending_pop, have_model, query,
                 tuple((tuple(sorted(lv["funs"])), tuple(sorted(lv["sorts"])), len(lv["asserts"]))
                       for lv in srv.solver.it.levels),
                 srv.solver.model is not None, bytes(srv.pending()),
                 tuple(tuple(l) for l in levels))
        return Outcome(canon=canon, obs=obs)
    finally:
        pop_env()


_MIN = [False]
_KNOWN_MIN = {}     # kind -> list of minimal abstract patterns already found in this process


def _is_subseq_ending(pat, seq):
    """pat is a subsequence of seq and both end with the same event"""
    if not pat or not seq or pat[-1] != seq[-1]:
        return False
    it = iter(seq)
    return all(any(x == y for y in it) for x in pat)


def _minimal(hist, kind, alphabet):
    cur = list(hist)
    if _MIN[0]:
        return cur
    ab = [_ab(e) for e in cur]
    for pat, events in _KNOWN_MIN.get(kind, []):
        if _is_subseq_ending(pat, ab):
            return events
    res = _minimal_by_replay(cur, kind, alphabet)
    _KNOWN_MIN.setdefault(kind, []).append(([_ab(e) for e in res], res))
    return res


def _minimal_by_replay(hist, kind, alphabet):
    cur = list(hist)
    _MIN[0] = True
    try:
        def fails(h):
            o = run_history(tuple(h), alphabet)
            return bool(o.violation and o.violation[0].endswith(":" + kind))
        changed = True
        while changed:
            changed = False
            for i in range(len(cur) - 1):
                cand = cur[:i] + cur[i + 1:]
                if fails(cand):
                    cur, changed = cand, True
                    break
    finally:
        _MIN[0] = False
    return cur


def _ab(e):
    if e[0] in ("push", "pop"):
        return "%s%d" % (e[0], e[1])
    return e[0]


def run_shortcuts(ctx):
    """the factory shortcuts on top of the same wrapper"""
    env = Environment()
    push_env(env)
    SS.install()
    try:
        F, T = world(env)
        env.factory.add_generic_solver("ref", ["ref"], [QF_UFBV])
        m = env.formula_manager
        cases = [F["p"], F["q|p"], F["p&(r|!r)"], m.And(F["p"], F["!p"]), m.And(F["u=1"], F["u<2"]), m.And(F["u=1"], m.Not(F["u<2"])),
                 m.Or(F["p"], F["!p"]), F["h(p)"]]
        for f in cases:
            sat = truth([f])
            valid = not truth([m.Not(f)])
            ctx.res.count("evaluations", 4)
            for name, call, want in (("is_sat", lambda: env.factory.is_sat(f, solver_name="ref", logic=QF_UFBV), sat),
                                     ("is_unsat", lambda: env.factory.is_unsat(f, solver_name="ref", logic=QF_UFBV), not sat),
                                     ("is_valid", lambda: env.factory.is_valid(f, solver_name="ref", logic=QF_UFBV), valid)):
                try:
                    r = call()
                    bad = None if r == want else "returned %r, truth is %r" % (r, want)
                except Exception as e:
                    bad = "raised %s: %s" % (type(e).__name__, str(e)[:120])
                errs = [e for p in SS.VPopen.instances for e in p.srv.solver.errors]
                if not bad and errs:
                    bad = "illegal command stream: %r" % (errs[0],)
                if bad:
                    ctx.res.violation("shortcut", "shortcut:%s:wrong" % name, "%s(%s): %s" % (name, f, bad),
                                      {"part": "shortcut", "name": name, "formula": str(f)})
            try:
                model = env.factory.get_model(f, solver_name="ref", logic=QF_UFBV)
                bad = None
                if sat:
                    if model is None:
                        bad = "returned None for a satisfiable formula"
                    elif not any(isinstance(s, tuple) and s[0] == "Fun" for s in free_symbols(f).values()) \
                            and not model.satisfies(f):
                        bad = "the model does not satisfy the formula"
                elif model is not None:
                    bad = "returned a model for an unsatisfiable formula"
            except Exception as e:
                bad = "raised %s: %s" % (type(e).__name__, str(e)[:120])
            if bad:
                ctx.res.violation("shortcut", "shortcut:get_model:wrong", "get_model(%s): %s" % (f, bad),
                                  {"part": "shortcut", "name": "get_model", "formula": str(f)})
    finally:
        pop_env()


def _run_main(h):
    return run_history(h, "main")


def _run_sort(h):
    return run_history(h, "sort")


def _run_decl(h):
    return run_history(h, "decl")


def run(ctx):
    ctx.level = "model_checking"
    ctx.rule = ("breadth-first search over SmtLibSolver API histories (add_assertion of formulas whose symbols are "
                "first seen at different levels, push/pop 1-2, reset, solve, get_value, get_model, one-shot queries) "
                "against the strict reference solver; states merged on (declared sets per level, pending pop, "
                "solver-side levels and unread bytes, reference levels); a state is non-trivial when it is new")
    ctx.assumptions = ["the external solver is the strict reference interpreter mc/core/strictsolver.py + smtref",
                       "Popen and time.sleep are rebound inside pysmt.smtlib.solver; streams are in-memory",
                       "blank bytes (the newline after a reply) are not counted as an unattributed reply"]
    q = ctx.quick
    st1 = bfs(ctx, "main", _run_main, EVENTS_Q, max_depth=5 if q else 6)
    if not q:
        # the wider alphabet one level less deep
        st1b = bfs(ctx, "main-wide", _run_main, EVENTS_T, max_depth=5)
        for k_ in ("states", "transitions", "traces"):
            st1[k_] += st1b[k_]
    st2 = bfs(ctx, "sorts", _run_sort, EVENTS_SORT, max_depth=5 if q else 6)
    st3 = bfs(ctx, "decl", _run_decl, EVENTS_DECL, max_depth=4 if q else 5)
    for k_ in ("states", "transitions", "traces"):
        st2[k_] += st3[k_]
    run_shortcuts(ctx)
    ctx.coverage.update({"states": st1["states"] + st2["states"],
                         "transitions": st1["transitions"] + st2["transitions"],
                         "traces_validated_against_impl": st1["traces"] + st2["traces"],
                         "depth_completed": {"main": st1["depth_completed"], "sorts": st2["depth_completed"]}})


def replay(rec):
    case = rec["case"]
    if case.get("part") == "shortcut":
        return True, "shortcut cases are re-run by the quick check"
    hist = tuple(tuple(e) for e in case["history"])
    _MIN[0] = True
    try:
        o = run_history(hist, case.get("part", "main"))
    finally:
        _MIN[0] = False
    if o.violation:
        return False, o.violation[1]
    if not o.legal:
        return False, "history %s: a proper prefix already fails" % (list(hist),)
    return True, "history %s: legal stream, replies in sync" % (list(hist),)
