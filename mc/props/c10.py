"""C10 - normal-form rewriters and Boolean quantifier elimination preserve equivalence.

Every formula of every part (Boolean skeletons over theory atoms, quantified skeletons with
nested / alternating / shadowing binders over Bool, BV1, BV2 and Int, arithmetic pools,
and/or trees, conjunctions of top-level equalities) is handed to the real procedures

    nnf  prenex_normal_form  aig  TimesDistributor.walk  conjunctive_partition
    disjunctive_partition  propagate_toplevel  qelim(shannon)  qelim(selfsub)

and every result must (1) be well-typed with the sort of the input, (2) mention no free
symbol that the input does not mention, (3) evaluate like the input under *every*
interpretation of the free symbols over the part's finite pools according to the reference
semantics (Bool/BV quantifiers exact, Int quantifiers over each listed finite domain), and
(4) have the advertised shape, decided by predicates written here from the property
statement (never by calling pySMT's own normal-form code):

    nnf      every NOT in a Boolean position is applied to an atom
    prenex   quantifier prefix over a matrix without quantifiers (only demanded when every
             quantifier of the input is in a Boolean position)
    aig      the only connectives above the atoms are AND and NOT (quantifiers are kept)
    times    no TIMES node has a PLUS/MINUS argument
    conj     no member is an AND      disj  no member is an OR
    qelim    no quantifier left (inputs whose bound variables are all Boolean)

An exception on an input outside a procedure's documented fragment (Boolean qelim on a
non-Boolean bound variable) is counted, not reported.
"""
from fractions import Fraction
import pysmt.operators as op
from pysmt.environment import Environment, push_env, pop_env
from pysmt import rewritings as RW
from pysmt.solvers.qelim import (ShannonQuantifierEliminator,
                                 SelfSubstitutionQuantifierEliminator)
from pysmt.fnode import FNode
import pysmt.typing as _pt
from ..core import termio
from ..core import profiles as P
from ..core.refsem import (compile_term, free_symbols, Unconstrained, IllTyped, Unsupported)
from ..core.termgen import Profile, interps
from ..core.termio import INT, REAL, BOOL, STRING, sort_of
from ..core.sig import kind, subterms_postorder
from ..core.sweep import _levels_below
from ..core.runner import Result
from itertools import product
import time

B1, B2 = ("BV", 1), ("BV", 2)
QDOMS = [{INT: (0,), REAL: (Fraction(0),), STRING: ("a",)},
         {INT: (0, 1), REAL: (Fraction(0), Fraction(1, 2)), STRING: ("", "b")},
         {INT: (-1, 0, 2), REAL: (Fraction(-1), Fraction(0), Fraction(2)), STRING: ("a", "b", "ab")}]

MINIMISE_CAP = 60
BOOL_PROCS = ("nnf", "prenex", "aig", "conj", "disj", "shannon", "selfsub")

# =========================================================================================
# the procedures under test (the only place where the code under test is called)


def apply_proc(env, name, f):
    if name == "nnf":
        return RW.nnf(f, env)
    if name == "prenex":
        return RW.prenex_normal_form(f, env)
    if name == "aig":
        return RW.aig(f, env)
    if name == "times":
        return RW.TimesDistributor(env=env).walk(f)
    if name == "conj":
        return list(RW.conjunctive_partition(f))
    if name == "disj":
        return list(RW.disjunctive_partition(f))
    if name == "propagate":
        return RW.propagate_toplevel(f, env=env)
    if name == "propagate-nosimp":
        return RW.propagate_toplevel(f, env=env, do_simplify=False)
    if name == "shannon":
        return ShannonQuantifierEliminator(env).eliminate_quantifiers(f)
    if name == "selfsub":
        return SelfSubstitutionQuantifierEliminator(env).eliminate_quantifiers(f)
    raise ValueError(name)


# =========================================================================================
# independent shape predicates

CONNECTIVES = frozenset([op.AND, op.OR, op.NOT, op.IMPLIES, op.IFF])
QUANTS = frozenset([op.FORALL, op.EXISTS])


def all_nodes(g):
    seen, stack = set(), [g]
    while stack:
        n = stack.pop()
        if n in seen:
            continue
        seen.add(n)
        stack.extend(n.args())
    return seen


def _is_bool_ite(n, cmemo):
    return n.node_type() == op.ITE and compile_term(n, cmemo)[0] == BOOL


def is_atom(n, cmemo):
    """a Boolean term whose root is neither a connective, nor a quantifier, nor a Boolean ITE"""
    t = n.node_type()
    return not (t in CONNECTIVES or t in QUANTS or _is_bool_ite(n, cmemo))


def skeleton_nodes(g, cmemo):
    """the nodes in Boolean positions: g, and the arguments of connectives, quantifiers and
    Boolean ITEs in Boolean positions (atoms are included, never entered)"""
    seen, stack = set(), [g]
    while stack:
        n = stack.pop()
        if n in seen:
            continue
        seen.add(n)
        if not is_atom(n, cmemo):
            stack.extend(n.args())
    return seen


def quantifiers_only_in_boolean_positions(f, cmemo):
    sk = skeleton_nodes(f, cmemo)
    return all(n in sk for n in all_nodes(f) if n.node_type() in QUANTS)


def bound_variable_sorts(f):
    out = set()
    for n in all_nodes(f):
        if n.node_type() in QUANTS:
            for v in n.quantifier_vars():
                out.add(sort_of(v.symbol_type()))
    return out


def shape_nnf(g, cmemo):
    for n in skeleton_nodes(g, cmemo):
        if n.node_type() == op.NOT and not is_atom(n.arg(0), cmemo):
            return "negation applied to a non-atom: %s" % _sh(n)
    return None


def shape_prenex(g, cmemo):
    m = g
    while m.node_type() in QUANTS:
        m = m.arg(0)
    for n in all_nodes(m):
        if n.node_type() in QUANTS:
            return "quantifier below the prefix: %s" % _sh(n)
    return None


def shape_aig(g, cmemo):
    for n in skeleton_nodes(g, cmemo):
        if not is_atom(n, cmemo) and n.node_type() not in (op.AND, op.NOT, op.FORALL, op.EXISTS):
            return "connective other than and/not above the atoms: %s" % _sh(n)
    return None


def shape_times(g, cmemo):
    for n in all_nodes(g):
        if n.node_type() == op.TIMES and any(a.node_type() in (op.PLUS, op.MINUS) for a in n.args()):
            return "product over a sum: %s" % _sh(n)
    return None


def shape_noquant(g, cmemo):
    for n in all_nodes(g):
        if n.node_type() in QUANTS:
            return "quantifier left: %s" % _sh(n)
    return None


def _sh(n):
    return termio.short(termio.dump(n), 160)


# =========================================================================================
# verdict of one (procedure, input) pair


class Evaluator(object):
    """values of one input under all interpretations, computed once and shared by the
    procedures applied to it"""

    def __init__(self, f, cmemo, dom, qdoms):
        self.f = f
        self.sort, ff = compile_term(f, cmemo)
        self.syms = free_symbols(f)
        self.bound = bound_variable_sorts(f)
        need_q = any(s in (INT, REAL, STRING) for s in self.bound)
        self.Is = list(interps(self.syms, dom, qdoms if need_q else None))
        self.vals = []
        for I in self.Is:
            try:
                self.vals.append((True, ff(I)))
            except Unconstrained:
                self.vals.append((False, None))


def _showI(I):
    return {k: v for k, v in I.items()}


def in_fragment(name, f):
    if name in ("shannon", "selfsub"):
        return all(s == BOOL for s in bound_variable_sorts(f))
    return True


def make_verdict(env, dom=None, qdoms=None, cmemo=None):
    cmemo = {} if cmemo is None else cmemo
    qdoms = qdoms or QDOMS      # only used for inputs that bind an Int/Real variable
    evals = {}

    def evaluator(f):
        e = evals.get(f)
        if e is None:
            if len(evals) > 4:
                evals.clear()
            e = evals[f] = Evaluator(f, cmemo, dom, qdoms)
        return e

    def verdict(name, f):
        """(label, failure) - failure is None or (kind, message); label classifies the case"""
        inside = in_fragment(name, f)
        if not inside:
            # counted only.  The call is made on a copy of the input in a throw-away
            # environment: an exception inside pySMT's shared substituter leaves that walker
            # dirty (property C15), which must not leak into the cases that follow.
            return "outside-fragment:" + _apply_in_scratch_env(name, f), None
        try:
            g = apply_proc(env, name, f)
        except Exception as e:
            return "exception", ("exception", "%s raised %s: %s" % (name, type(e).__name__, e))
        members = g if isinstance(g, list) else [g]
        if not members or not all(isinstance(x, FNode) for x in members):
            return "bad-result", ("type", "%s returned %r" % (name, g))
        E = evaluator(f)
        want_sort = BOOL if isinstance(g, list) else E.sort
        fns = []
        for x in members:
            try:
                s, fx = compile_term(x, cmemo)
            except (IllTyped, Unsupported) as e:
                return "ill-typed", ("type", "result %s is not well-typed: %s" % (_sh(x), e))
            if s != want_sort:
                return "sort", ("type", "sort %s became %s (result %s)"
                                % (termio.sort_str(want_sort), termio.sort_str(s), _sh(x)))
            fns.append(fx)
        trivial = (g is f) if not isinstance(g, list) else (len(g) == 1 and g[0] is f)
        for x in members:
            extra = set(free_symbols(x)) - set(E.syms)
            if extra:
                return "symbol", ("symbol", "result %s mentions %s, not free in the input"
                                  % (_sh(x), sorted(extra)))
        if not trivial:
            for I, (ok, vf) in zip(E.Is, E.vals):
                if not ok:
                    continue
                try:
                    if name == "conj":
                        vg = all([fx(I) for fx in fns])
                    elif name == "disj":
                        vg = any([fx(I) for fx in fns])
                    else:
                        vg = fns[0](I)
                except Unconstrained:
                    return "value", ("value", "result divides by zero under %r where the input "
                                     "does not" % _showI(I))
                if vg != vf:
                    return "value", ("value", "under %s the input is %r but %s gives %s = %r"
                                     % (_showI(I), vf, name,
                                        "[" + ", ".join(_sh(x) for x in members) + "]"
                                        if isinstance(g, list) else _sh(g), vg))
        why = None
        demanded = True
        if name == "nnf":
            why = shape_nnf(g, cmemo)
        elif name == "prenex":
            demanded = quantifiers_only_in_boolean_positions(f, cmemo)
            if demanded:
                why = shape_prenex(g, cmemo)
        elif name == "aig":
            why = shape_aig(g, cmemo)
        elif name == "times":
            why = shape_times(g, cmemo)
        elif name == "conj":
            bad = [x for x in members if x.node_type() == op.AND]
            why = ("member is a conjunction: %s" % _sh(bad[0])) if bad else None
        elif name == "disj":
            bad = [x for x in members if x.node_type() == op.OR]
            why = ("member is a disjunction: %s" % _sh(bad[0])) if bad else None
        elif name in ("shannon", "selfsub"):
            why = shape_noquant(g, cmemo)
        if why:
            return "shape", ("shape", "%s(%s) = %s: %s" % (
                name, _sh(f), "[...]" if isinstance(g, list) else _sh(g), why))
        label = "identity" if trivial else "rewritten"
        if name in BOOL_PROCS and E.bound:
            label += ":quantified-input"
            if name == "prenex" and not demanded:
                label += ":shape-not-demanded"
        return label, None
    return verdict


def _apply_in_scratch_env(name, f):
    env2 = Environment()
    push_env(env2)
    try:
        g = termio.build(env2, termio.dump(f))
        try:
            r = apply_proc(env2, name, g)
        except Exception as e:
            return "exception:" + type(e).__name__
        return "returned" if isinstance(r, FNode) else "returned-non-formula"
    finally:
        pop_env()


def symbol_order(f):
    """the symbols of f (bound variables and function names included) in creation order.
    Some procedures break ties by node id (propagate_toplevel picks the older symbol as the
    representative of an equivalence class), so a serialised case also records the order in
    which its symbols have to be created to rebuild the same situation."""
    syms = set()
    for n in all_nodes(f):
        if n.is_symbol():
            syms.add(n)
        elif n.is_function_application():
            syms.add(n.function_name())
        elif n.node_type() in QUANTS:
            syms.update(n.quantifier_vars())
    return [[x.symbol_name(), termio._js(sort_of(x.symbol_type()))]
            for x in sorted(syms, key=lambda x: x.node_id())]


def build_case(env, term_json, symbols):
    for nm, so in symbols or ():
        env.formula_manager.Symbol(nm, termio.mk_type(env, termio.norm_sort(so)))
    return termio.build(env, term_json)


def confirm(name, term_json, dom, qdoms, symbols=None):
    """re-run one case from its serialised form in a fresh environment"""
    env2 = Environment()
    push_env(env2)
    try:
        f = build_case(env2, term_json, symbols)
        return make_verdict(env2, dom, qdoms)(name, f)
    finally:
        pop_env()


def minimise_fresh(name, f_json, dom, qdoms, symbols):
    """(signature, minimised term as JSON, failure) of a failing case, all computed in fresh
    environments from the serialised input; None if the failure does not reproduce"""
    env2 = Environment()
    push_env(env2)
    try:
        f = build_case(env2, f_json, symbols)
        cm = {}
        v = make_verdict(env2, dom, qdoms, cm)
        fail = v(name, f)[1]
        if fail is None:
            return None
        sub, r = minimise(env2, name, f, v, cm)
        if r is not None and sub is not f:
            j = termio.dump(sub)
            c = confirm(name, j, dom, qdoms, symbols)[1]
            if c is not None:
                return signature(name, sub, c[0]), j, c
        return signature(name, f, fail[0]), f_json, fail
    finally:
        pop_env()


# =========================================================================================
# minimisation: smallest failing sub-term, negated arguments, arguments generalised to symbols

def _same_sort_subterms(f, cmemo):
    want = compile_term(f, cmemo)[0]
    out = []
    for n in subterms_postorder(f):
        try:
            if compile_term(n, cmemo)[0] == want:
                out.append(n)
        except (IllTyped, Unsupported):
            pass
    return out


def minimise(env, name, f, verdict, cmemo):
    mgr = env.formula_manager

    def fails(t):
        return verdict(name, t)[1]

    def smallest(t):
        for n in _same_sort_subterms(t, cmemo):
            r = fails(n)
            if r:
                return n, r
        return t, fails(t)

    cur, why = smallest(f)
    if why is None:
        return f, fails(f)
    is_bool = compile_term(cur, cmemo)[0] == BOOL
    for _ in range(30):
        changed = False
        if is_bool:
            # a negated argument that already fails is a smaller root cause (polarity)
            for a in cur.args():
                try:
                    if compile_term(a, cmemo)[0] != BOOL:
                        continue
                    cand = mgr.Not(a)
                except Exception:
                    continue
                if cand is cur or _tsize(cand) > _tsize(cur) or \
                        (_tsize(cand) == _tsize(cur) and cur.node_type() == op.NOT):
                    continue
                if fails(cand):
                    cur, why = smallest(cand)
                    changed = True
                    break
            if changed:
                continue
        # flatten a nested application of the same associative operator
        if cur.node_type() in (op.AND, op.OR, op.PLUS, op.TIMES) and \
                any(a.node_type() == cur.node_type() for a in cur.args()):
            flat = []
            for a in cur.args():
                flat.extend(a.args() if a.node_type() == cur.node_type() else [a])
            try:
                cand = mgr.create_node(cur.node_type(), tuple(flat))
                if fails(cand):
                    cur, why = smallest(cand)
                    continue
            except Exception:
                pass
        # drop one argument of an n-ary node
        if cur.node_type() in (op.AND, op.OR, op.PLUS, op.TIMES) and len(cur.args()) > 2:
            for i in range(len(cur.args())):
                try:
                    cand = mgr.create_node(cur.node_type(), cur.args()[:i] + cur.args()[i + 1:])
                except Exception:
                    continue
                if fails(cand):
                    cur, why = smallest(cand)
                    changed = True
                    break
            if changed:
                continue
        # generalise: replace sub-terms (largest first) by fresh symbols of their sort
        subs = [n for n in subterms_postorder(cur) if n is not cur and n.args()
                and not n.is_symbol()]
        subs.sort(key=lambda n: -len(all_nodes(n)))
        for k, n in enumerate(subs):
            try:
                so = compile_term(n, cmemo)[0]
                if not (so in (BOOL, INT, REAL) or so[0] == "BV"):
                    continue
                leaves = [mgr.Symbol("k%d" % k, termio.mk_type(env, so))]
            except Exception:
                continue
            # ... or by one of the symbols of that sort they mention (keeps a name clash alive)
            leaves += sorted((x for x in all_nodes(n) if x.is_symbol() and sort_of(x.symbol_type()) == so),
                             key=lambda x: x.symbol_name())
            for sym in leaves:
                if sym.symbol_name().startswith("k") and sym in all_nodes(cur):
                    continue
                try:
                    cand = _replace(mgr, cur, n, sym)
                except Exception:
                    continue
                if cand is None or cand is cur or cand.node_type() != cur.node_type():
                    continue
                r = fails(cand)
                if r:
                    c2, r2 = smallest(cand)
                    if r2:
                        cur, why = c2, r2
                        changed = True
                        break
            if changed:
                break
        if not changed:
            break
    return cur, why


_COMMUTATIVE = frozenset([op.AND, op.OR, op.IFF, op.PLUS, op.TIMES])


def signature(name, n, failure):
    """<procedure>:<root operator>(<child kinds>):<failure kind> as in core.sig.term_sig; the child kinds of a
    commutative root are sorted and repeated kinds collapsed, so that argument order and
    multiplicity do not split one root cause"""
    name = name.split("-")[0]      # propagate-nosimp is propagate_toplevel(do_simplify=False)
    ks = [kind(a) for a in n.args()]
    if n.node_type() in _COMMUTATIVE:
        ks = sorted(set(ks))
    return "%s:%s(%s):%s" % (name, op.op_to_str(n.node_type()), ",".join(ks), failure)


def _tsize(n):
    """tree size (shared sub-terms counted once per occurrence)"""
    memo = {}
    for x in subterms_postorder(n):
        memo[x] = 1 + sum(memo[a] for a in x.args())
    return memo[n]


def _replace(mgr, root, old, new):
    """rebuild root with every occurrence of node `old` replaced by `new` (structural, no
    pySMT substituter involved: that one is part of what is being checked)"""
    memo = {}
    for n in subterms_postorder(root):
        if n is old:
            memo[n] = new
            continue
        args = tuple(memo[a] for a in n.args())
        if all(x is y for x, y in zip(args, n.args())):
            memo[n] = n
        else:
            memo[n] = mgr.create_node(n.node_type(), args, n._content.payload)
    return memo[root]


# =========================================================================================
# sweep glue

def _dom_json(dom):
    if not dom:
        return None
    return [[termio._js(s), [str(v) for v in vs]] for s, vs in dom.items()]


def _dom_unjson(j):
    if not j:
        return None
    out = {}
    for s, vs in j:
        s = termio.norm_sort(s)
        out[s] = tuple(Fraction(v) if s == REAL else (v if s == STRING else int(v)) for v in vs)
    return out


def make(env, profile, res, part):
    cmemo = {}
    verdict = make_verdict(env, part.get("dom"), part.get("qdoms"), cmemo)
    procs = part["procs"]
    pname = part["name"]
    budget = {}

    def check(f):
        try:
            sort = compile_term(f, cmemo)[0]
        except (IllTyped, Unsupported) as e:
            res.violation("harness", "harness:pool", "pool term not evaluable: %s" % e,
                          {"term": termio.dump(f)})
            return
        nontrivial = False
        for name in procs:
            if name != "times" and sort != BOOL:
                continue
            res.count("applications")
            label, fail = verdict(name, f)
            if fail is None and part.get("fresh_env"):
                # the same case from its serialised form in an environment of its own: counters of
                # generated names start from zero there (they never do in the shard's shared environment)
                res.count("fresh_env_runs")
                _, fail = confirm(name, termio.dump(f), part.get("dom"), part.get("qdoms"), symbol_order(f))
            res.outcome("%s:%s" % (name, label))
            if label.startswith("rewritten") or label in ("value", "shape", "symbol"):
                nontrivial = True
                res.count("applications_rewritten")
                if label.startswith("rewritten"):
                    res.sample({"part": pname, "proc": name, "term": termio.dump(f)}, limit=1)
            if fail is None:
                continue
            # the failing case is serialised, re-run and minimised in a fresh environment
            # before it is reported (DESIGN 5): whatever an earlier failing call may have left
            # behind in the shard's shared environment is another property's business (C15)
            # full minimisation is spent on the first MINIMISE_CAP failures of a class (procedure,
            # failure kind, root operator of the input) per shard; the rest are only counted
            key = (name, fail[0], f.node_type())
            budget[key] = budget.get(key, 0) + 1
            if budget[key] > MINIMISE_CAP:
                res.count("violations_not_minimised")
                res.outcome("%s:%s (more of a reported class, not minimised)" % (name, fail[0]))
                continue
            order = symbol_order(f)
            m3 = minimise_fresh(name, termio.dump(f), part.get("dom"), part.get("qdoms"), order)
            if m3 is None:
                res.outcome("%s:not-reproduced-in-fresh-environment" % name)
                res.notes.append("%s(%s) failed (%s) only in the shared shard environment"
                                 % (name, _sh(f), fail[0]))
                continue
            sg, sub_json, r = m3
            res.violation(pname, sg, "%s: %s(%s): %s" % (pname, name, termio.short(sub_json, 200), r[1]),
                          {"part": pname, "proc": name, "term": sub_json, "symbols": order,
                           "found_in": termio.dump(f), "dom": _dom_json(part.get("dom"))})
        if nontrivial:
            res.count("nontrivial")
    return check


# The same enumeration as core.sweep.run_shard (same set of applications, same running index,
# hence the same sharding and the same --estimate), but the last level is generated directly
# from "which argument positions take a term of the newest level" instead of filtering the
# full Cartesian product in every shard.

_PARTS = []


def _applications(profile, part, lv):
    """yield (operator, argument tuple) of the last level, in a fixed order"""
    depth = part["depth"]
    pools, old = {}, {}
    for i, L in enumerate(lv):
        for s_ in sorted(L, key=repr):
            pools.setdefault(s_, []).extend(L[s_])
            if i < len(lv) - 1 or depth == 1:
                old.setdefault(s_, []).extend(L[s_])
    new = {s_: list(ns) for s_, ns in lv[-1].items()} if depth > 1 else {}
    top = part.get("top_ops")
    mx = part.get("max_new")
    for o in profile.ops:
        if top is not None and not top(o):
            continue
        n = len(o.args)
        if depth == 1:
            lists = [pools.get(s_) for s_ in o.args]
            if any(not l for l in lists):
                continue
            for tup in product(*lists):
                yield o, tup
            continue
        for mask in range(1, 1 << n):
            k = bin(mask).count("1")
            if mx is not None and k > mx:
                continue
            lists = [(new if (mask >> i) & 1 else old).get(s_) for i, s_ in enumerate(o.args)]
            if any(not l for l in lists):
                continue
            for tup in product(*lists):
                yield o, tup


def _run_shard(args):
    pi, idx, nshards, seed = args
    part = _PARTS[pi]
    res = Result()
    env = Environment()
    push_env(env)
    t0 = time.process_time()
    try:
        profile = part["profile"](env)
        depth = part["depth"]
        check = make(env, profile, res, part)
        lv = _levels_below(profile, max(depth - 1, 0), part.get("mid_ops"))
        seen = set()
        counter = 0
        for L in lv:
            for s_ in sorted(L, key=repr):
                for n in L[s_]:
                    seen.add(n)
                    if (counter + seed) % nshards == idx:
                        res.count("evaluations")
                        check(n)
                    counter += 1
        if depth >= 1:
            m = profile.m
            for o, tup in _applications(profile, part, lv):
                counter += 1
                if (counter + seed) % nshards != idx:
                    continue
                try:
                    n = o.build(m, *tup)
                except Exception:
                    res.count("constructor_refused")
                    continue
                if n in seen:
                    res.count("duplicates")
                    continue
                seen.add(n)
                res.count("evaluations")
                check(n)
    finally:
        pop_env()
    res.count("cpu_ms:" + part["name"], int(1000 * (time.process_time() - t0)))
    return res


def _sweep(ctx, parts_):
    del _PARTS[:]
    _PARTS.extend(parts_)
    shards = []
    for pi, part in enumerate(parts_):
        if getattr(ctx, "parts", None) and part["name"] not in ctx.parts:
            continue
        n = part.get("shards", 16)
        for i in range(n):
            shards.append((pi, i, n, ctx.seed))
    ctx.rng.shuffle(shards)
    ctx.pmap(_run_shard, shards)


# =========================================================================================
# profiles (own alphabets; the shared profiles are left alone)

def _atom(p, name):
    """the atom alphabet: Boolean symbols, LIA / LRA / BV relations, UF predicates, a theory
    ITE inside a relation, a quantifier inside a predicate argument, other theories"""
    m = p.m
    if name in ("a", "b", "c", "d", "FV0", "FV1", "FV2"):     # FVn: user symbols named like the library's fresh ones
        return p.sym(name, BOOL)
    if name in ("Ea.a<->FV0", "Aa.a|FV1"):
        a = p.sym("a", BOOL)
        return (m.Exists([a], m.Iff(a, p.sym("FV0", BOOL))) if name.startswith("E")
                else m.ForAll([a], m.Or(a, p.sym("FV1", BOOL))))
    if name == "T":
        return m.TRUE()
    if name == "F":
        return m.FALSE()
    if name in ("Eb.a&b", "Ab.a|b", "Ea.a&b"):
        # not atoms: quantified skeleton fragments used as leaves, so that one quantified node occurs
        # both below a quantifier and at another position of the same (hash-consed) formula
        a, b = p.sym("a", BOOL), p.sym("b", BOOL)
        return {"Eb.a&b": m.Exists([b], m.And(a, b)), "Ab.a|b": m.ForAll([b], m.Or(a, b)),
                "Ea.a&b": m.Exists([a], m.And(a, b))}[name]
    x, y = p.sym("x", INT), p.sym("y", INT)
    if name == "x<=y":
        return m.LE(x, y)
    if name == "x=0":
        return m.Equals(x, m.Int(0))
    if name == "y<x+1":
        return m.LT(y, m.Plus(x, m.Int(1)))
    if name == "ite(a,x,y)<=0":
        return m.LE(m.Ite(p.sym("a", BOOL), x, y), m.Int(0))
    if name == "p(x)":
        return m.Function(p.sym("p", ("Fun", BOOL, (INT,))), [x])
    u, v = p.sym("u", B1), p.sym("v", B1)
    if name == "u=v":
        return m.Equals(u, v)
    if name == "u<v":
        return m.BVULT(u, v)
    if name == "q(u)":
        return m.Function(p.sym("q", ("Fun", BOOL, (B1,))), [u])
    w = p.sym("w", B2)
    if name == "w<2":
        return m.BVULT(w, m.BV(2, 2))
    if name == "w<=s1":
        return m.BVSLE(w, m.BV(1, 2))
    if name == "w=z":
        return m.Equals(w, p.sym("z", B2))
    r = p.sym("r", ("Fun", BOOL, (BOOL,)))
    if name == "r(b)":
        return m.Function(r, [p.sym("b", BOOL)])
    if name == "r(Ea.a&b)":
        a, b = p.sym("a", BOOL), p.sym("b", BOOL)
        return m.Function(r, [m.Exists([a], m.And(a, b))])
    if name == "s<=t":
        return m.LE(p.sym("s", REAL), p.sym("t", REAL))
    if name == "s=1/2":
        return m.Equals(p.sym("s", REAL), m.Real(Fraction(1, 2)))
    if name == "contains":
        return m.StrContains(p.sym("S", STRING), p.sym("R", STRING))
    if name == "S=R":
        return m.Equals(p.sym("S", STRING), p.sym("R", STRING))
    if name == "A[i]":
        return m.Select(p.sym("A", ("Array", INT, BOOL)), x)
    if name == "M=N":
        AII = ("Array", B1, B1)
        return m.Equals(p.sym("M", AII), p.sym("N", AII))
    raise ValueError(name)


_BINDERS = {"a": [("a", BOOL)], "b": [("b", BOOL)], "ab": [("a", BOOL), ("b", BOOL)],
            "ba": [("b", BOOL), ("a", BOOL)],
            "u": [("u", B1)], "v": [("v", B1)], "uv": [("u", B1), ("v", B1)], "w": [("w", B2)],
            "au": [("a", BOOL), ("u", B1)], "uw": [("u", B1), ("w", B2)],
            "x": [("x", INT)], "y": [("y", INT)], "xy": [("x", INT), ("y", INT)],
            "ax": [("a", BOOL), ("x", INT)],
            "abc": [("a", BOOL), ("b", BOOL), ("c", BOOL)], "abcd": [("a", BOOL), ("b", BOOL), ("c", BOOL), ("d", BOOL)],
            "uvw": [("u", B1), ("v", B1), ("w", B2)]}


def skeleton(atoms, binders=(), ops=("not", "and", "or", "implies", "iff", "bite"), nary3=False):
    def mk(env):
        p = Profile("c10", env)
        for a in atoms:
            p.leaf(BOOL, _atom(p, a))
        if "not" in ops:
            p.op("not", [BOOL], BOOL, lambda m, a: m.Not(a))
        for nm in ("and", "or", "implies", "iff"):
            if nm in ops:
                p.op(nm, [BOOL, BOOL], BOOL,
                     (lambda nm: lambda m, a, b: getattr(m, nm.capitalize())(a, b))(nm))
        if "bite" in ops:
            p.op("bite", [BOOL, BOOL, BOOL], BOOL, lambda m, a, b, c: m.Ite(a, b, c))
        if nary3:
            p.op("and3", [BOOL, BOOL, BOOL], BOOL, lambda m, a, b, c: m.And(a, b, c))
            p.op("or3", [BOOL, BOOL, BOOL], BOOL, lambda m, a, b, c: m.Or(a, b, c))
        for b in binders:
            vs = [p.sym(n, s) for n, s in _BINDERS[b]]
            p.op("forall_" + b, [BOOL], BOOL, (lambda vs: lambda m, f: m.ForAll(vs, f))(vs))
            p.op("exists_" + b, [BOOL], BOOL, (lambda vs: lambda m, f: m.Exists(vs, f))(vs))
        return p
    return mk


def arith(sort, nsyms=2, consts=(2,), nary3=False, minus_const=True):
    def mk(env):
        p = Profile("c10-arith", env)
        m = p.m
        names = (["x", "y", "z"] if sort == INT else ["s", "t", "o"])[:nsyms]
        p.leaf(sort, *[p.sym(n, sort) for n in names])
        p.leaf(sort, *[(m.Int(c) if sort == INT else m.Real(c)) for c in consts])
        p.op("plus", [sort, sort], sort, lambda m, a, b: m.Plus(a, b))
        p.op("minus", [sort, sort], sort, lambda m, a, b: m.Minus(a, b))
        p.op("times", [sort, sort], sort, lambda m, a, b: m.Times(a, b))
        if nary3:
            p.op("plus3", [sort, sort, sort], sort, lambda m, a, b, c: m.Plus(a, b, c))
            p.op("times3", [sort, sort, sort], sort, lambda m, a, b, c: m.Times(a, b, c))
        return p
    return mk


def arith_in_formula(env):
    """products of sums below relations, connectives, a theory ITE and quantifiers"""
    p = Profile("c10-arith-formula", env)
    m = p.m
    x, y, a = p.sym("x", INT), p.sym("y", INT), p.sym("a", BOOL)
    one, two = m.Int(1), m.Int(2)
    p.leaf(INT, x, m.Int(0), m.Times(m.Plus(x, one), y), m.Times(m.Minus(x, y), m.Plus(x, two)),
           m.Times(x, m.Times(y, m.Plus(x, one))), m.Minus(x, m.Times(two, m.Minus(y, one))),
           m.Times(m.Ite(a, m.Plus(x, one), y), m.Plus(y, two)))
    p.leaf(BOOL, a)
    p.op("le", [INT, INT], BOOL, lambda m, s, t: m.LE(s, t))
    p.op("eq", [INT, INT], BOOL, lambda m, s, t: m.Equals(s, t))
    p.op("not", [BOOL], BOOL, lambda m, s: m.Not(s))
    p.op("and", [BOOL, BOOL], BOOL, lambda m, s, t: m.And(s, t))
    p.op("forall_x", [BOOL], BOOL, lambda m, s: m.ForAll([x], s))
    p.op("exists_y", [BOOL], BOOL, lambda m, s: m.Exists([y], s))
    return p


def toplevel(theory, nsyms=2):
    """conjunct candidates for propagate_toplevel: every ordered equality between the
    symbols and constants of the theory (x=c, c=x, x=y, c=c', x=x), and other conjuncts that
    use the same symbols (relation, negated equality, disjunction, quantified formulas
    binding one of the symbols)"""
    def mk(env):
        p = Profile("c10-toplevel", env)
        m = p.m
        if theory == "int":
            vs = [p.sym(n, INT) for n in ["x", "y", "z"][:nsyms]]
            cs = [m.Int(0), m.Int(1)]
            rel = m.LE
        elif theory == "real":
            vs = [p.sym(n, REAL) for n in ["s", "t", "o"][:nsyms]]
            cs = [m.Real(0), m.Real(Fraction(1, 2))]
            rel = m.LE
        elif theory == "str":
            vs = [p.sym(n, STRING) for n in ["s1", "s2", "s3"][:nsyms]]
            cs = [m.String("a"), m.String("b")]
            rel = m.StrPrefixOf
        elif theory == "bv1":
            vs = [p.sym(n, B1) for n in ["u", "v", "g"][:nsyms]]
            cs = [m.BV(0, 1), m.BV(1, 1)]
            rel = m.BVULT
        else:
            vs = [p.sym(n, B2) for n in ["w", "z", "h"][:nsyms]]
            cs = [m.BV(1, 2), m.BV(2, 2)]
            rel = m.BVULE
        ts = vs + cs
        for s in ts:
            for t in ts:
                if s is t and s not in (vs[0], cs[0]):
                    continue
                p.leaf(BOOL, m.Equals(s, t))
        x, y = vs[0], vs[1]
        b = p.sym("b", BOOL)
        p.leaf(BOOL, b, rel(x, y), m.Not(m.Equals(y, cs[1])),
               m.Or(m.Equals(x, cs[1]), rel(y, cs[0])),
               m.Exists([x], m.Not(m.Equals(x, y))), m.ForAll([y], m.Or(rel(x, y), b)),
               # quantifiers that are reachable only through an ITE (Boolean branch, term-level condition)
               m.Ite(b, m.Exists([x], m.Not(m.Equals(x, y))), rel(x, y)),
               m.Equals(m.Ite(m.ForAll([y], rel(x, y)), x, y), cs[0]))
        p.op("and", [BOOL, BOOL], BOOL, lambda m, s, t: m.And(s, t))
        p.op("and3", [BOOL, BOOL, BOOL], BOOL, lambda m, s, t, r: m.And(s, t, r))
        return p
    return mk


# =========================================================================================
# parts

def _names(*ns):
    return lambda o: o.name in ns


def _unary(o):
    return len(o.args) == 1


_BIN = ("and", "or", "implies", "iff")
_ALL_ATOMS = ("a", "x<=y", "y<x+1", "ite(a,x,y)<=0", "p(x)", "u<v", "q(u)", "w<=s1", "r(b)",
              "s<=t", "contains", "S=R", "A[i]", "M=N")


def parts(ctx):
    q = ctx.quick
    ps = []

    def A(name, profile, depth, shards, procs=BOOL_PROCS, **kw):
        d = dict(name=name, profile=profile, depth=depth, shards=shards, procs=procs)
        d.update(kw)
        ps.append(d)

    DI = {INT: (0, 1)}
    # ---- quantifier-free skeletons -----------------------------------------------------
    A("qf-sym-d2", skeleton(("a", "b", "c")), 2, 16, top_ops=_names("not", *_BIN))
    A("qf-sym-d2-ite", skeleton(("a", "b", "c")), 2, 16 if q else 64, top_ops=_names("bite"),
      max_new=1 if q else 2)
    A("qf-const-d2", skeleton(("a", "T", "F") if q else ("a", "b", "T", "F"),
                              ops=("not", "and", "or", "implies", "iff")), 2, 16)
    A("qf-mix-d2", skeleton(("x<=y", "p(x)", "w<2")), 2, 16, top_ops=_names("not", *_BIN),
      max_new=1 if q else None, dom=DI)
    A("qf-mix2-d2", skeleton(("u=v", "ite(a,x,y)<=0", "r(b)")), 2, 16,
      top_ops=_names("not", "iff", "bite"), max_new=1, dom=DI)
    A("qf-d3-and-iff", skeleton(("a", "b") if q else ("a", "b", "c"), ops=("not", "and", "iff")), 3,
      32 if q else 128, top_ops=_names("not", *_BIN), max_new=1)
    A("qf-d3-ite", skeleton(("a", "b"), ops=("not", "bite", "or", "implies", "iff")), 3, 32 if q else 96,
      mid_ops=_names("bite") if q else _names("not", "bite"),
      top_ops=_names("not", "implies") if q else _names("not", "or", "implies", "iff"), max_new=1)
    A("qf-d3-or-imp", skeleton(("a", "x=0") if q else ("a", "x=0", "p(x)"),
                               ops=("not", "or", "implies", "and", "iff")), 3, 32 if q else 128,
      mid_ops=_names("not", "or", "implies"), top_ops=_names("not", "and", "iff") if q else None,
      max_new=1, dom=DI)
    if not q:
        A("qf-sym-d3-full", skeleton(("a", "b"), ops=("not", "and", "iff", "or", "implies")), 3, 128,
          mid_ops=_names("not", "and", "iff"), top_ops=_names("implies", "iff"))
    # ---- arbitrary theory atoms under each connective and polarity ---------------------
    A("atoms-d2", skeleton(_ALL_ATOMS), 2, 16, top_ops=_names("not"), procs=("nnf", "prenex", "aig"),
      dom={INT: (0, 1), STRING: ("", "a", "ab"), REAL: (Fraction(0), Fraction(1, 2), Fraction(1))})
    # ---- quantified skeletons ----------------------------------------------------------
    A("q-bool-d2", skeleton(("a", "b", "c"), binders=("a", "b", "ab"), ops=("not",) + _BIN), 2, 16)
    # beyond the small sizes: blocks binding three and four variables; connectives with five arguments
    A("q-bool3-d2", skeleton(("a", "b", "c", "d"), binders=("abc", "abcd"), ops=("not", "and", "or", "iff")), 2, 16,
      top_ops=lambda o: "_" in o.name)
    A("q-bv3-d2", skeleton(("u=v", "w<2", "a"), binders=("uvw",), ops=("not", "and", "or")), 2, 8,
      top_ops=lambda o: "_" in o.name)
    A("nary5-d1", lambda e: P.nary5mix_profile(e, compound=True, natoms=5 if q else None), 1, 32)
    A("nary5-quant-d1", lambda e: P.nary5mix_profile(e, natoms=4 if q else None), 1, 32, procs=("nnf", "prenex", "aig", "conj", "disj"),
      dom={INT: (0, 1)})
    A("q-bool-d2-ite", skeleton(("a", "b"), binders=("a", "b")), 2, 16, top_ops=_names("bite"),
      max_new=1 if q else None)
    A("q-bool-d3", skeleton(("a", "b"), binders=("a", "b", "ba"), ops=("not",) + _BIN), 3,
      48 if q else 128,
      mid_ops=_names("not", "and", "forall_a", "exists_a", "exists_b") if q else
      _names("not", "and", "iff", "forall_a", "exists_a", "exists_b", "forall_ba"), max_new=1)
    A("q-bool-d3-or", skeleton(("a", "b"), binders=("a", "b"), ops=("not",) + _BIN), 3,
      32 if q else 128,
      mid_ops=_names("not", "or", "forall_b", "exists_a") if q else
      _names("not", "or", "implies", "forall_b", "exists_a", "forall_a"), max_new=1)
    A("q-shared-d2", skeleton(("a", "Eb.a&b", "Ab.a|b") + (() if q else ("Ea.a&b", "b")), binders=("a", "b"),
                              ops=("not", "and", "or", "iff")), 2, 16, max_new=1 if q else None)
    A("q-freshnames-d2", skeleton(("a", "FV0", "FV1", "Ea.a<->FV0", "Aa.a|FV1"), binders=("a",),
                                  ops=("not", "and", "or", "iff")), 2, 16, max_new=1, fresh_env=True)
    A("q-bv-d2", skeleton(("a", "u=v", "w<2"), binders=("u", "uv", "w", "au"), ops=("not",) + _BIN), 2,
      32, max_new=1 if q else None)
    A("q-bv-d3", skeleton(("u<v", "w=z"), binders=("u", "v", "w", "uw"), ops=("not",) + _BIN), 3,
      32 if q else 128, mid_ops=_names("not", "and", "implies", "forall_u", "exists_u", "exists_w", "forall_uw"),
      top_ops=_unary if q else (lambda o: _unary(o) or o.name in ("and", "iff")), max_new=1)
    A("q-int-d2", skeleton(("x<=y", "x=0", "a"), binders=("x", "xy", "ax"), ops=("not",) + _BIN), 2,
      32, max_new=1 if q else None, dom={INT: (-1, 0, 1)}, qdoms=QDOMS)
    A("q-uf-d2", skeleton(("p(x)", "q(u)", "r(b)"), binders=("x", "u", "b"), ops=("not", "and", "or", "iff")),
      2, 16, max_new=1 if q else None, dom=DI, qdoms=QDOMS)
    A("q-nonbool-pos-d2", skeleton(("a", "r(Ea.a&b)", "b"), binders=("a", "b"), ops=("not", "and", "or", "iff")),
      2, 16, max_new=1 if q else None)
    # ---- products over sums -----------------------------------------------------------
    DT = {INT: (-2, 0, 1, 3), REAL: (Fraction(-2), Fraction(0), Fraction(1, 2), Fraction(3))}
    A("times-int-d3", arith(INT, nsyms=1 if q else 2), 3, 32 if q else 256, procs=("times",), max_new=1, dom=DT,
      top_ops=_names("times", "minus") if q else None)
    A("times-int-d2", arith(INT, nsyms=2, consts=(2, -1)), 2, 16, procs=("times",), dom=DT)
    A("times-real-d2", arith(REAL, nsyms=2, consts=(Fraction(1, 2),)), 2, 16, procs=("times",), dom=DT)
    A("times-nary-d2", arith(INT, nsyms=2, nary3=True), 2, 16 if q else 64, procs=("times",),
      top_ops=_names("plus3", "times3"), max_new=1 if q else 2, dom=DT)
    # subtraction of n-ary products (leading / inner -1 and other constants)
    A("times-minus-nary-int-d2", arith(INT, nsyms=2, consts=(-1, 2), nary3=True), 2, 16, procs=("times",),
      mid_ops=_names("times3", "times") if q else _names("times3", "times", "plus3"), top_ops=_names("minus"), dom=DT)
    A("times-minus-nary-real-d2", arith(REAL, nsyms=2, consts=(Fraction(-1), Fraction(1, 2)), nary3=True), 2, 16,
      procs=("times",), mid_ops=_names("times3"), top_ops=_names("minus"), dom=DT)
    A("times-formula-d3", arith_in_formula, 3, 16, procs=("times",),
      mid_ops=_names("le", "not", "forall_x") if q else _names("le", "eq", "not", "forall_x"),
      top_ops=_names("and", "not", "exists_y"),
      max_new=1, dom={INT: (-1, 0, 2)}, qdoms=QDOMS)
    # ---- and/or trees with shared sub-terms for the partitioners -------------------------
    A("partition-d3", skeleton(("a", "b") if q else ("a", "b", "c"), ops=("and", "or", "not"), nary3=True), 3,
      32 if q else 128, procs=("conj", "disj"), mid_ops=_names("and", "or"),
      top_ops=_names("and", "or", "not"), max_new=1)
    A("partition-nary-d2", skeleton(("a", "b", "c"), ops=("and", "or"), nary3=True), 2, 16 if q else 64,
      procs=("conj", "disj"), max_new=1 if q else 2)
    # ---- top-level equalities ------------------------------------------------------------
    PP = ("propagate", "propagate-nosimp")
    DP = {INT: (0, 1, 2), REAL: (Fraction(0), Fraction(1, 2), Fraction(1)), STRING: ("", "a", "b", "ab")}
    for th in ("int", "bv1", "bv2", "real", "str"):
        n3 = (not q) and th in ("int", "bv1")
        # all pairs and triples of conjunct candidates
        A("toplevel-%s-d1" % th, toplevel(th, 3 if n3 else 2), 1, 16 if q else 48, procs=PP, dom=DP, qdoms=QDOMS)
        # nested conjunctions: (c1 & c2) & c3 in both orders; thorough: (c1 & c2) & (c3 & c4)
        if th == "int" or not q:
            A("toplevel-%s-d2" % th, toplevel(th, 2), 2, 32 if q else 128, procs=PP, dom=DP, qdoms=QDOMS,
              mid_ops=_names("and"), top_ops=_names("and"),
              max_new=2 if (not q and th in ("int", "bv1")) else 1)
    return ps


def run(ctx):
    ctx.level = "exploration"
    ctx.rule = ("all (operator, argument tuple) applications of each part's profile up to the part's "
                "depth (skeleton connectives, Boolean ITE, quantifier binders over Bool/BV1/BV2/Int, "
                "arithmetic operators, n-ary and/or) over the part's atoms; each term is given to every "
                "procedure of the part; a (procedure, term) pair is non-trivial when the procedure "
                "returned something other than its input object; every result is evaluated under every "
                "interpretation of the input's free symbols over the finite pools (and every listed "
                "quantification domain when an Int/Real variable is bound) and its shape is decided by "
                "the check's own predicates")
    ctx.assumptions = ["reference semantics mc/core/refsem.py (SMT-LIB 2.6 theory definitions); Bool and BV "
                       "quantifiers are evaluated exactly",
                       "Int/Real quantifiers range over the explicit finite domains {0},{0,1},{-1,0,2}",
                       "value pools per part (dom): Int {0,1} / {-1,0,1} / {-2,0,1,3}, all BV values of "
                       "the width, all function tables over the pooled argument values",
                       "shape of TimesDistributor / partition results follows DESIGN.md C10 (the statement "
                       "itself only names the four normal-form shapes)"]
    ps = parts(ctx)
    ctx.coverage["parts"] = [{"name": p["name"], "depth": p["depth"], "procs": list(p["procs"])} for p in ps]
    _sweep(ctx, ps)


def replay(rec):
    env = Environment()
    push_env(env)
    try:
        case = rec["case"]
        f = build_case(env, case["term"], case.get("symbols"))
        name = case["proc"]
        label, fail = make_verdict(env, _dom_unjson(case.get("dom")), QDOMS)(name, f)
        if fail is None:
            return True, "%s(%s): %s; sort, symbols, value and shape are as stated" % (
                name, termio.short(case["term"]), label)
        return False, "%s(%s): %s: %s" % (name, termio.short(case["term"]), fail[0], fail[1])
    finally:
        pop_env()
