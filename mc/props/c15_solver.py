"""C15, solver part: a solver call that raises leaves the solver as if it had not been made.

(a) IncrementalTrackingSolver through the reference BruteSolver configured to refuse a marked
    formula / to answer unknown; (b) SmtLibSolver against the strict reference solver with an
    injected (error ...) reply.  After the failing call the same observation script is run on
    the solver and on a twin that never made the failing call.
"""
import itertools
from pysmt.environment import Environment, push_env, pop_env
from pysmt.logics import QF_UFBV
from ..core.refsolver import BruteSolver, NativeError
from ..core import strictsolver as SS

PREFIXES = [(), (("add", "a"),), (("add", "a"), ("push",), ("add", "b")), (("push",), ("push",), ("add", "a")),
            (("add", "a"), ("is_sat", "b")), (("add", "b"), ("solve",))]
# (solving under a refused non-literal assumption is not in the alphabet: that push/assert lives in
#  the concrete solver - here the harness' BruteSolver, a copy of Z3Solver._solve - not in code we can run)
FAILS = [("add", "bad"), ("is_sat", "bad"), ("is_valid", "bad"), ("is_unsat", "bad"),
         ("is_sat", "unk"), ("solve_lit_unk",), ("pop_too_far",)]


def _forms(env):
    m = env.formula_manager
    a, b, c = m.Symbol("a"), m.Symbol("b"), m.Symbol("c")
    return {"a": a, "b": b, "c": c, "bad": m.Or(a, c), "unk": m.And(b, c), "nbad": m.Not(m.Or(a, c))}


def _apply(solver, F, ev):
    k = ev[0]
    if k == "add":
        solver.add_assertion(F[ev[1]])
    elif k == "push":
        solver.push()
    elif k == "pop":
        solver.pop()
    elif k == "solve":
        return solver.solve()
    elif k == "is_sat":
        return solver.is_sat(F[ev[1]])
    elif k == "is_valid":
        return solver.is_valid(F[ev[1]])
    elif k == "is_unsat":
        return solver.is_unsat(F[ev[1]])
    elif k == "solve_nonlit":
        return solver.solve([F[ev[1]]])
    elif k == "solve_lit_unk":
        solver.unknown_on.add(F["c"])
        try:
            return solver.solve([F["c"]])
        finally:
            solver.unknown_on.discard(F["c"])
    elif k == "pop_too_far":
        solver.pop(5)       # one call, more levels than were pushed
    return None


def _names(F, fs):
    inv = {v: k for k, v in F.items()}
    return [inv.get(f, str(f)) for f in fs]


def observe_brute(solver, F, depth):
    obs = []

    def step(label, fn):
        try:
            obs.append((label, fn()))
        except NativeError as e:
            obs.append((label, "NATIVE-ERROR"))
        except Exception as e:
            obs.append((label, "exc:" + type(e).__name__))
    step("assertions", lambda: _names(F, solver.assertions))
    step("native", lambda: (_names(F, solver.native.live()), solver.native.depth()))
    step("solve", lambda: solver.solve())
    step("add", lambda: solver.add_assertion(F["b"]))
    step("assertions2", lambda: _names(F, solver.assertions))
    for i in range(depth):
        step("pop%d" % i, lambda: solver.pop())
        step("assertions-pop%d" % i, lambda: (_names(F, solver.assertions), solver.native.depth()))
    step("is_sat", lambda: solver.is_sat(F["a"]))
    step("assertions3", lambda: _names(F, solver.assertions))
    return obs


def brute_case(prefix, failing):
    results = []
    raised = False
    for with_fail in (False, True):
        env = Environment()
        push_env(env)
        try:
            F = _forms(env)
            solver = BruteSolver(env, raise_on=[F["bad"], F["nbad"]], unknown_on=[F["unk"]])
            depth = 0
            for ev in prefix:
                _apply(solver, F, ev)
                if ev[0] == "push":
                    depth += 1
            if with_fail:
                try:
                    _apply(solver, F, failing)
                except Exception:
                    raised = True
            results.append(observe_brute(solver, F, depth))
        finally:
            pop_env()
    return raised, results[0], results[1]


# ---- SmtLibSolver with an injected error reply ---------------------------------------------

SMT_PREFIXES = [(), (("add", "p"),), (("add", "p"), ("push",), ("add", "q")), (("add", "p"), ("solve",))]
SMT_FAILS = [("add", "q", "assert"), ("add", "q", "declare-fun"), ("is_sat", "q", "assert"), ("is_sat", "q", "check-sat"),
             ("solve", None, "check-sat"), ("push", None, "push"), ("is_valid", "q", "assert"),
             # natural refusals (nothing injected): a value asked for while no model is current or for an undeclared
             # symbol; more levels popped than were pushed
             ("get_value", "p", None), ("get_value", "q", None), ("pop_too_far", None, None)]


def smt_case(prefix, failing):
    from pysmt.smtlib.solver import SmtLibSolver
    results = []
    raised = False
    for with_fail in (False, True):
        env = Environment()
        push_env(env)
        SS.install()
        try:
            m = env.formula_manager
            F = {"p": m.Symbol("p"), "q": m.Symbol("q"), "r": m.Symbol("r")}
            solver = SmtLibSolver(["ref"], env, QF_UFBV, LOGICS=[QF_UFBV])
            srv = SS.VPopen.instances[-1].srv
            depth = 0
            for ev in prefix:
                if ev[0] == "add":
                    solver.add_assertion(F[ev[1]])
                elif ev[0] == "push":
                    solver.push()
                    depth += 1
                elif ev[0] == "solve":
                    solver.solve()
            if with_fail:
                srv.solver.fail_on = failing[2]
                try:
                    if failing[0] == "add":
                        solver.add_assertion(F[failing[1]])
                    elif failing[0] == "solve":
                        solver.solve()
                    elif failing[0] == "push":
                        solver.push()
                    elif failing[0] == "get_value":
                        solver.get_value(F[failing[1]])
                    elif failing[0] == "pop_too_far":
                        solver.pop(depth + 1)
                    else:
                        getattr(solver, failing[0])(F[failing[1]])
                except Exception:
                    raised = True
                srv.solver.fail_on = None
            nerr = len(srv.solver.errors)
            obs = []

            def step(label, fn):
                try:
                    obs.append((label, fn()))
                except Exception as e:
                    obs.append((label, "exc:" + type(e).__name__))
            step("solve", lambda: solver.solve())
            step("add q", lambda: solver.add_assertion(F["q"]))      # the symbol of the failed call is used again
            step("solve1", lambda: solver.solve())
            step("add r", lambda: solver.add_assertion(F["r"]))
            step("solve2", lambda: solver.solve())
            step("model", lambda: sorted((k.symbol_name(), str(v)) for k, v in solver.get_model()
                                          if k.symbol_name() in ("p", "r")))
            for i in range(depth):
                step("pop%d" % i, lambda: solver.pop())
                step("solve-pop%d" % i, lambda: solver.solve())
            step("is_sat", lambda: solver.is_sat(m.Not(F["r"])))
            step("depth", lambda: srv.solver.depth() - (1 if solver.pending_pop else 0))
            step("errors", lambda: len(srv.solver.errors) - nerr)
            results.append(obs)
        finally:
            pop_env()
    return raised, results[0], results[1]


def run(ctx):
    res = ctx.res
    for prefix, failing in itertools.product(PREFIXES, FAILS):
        res.count("evaluations")
        raised, twin, got = brute_case(prefix, failing)
        if not raised:
            res.outcome("solver:%s:did-not-fail" % failing[0])
            continue
        res.count("nontrivial")
        res.outcome("solver:%s:%s" % (failing[0], "ok" if twin == got else "differs"))
        if twin != got:
            first = next((a, b) for a, b in zip(twin, got) if a != b)
            res.violation("solver", "fault:solver.%s=>%s:differs" % (failing[0], first[0][0]),
                          "tracking solver after %s and the failing %s: %r, without the failing call %r"
                          % (list(prefix), failing, first[1], first[0]),
                          {"part": "solver", "kind": "brute", "prefix": [list(e) for e in prefix], "failing": list(failing)})
    for prefix, failing in itertools.product(SMT_PREFIXES, SMT_FAILS):
        res.count("evaluations")
        raised, twin, got = smt_case(prefix, failing)
        if not raised:
            res.outcome("smtlibsolver:%s:did-not-fail" % failing[0])
            continue
        res.count("nontrivial")
        res.outcome("smtlibsolver:%s:%s" % (failing[0], "ok" if twin == got else "differs"))
        if twin != got:
            first = next((a, b) for a, b in zip(twin, got) if a != b)
            res.violation("solver", "fault:smtlibsolver.%s@%s=>%s:differs" % (failing[0], failing[2], first[0][0]),
                          "SmtLibSolver after %s and %s failing (error reply to: %s): %r, without the failing call %r"
                          % (list(prefix), failing[0], failing[2], first[1], first[0]),
                          {"part": "solver", "kind": "smt", "prefix": [list(e) for e in prefix], "failing": list(failing)})


def replay(rec):
    c = rec["case"]
    prefix = tuple(tuple(e) for e in c["prefix"])
    failing = tuple(c["failing"])
    raised, twin, got = (brute_case if c["kind"] == "brute" else smt_case)(prefix, failing)
    if raised and twin != got:
        first = next((a, b) for a, b in zip(twin, got) if a != b)
        return False, "after %s and the failing %s: %r, without it %r" % (list(prefix), failing, first[1], first[0])
    return True, "the solver behaves as its twin after the failing call %s" % (failing,)
