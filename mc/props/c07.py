"""C07 - SMT-LIB export is well-formed and denotes the same thing as the formula.

Every formula of the profiles is exported four ways - term text by the tree and by the DAG
printer (to_smtlib), and a whole script by smtlibscript_from_formula(...).serialize in tree
and DAG form - and the text is read back by smtref, an independent strict SMT-LIB reader:
balanced, known commands, every sort and symbol declared exactly once before use,
well-sorted per the theory signatures; then its value under *every* interpretation (matched
by symbol name) must equal the value of the formula under the reference semantics.
"""
from fractions import Fraction
from io import StringIO
import pysmt.operators as op
from pysmt.environment import Environment, push_env, pop_env
from pysmt.smtlib.printers import to_smtlib
from pysmt.smtlib.script import smtlibscript_from_formula
import pysmt.logics
from pysmt.exceptions import NoLogicAvailableError
from ..core import profiles as P
from ..core import termio, smtref
from ..core.termgen import Profile, interps
from ..core.refsem import compile_term, free_symbols, Unconstrained, IllTyped, Unsupported
from ..core.termio import INT, REAL, BOOL, STRING, mk_type
from ..core.sig import term_sig, minimal_failing
from ..core.sweep_fast import sweep
from .c01 import QDOMS, _has_q

WEIRD = ["a b", "x;y", 'q"r', "#b", "1abc", ".def_0", "(", ")", "Int", ".def_1", "x'", "a,b", "{z}", "2x"]


def names_profile(env):
    """Boolean / Int structure over symbols whose names need quoting or clash with let names"""
    p = Profile("names", env)
    m = p.m
    bs = [p.sym(n, BOOL) for n in WEIRD[:8]]
    # .def_0 (Bool), .def_1 and .def_2 (Int): consecutive let names of the DAG printer are taken
    xs = [p.sym("Int!i", INT), p.sym(".def_1", INT), p.sym(".def_2", INT)]
    p.leaf(BOOL, *bs)
    p.leaf(INT, *xs)
    p.leaf(INT, m.Int(0))
    p.op("and", [BOOL, BOOL], BOOL, lambda m, a, b: m.And(a, b))
    p.op("or", [BOOL, BOOL], BOOL, lambda m, a, b: m.Or(a, b))
    p.op("not", [BOOL], BOOL, lambda m, a: m.Not(a))
    p.op("le", [INT, INT], BOOL, lambda m, a, b: m.LE(a, b))
    p.op("plus", [INT, INT], INT, lambda m, a, b: m.Plus(a, b))
    p.op("ite", [BOOL, INT, INT], INT, lambda m, c, a, b: m.Ite(c, a, b))
    # shared sub-terms force let-definitions in the DAG printer
    p.op("dup", [INT], BOOL, lambda m, a: m.Equals(m.Plus(a, a), m.Times(a, a)))
    p.op("forall_w", [BOOL], BOOL, lambda m, f: m.ForAll([bs[0], xs[0]], f))
    return p


def ascii_names_profile(env):
    """one Boolean symbol per printable ASCII character that is not a letter or digit: the character between two
    letters, and the character alone (| and backslash cannot be written in SMT-LIB symbols and are left out)"""
    p = Profile("ascii-names", env)
    m = p.m
    names = []
    for c in range(33, 127):
        ch = chr(c)
        if ch.isalnum() or ch in "|\\":
            continue
        names.append("n%sm" % ch)
        names.append(ch)
        names.append("%s1" % ch)
    names = [n for n in names if not smtref.undeclarable(n)]
    p.leaf(BOOL, p.sym("plain", BOOL))
    p.leaf(BOOL, *[p.sym(n, BOOL) for n in names])
    p.op("not", [BOOL], BOOL, lambda m, a: m.Not(a))
    plain = m.Symbol("plain")
    p.op("orp", [BOOL], BOOL, lambda m, a: m.Or(a, m.And(plain, a)))
    return p


def fnames_profile(env):
    """uninterpreted functions whose names are those of the DAG printer's let variables (functions and
    constants share one name space in SMT-LIB), applied below shared sub-terms"""
    p = Profile("fnames", env)
    m = p.m
    FII = ("Fun", INT, (INT,))
    f0, f1 = p.sym(".def_0", FII), p.sym(".def_1", FII)
    p.leaf(INT, p.sym("x", INT), m.Int(0))
    p.op("app0", [INT], INT, lambda m, a: m.Function(f0, [a]))
    p.op("app1", [INT], INT, lambda m, a: m.Function(f1, [a]))
    p.op("plus", [INT, INT], INT, lambda m, a, b: m.Plus(a, b))
    p.op("dup", [INT], BOOL, lambda m, a: m.Equals(m.Plus(a, a), m.Times(a, a)))
    return p


def letbinder_profile(env):
    """bound variables named like the DAG printer's let variables, used in bodies deep enough for the
    printer to introduce lets before the last use of the variable"""
    p = Profile("letbinder", env)
    m = p.m
    d0, a = p.sym(".def_0", BOOL), p.sym("a", BOOL)
    d1 = p.sym(".def_1", INT)
    p.leaf(BOOL, d0, a)
    p.leaf(INT, d1, m.Int(0))
    p.op("not", [BOOL], BOOL, lambda m, x: m.Not(x))
    p.op("and", [BOOL, BOOL], BOOL, lambda m, x, y: m.And(x, y))
    p.op("or", [BOOL, BOOL], BOOL, lambda m, x, y: m.Or(x, y))
    p.op("le", [INT, INT], BOOL, lambda m, x, y: m.LE(x, y))
    p.op("plus", [INT, INT], INT, lambda m, x, y: m.Plus(x, y))
    p.op("forall_d0", [BOOL], BOOL, lambda m, f: m.ForAll([d0], f))
    p.op("exists_d1", [BOOL], BOOL, lambda m, f: m.Exists([d1], f))
    p.op("forall_d0d1", [BOOL], BOOL, lambda m, f: m.ForAll([d0, d1], f))
    return p


def consts_profile(env):
    p = Profile("consts", env)
    m = p.m
    p.leaf(INT, p.sym("x", INT), m.Int(-3), m.Int(0), m.Int(10 ** 20 + 1), m.Int(-(10 ** 20)))
    p.leaf(REAL, p.sym("r", REAL), m.Real(Fraction(-1, 3)), m.Real(Fraction(5, 2)), m.Real(-2), m.Real(0),
           m.Real(Fraction(10 ** 20 + 1, 7)))
    p.leaf(STRING, p.sym("s", STRING), m.String('a"b'), m.String('""'), m.String("x y"), m.String(""), m.String("\\"))
    p.leaf(("BV", 4), p.sym("u", ("BV", 4)), m.BV(0, 4), m.BV(15, 4), m.BV(9, 4))
    p.leaf(("BV", 8), m.BV(255, 8), m.BV(16, 8))
    # wide constants, widths that are / are not multiples of 4
    for w_, vals in ((33, (5, 2 ** 32 + 1)), (36, (2 ** 35 + 9,)), (64, (2 ** 63,)), (65, (2 ** 64 + 1, 0))):
        p.leaf(("BV", w_), p.sym("w%d" % w_, ("BV", w_)), *[m.BV(v, w_) for v in vals])
        p.op("bveq%d" % w_, [("BV", w_), ("BV", w_)], BOOL, lambda m, a, b: m.Equals(a, b))
        p.op("bvadd%d" % w_, [("BV", w_), ("BV", w_)], ("BV", w_), lambda m, a, b: m.BVAdd(a, b))
    p.op("plus", [INT, INT], INT, lambda m, a, b: m.Plus(a, b))
    p.op("times", [INT, INT], INT, lambda m, a, b: m.Times(a, b))
    p.op("le", [INT, INT], BOOL, lambda m, a, b: m.LE(a, b))
    p.op("rplus", [REAL, REAL], REAL, lambda m, a, b: m.Plus(a, b))
    p.op("rminus", [REAL, REAL], REAL, lambda m, a, b: m.Minus(a, b))
    p.op("rdiv", [REAL, REAL], REAL, lambda m, a, b: m.Div(a, b))
    p.op("rlt", [REAL, REAL], BOOL, lambda m, a, b: m.LT(a, b))
    p.op("toreal", [INT], REAL, lambda m, a: m.ToReal(a))
    p.op("sconcat", [STRING, STRING], STRING, lambda m, a, b: m.StrConcat(a, b))
    p.op("seq", [STRING, STRING], BOOL, lambda m, a, b: m.Equals(a, b))
    p.op("slen", [STRING], INT, lambda m, a: m.StrLength(a))
    p.op("bveq4", [("BV", 4), ("BV", 4)], BOOL, lambda m, a, b: m.Equals(a, b))
    p.op("concat44", [("BV", 4), ("BV", 4)], ("BV", 8), lambda m, a, b: m.BVConcat(a, b))
    p.op("bveq8", [("BV", 8), ("BV", 8)], BOOL, lambda m, a, b: m.Equals(a, b))
    return p


def sorts_profile(env):
    """custom sorts of arity 0 and 1, uninterpreted functions over them, arrays indexed by them"""
    p = Profile("sorts", env)
    m = p.m
    S = ("Sort", "S", ())
    PI = ("Sort", "P", (INT,))
    PB = ("Sort", "P", (BOOL,))
    c, d = p.sym("c", S), p.sym("d", S)
    pi, pj = p.sym("pi", PI), p.sym("pj", PI)
    pb = p.sym("pb", PB)
    g = p.sym("g", ("Fun", S, (S,)))
    h = p.sym("h", ("Fun", INT, (PI, S)))
    A = p.sym("A", ("Array", S, INT))
    p.leaf(S, c, d)
    p.leaf(PI, pi, pj)
    p.leaf(PB, pb)
    p.leaf(("Array", S, INT), A, m.Array(mk_type(env, S), m.Int(0)))
    p.leaf(INT, p.sym("x", INT), m.Int(1))
    p.leaf(BOOL, p.sym("a", BOOL))
    p.op("g", [S], S, lambda m, a: m.Function(g, [a]))
    p.op("h", [PI, S], INT, lambda m, a, b: m.Function(h, [a, b]))
    p.op("seq", [S, S], BOOL, lambda m, a, b: m.Equals(a, b))
    p.op("peq", [PI, PI], BOOL, lambda m, a, b: m.Equals(a, b))
    p.op("pbeq", [PB, PB], BOOL, lambda m, a, b: m.Equals(a, b))
    p.op("sel", [("Array", S, INT), S], INT, lambda m, a, i: m.Select(a, i))
    p.op("sto", [("Array", S, INT), S, INT], ("Array", S, INT), lambda m, a, i, v: m.Store(a, i, v))
    p.op("le", [INT, INT], BOOL, lambda m, a, b: m.LE(a, b))
    p.op("and", [BOOL, BOOL], BOOL, lambda m, a, b: m.And(a, b))
    p.op("forall_c", [BOOL], BOOL, lambda m, f: m.ForAll([c], f))
    return p


# ---------------------------------------------------------------------------------------------

def context_for(f):
    """an smtref interpreter in which exactly the sorts and free symbols of f are declared
    (own traversal, nothing of pySMT's oracles)"""
    it = smtref.Interp()
    syms = free_symbols(f)
    sorts = {}

    def visit_sort(s):
        if isinstance(s, tuple):
            if s[0] == "Sort":
                sorts[s[1]] = len(s[2])
                for a in s[2]:
                    visit_sort(a)
            elif s[0] in ("Array",):
                visit_sort(s[1])
                visit_sort(s[2])
            elif s[0] == "Fun":
                visit_sort(s[1])
                for a in s[2]:
                    visit_sort(a)
    stack, seen = [f], set()
    while stack:
        n = stack.pop()
        if n in seen:
            continue
        seen.add(n)
        if n.is_symbol():
            visit_sort(termio.sort_of(n.symbol_type()))
        if n.is_quantifier():
            for v in n.quantifier_vars():
                visit_sort(termio.sort_of(v.symbol_type()))
        if n.is_array_value():
            visit_sort(termio.sort_of(n.array_value_index_type()))
        if n.is_function_application():
            visit_sort(termio.sort_of(n.function_name().symbol_type()))
        stack.extend(n.args())
    for nm, ar in sorts.items():
        it.levels[0]["sorts"][nm] = ar
    for nm, s in syms.items():
        if isinstance(s, tuple) and s[0] == "Fun":
            it.levels[0]["funs"][nm] = (tuple(s[2]), s[1])
        else:
            it.levels[0]["funs"][nm] = ((), s)
    return it, syms


def render(env, f, how):
    """-> (kind, text): kind 'term' (a bare term) or 'script'"""
    if how == "term-tree":
        return "term", to_smtlib(f, daggify=False)
    if how == "term-dag":
        return "term", to_smtlib(f, daggify=True)
    buf = StringIO()
    smtlibscript_from_formula(f).serialize(buf, daggify=(how == "script-dag"))
    return "script", buf.getvalue()


HOWS = ("term-tree", "term-dag", "script-tree", "script-dag")


def make_verdict(env, part, cmemo=None):
    cmemo = {} if cmemo is None else cmemo
    dom = part.get("dom")
    m = env.formula_manager

    def verdict(f):
        """None or (kind, msg)"""
        try:
            sf, ff = compile_term(f, cmemo)
        except (IllTyped, Unsupported):
            return None       # not in the reference fragment (e.g. pow): not judged
        syms = free_symbols(f)
        qd = QDOMS if _has_q(f) else None
        if qd is not None:
            # custom sorts need a quantification domain too
            cs = _custom_sorts(syms, f)
            qd2 = []
            for qq in qd:
                qq = dict(qq)
                for s in cs:
                    qq[s] = (0, 1)
                qd2.append(qq)
            qd = qd2
        for how in HOWS:
            target = f
            if how.startswith("script") and sf != BOOL:
                # only Boolean terms can be asserted: ship the term inside an equality
                k = m.Symbol("rt!k!%s" % termio.sort_str(sf), f.get_type())
                target = m.Equals(f, k)
            try:
                kind, text = render(env, target, how)
            except NoLogicAvailableError:
                continue      # nothing is exported: a clean refusal (logic selection is C13's business)
            except Exception as e:
                return ("exception", "%s raised %r" % (how, e))
            try:
                if kind == "term":
                    it, _ = context_for(target)
                    cmds = smtref.read_all("(assert %s)" % text)
                    if len(cmds) != 1 or len(cmds[0]) != 2:
                        raise smtref.SmtError("the term text is not a single term: %r" % text[:80])
                    ss, fs = it.elab(cmds[0][1], {})
                else:
                    it = smtref.run_script(text)
                    if len(it.assert_log) != 1:
                        raise smtref.SmtError("expected exactly one assertion")
                    ss, fs = BOOL, it.assert_log[0]
            except smtref.SmtError as e:
                return ("ill-formed", "%s output %r is not well-formed SMT-LIB: %s" % (how, text[:160], e))
            want_sort = sf if kind == "term" else BOOL
            if ss != want_sort:
                return ("sort", "%s output has sort %r, the formula has %r" % (how, ss, want_sort))
            tsyms = syms if target is f else free_symbols(target)
            tf = ff if target is f else compile_term(target, cmemo)[1]
            for I in interps(tsyms, dom, qd):
                try:
                    want = tf(I)
                except Unconstrained:
                    continue
                try:
                    got = fs(I)
                except Unconstrained:
                    return ("value", "%s output divides by zero under %r where the formula does not" % (how, I))
                except KeyError as e:
                    return ("ill-formed", "%s output uses %s which the formula does not declare" % (how, e))
                if got != want:
                    return ("value", "%s output %r evaluates to %r, the formula to %r under %r"
                            % (how, text[:160], got, want, I))
        return None
    return verdict


def _custom_sorts(syms, f):
    out = set()

    def vs(s):
        if isinstance(s, tuple):
            if s[0] == "Sort":
                out.add(s)
            for a in s[1:]:
                if isinstance(a, tuple):
                    if a and isinstance(a[0], str):
                        vs(a)
                    else:
                        for b in a:
                            vs(b)
    for s in syms.values():
        vs(s)
    stack, seen = [f], set()
    while stack:
        n = stack.pop()
        if n in seen:
            continue
        seen.add(n)
        if n.is_quantifier():
            for v in n.quantifier_vars():
                vs(termio.sort_of(v.symbol_type()))
        stack.extend(n.args())
    return out


def make(env, profile, res, part):
    verdict = make_verdict(env, part)

    def check(f):
        res.count("nontrivial" if f.args() else "leaves")
        res.outcome(op.op_to_str(f.node_type()))
        res.sample({"part": part["name"], "term": termio.dump(f), "smtlib": to_smtlib(f, daggify=True)[:200]}, limit=1)
        v = verdict(f)
        if v is None:
            return
        sub, r = minimal_failing(f, verdict)
        if r is None:
            sub, r = f, v
        # signature: root operator and its sort (child kinds would split one printer rule into dozens)
        sig = "export:%s[%s]:%s" % (op.op_to_str(sub.node_type()), termio.sort_str(termio.sort_of(sub.get_type())), r[0])
        res.violation(part["name"], sig,
                      "%s: export of %s: %s" % (part["name"], termio.short(termio.dump(sub)), r[1]),
                      {"part": part["name"], "term": termio.dump(sub)})
    return check


def _le2(o):
    return len(o.args) <= 2


def _nopow(o):
    return not o.name.startswith("pow")


def parts(ctx):
    q = ctx.quick
    ps = []
    A = ps.append
    mx = 1 if q else None
    A(dict(name="bool-d2", profile=lambda e: P.bool_profile(e, 2), depth=2, shards=8, max_new=1,
           mid_ops=_le2 if q else None))
    A(dict(name="lia-d2", profile=lambda e: P.lia_profile(e, consts=(-1, 0, 2), pow_=False, nsyms=1 if q else 2),
           depth=2, shards=16, mid_ops=_le2, top_ops=_le2, max_new=mx, dom={INT: (-2, 0, 1, 3)}))
    A(dict(name="lra-d2", profile=lambda e: P.lra_profile(e, pow_=False, nsyms=1 if q else 2,
                                                          consts=(Fraction(-1), Fraction(0), Fraction(1, 2))),
           depth=2, shards=16, mid_ops=_le2, top_ops=_le2, max_new=mx))
    A(dict(name="lira-d2", profile=P.lira_profile, depth=2, shards=16, mid_ops=_le2, top_ops=_le2, max_new=1))
    A(dict(name="bv12-d1", profile=lambda e: P.bv_profile(e, (1, 2)), depth=1, shards=4))
    bvtop = ("bvsub_2", "bvsle_2", "concat_2_1", "concat_1_2", "extract1_1_2", "rol1_2", "sext1_2", "bvite_2")
    A(dict(name="bv12-d2", profile=lambda e: P.bv_profile(e, (1, 2), nsyms=1), depth=2, shards=32, mid_ops=_le2,
           top_ops=(lambda o: o.name in bvtop) if q else _le2, max_new=1))
    A(dict(name="bv3-d1", profile=lambda e: P.bv_profile(e, (3,)), depth=1, shards=4))
    A(dict(name="str-d1", profile=lambda e: P.str_profile(e, strs=("", "a", 'a"b', "12", "a\\\\b", "\\", "caf\u00e9", "a\nb"), ints=(-1, 0, 1)), depth=1,
           shards=4, dom={INT: (-1, 0, 2), STRING: ("", "a", "ab")}))
    A(dict(name="str-d2", profile=lambda e: P.str_profile(e, strs=("", "ab"), ints=(-1, 0, 1)), depth=2, shards=16,
           max_new=1, dom={INT: (-1, 0, 2), STRING: ("", "a", "ab")},
           top_ops=(lambda o: o.name in ("strlen", "strconcat", "streq", "strsubstr", "strindexof", "inttostr")) if q else None))
    for nm, i, e_ in (("int-int", INT, INT), ("bv1-bool", ("BV", 1), BOOL)):
        A(dict(name="arr-%s-d2" % nm, profile=(lambda i, e_: lambda e: P.arr_profile(e, i, e_))(i, e_), depth=2,
               shards=8, max_new=1, dom={INT: (0, 1, 2)},
               top_ops=(lambda o: o.name in ("select", "arreq", "arrite")) if q else None))
    A(dict(name="mixed-d2", profile=lambda e: P.mixed_profile(e), depth=2, shards=32, max_new=1,
           dom={INT: (-1, 0, 2), STRING: ("", "a", "12")}))
    A(dict(name="uf-d2", profile=P.uf_profile, depth=2, shards=8, dom={INT: (0, 1, 2)}, max_new=mx))
    A(dict(name="quant-d2", profile=P.quant_profile, depth=2, shards=16, dom={INT: (0, 1)}, max_new=1))
    A(dict(name="names-d2", profile=names_profile, depth=2, shards=16, dom={INT: (0, 1)}, max_new=1))
    A(dict(name="ascii-names-d1", profile=ascii_names_profile, depth=1, shards=8))
    A(dict(name="nary5-d1", profile=P.nary5_profile, depth=1, shards=16, dom={INT: (-1, 0, 2)}))
    A(dict(name="bv33-d1", profile=lambda e: P.widebv_profile(e, 33), depth=1, shards=8, dom=P.widebv_dom(33)))
    A(dict(name="letbinder-d3", profile=letbinder_profile, depth=3, shards=16, dom={INT: (0, 1)},
           mid_ops=lambda o: o.name in ("not", "and", "or", "le", "plus"),
           top_ops=lambda o: o.name.startswith(("forall", "exists"))))
    A(dict(name="fnames-d3", profile=fnames_profile, depth=3, shards=8, dom={INT: (0, 1)},
           top_ops=lambda o: o.name == "dup"))
    A(dict(name="consts-d2", profile=consts_profile, depth=2, shards=8, max_new=1,
           dom={INT: (0, 3), REAL: (Fraction(0), Fraction(1, 2)), STRING: ("", 'a"'),
                ("BV", 33): (0, 5, 2 ** 32 + 1), ("BV", 36): (0, 2 ** 35 + 9), ("BV", 64): (1, 2 ** 63),
                ("BV", 65): (0, 2 ** 64 + 1)}))
    A(dict(name="sorts-d2", profile=sorts_profile, depth=2, shards=8, dom={INT: (0, 1)}))
    if not q:
        A(dict(name="names-d3", profile=names_profile, depth=3, shards=64, dom={INT: (0, 1)}, max_new=1,
               mid_ops=lambda o: o.name in ("and", "not", "le", "dup", "forall_w"),
               top_ops=lambda o: o.name in ("and", "not", "dup", "forall_w")))
        A(dict(name="quant-d3", profile=P.quant_profile, depth=3, shards=64, dom={INT: (0, 1)}, max_new=1,
               mid_ops=lambda o: o.name in ("and", "not", "le", "forall_a", "exists_u", "forall_x", "exists_ab")))
    return ps


def run(ctx):
    ctx.level = "exploration"
    ctx.rule = ("all (operator, argument tuple) applications of each profile up to the part's depth (one argument "
                "from the newest level in quick parts) x {term tree, term DAG, script tree, script DAG}; each text is "
                "read by the independent strict SMT-LIB reader and evaluated under every interpretation over the "
                "finite pools; non-trivial = the term has at least one operator")
    ctx.assumptions = ["mc/core/smtref.py is the reading of SMT-LIB 2.6 (accepted deviations listed in its docstring)",
                       "POW has no SMT-LIB meaning and is excluded; names containing | or backslash, reserved words and "
                       "predefined symbols are excluded as the statement says"]
    ps = parts(ctx)
    ctx.coverage["parts"] = [{"name": p["name"], "depth": p["depth"]} for p in ps]
    sweep(ctx, ps, make)
    if not getattr(ctx, "parts", None) or "multi-assert" in ctx.parts:
        ctx.pmap(run_multi_shard, [(i, 32, ctx.quick) for i in range(32)])
        ctx.coverage["parts"].append({"name": "multi-assert", "depth": 2})


# ---------------------------------------------------------------------------------------
# scripts with several assertions: one printer object serves all commands of a script

def _multi_pools(env):
    from ..core import termgen
    prof = names_profile(env)
    lv = termgen.levels(prof, 1)
    ints = [t for L in lv for t in L.get(INT, [])]
    bools = [t for L in lv for t in L.get(BOOL, [])]
    m = env.formula_manager
    dup = [o for o in prof.ops if o.name == "dup"][0]
    shared = [dup.build(m, a) for a in ints if not a.is_ite()]      # every one needs a let in DAG form
    first = shared + [b for b in bools if b.is_symbol()]
    second = bools + shared
    return first, second


def multi_verdict(env, fs, cmemo):
    """None or (kind, msg): the script  declare*; assert f1; ...; assert fn  in tree and DAG form"""
    import pysmt.smtlib.commands as smtcmd
    from pysmt.smtlib.script import SmtLibScript
    syms = {}
    for f in fs:
        syms.update(free_symbols(f))
    m = env.formula_manager
    hasq = any(_has_q(f) for f in fs)
    for daggify in (False, True):
        sc = SmtLibScript()
        sc.add(name=smtcmd.SET_LOGIC, args=[pysmt.logics.LIA if hasq else pysmt.logics.QF_LIA])
        for n in sorted(syms):
            sc.add(name=smtcmd.DECLARE_FUN, args=[m.get_symbol(n)])
        for f in fs:
            sc.add(name=smtcmd.ASSERT, args=[f])
        sc.add(name=smtcmd.CHECK_SAT, args=[])
        buf = StringIO()
        try:
            sc.serialize(buf, daggify=daggify)
        except Exception as e:
            return ("exception", "serialize(daggify=%s) raised %r" % (daggify, e))
        text = buf.getvalue()
        how = "script-dag" if daggify else "script-tree"
        try:
            it = smtref.run_script(text)
            if len(it.assert_log) != len(fs):
                raise smtref.SmtError("expected %d assertions" % len(fs))
        except smtref.SmtError as e:
            return ("ill-formed", "%s output %r is not well-formed SMT-LIB: %s" % (how, text[-200:], e))
        qd = QDOMS if hasq else None
        for k, f in enumerate(fs):
            ff = compile_term(f, cmemo)[1]
            got_f = it.assert_log[k]
            for I in interps(syms, None, qd):
                try:
                    want = ff(I)
                except Unconstrained:
                    continue
                try:
                    got = got_f(I)
                except KeyError as e:
                    return ("ill-formed", "%s: assertion %d uses %s which is not declared" % (how, k + 1, e))
                if got != want:
                    return ("value", "%s: assertion %d of %r evaluates to %r, the formula to %r under %r"
                            % (how, k + 1, text[-200:], got, want, I))
    return None


def run_multi_shard(args):
    idx, nsh, quick = args
    from ..core.runner import Result
    res = Result()
    env = Environment()
    push_env(env)
    try:
        first, second = _multi_pools(env)
        cm = {}
        n = 0
        for a in first:
            for b in second:
                n += 1
                if n % nsh != idx:
                    continue
                for fs in ((a, b), (b, a)) + (((a, b, a),) if not quick else ()):
                    res.count("evaluations")
                    res.count("nontrivial")
                    res.outcome("multi-assert:%d" % len(fs))
                    if n % 997 == 0:
                        res.sample({"part": "multi-assert", "terms": [termio.dump(f) for f in fs]}, limit=1)
                    v = multi_verdict(env, fs, cm)
                    if v is not None:
                        res.violation("multi-assert", "export:script(%d assertions):%s" % (len(fs), v[0]),
                                      "script of %s: %s" % ([termio.short(termio.dump(f)) for f in fs], v[1]),
                                      {"part": "multi-assert", "terms": [termio.dump(f) for f in fs]})
    finally:
        pop_env()
    return res


def replay_multi(rec):
    env = Environment()
    push_env(env)
    try:
        fs = tuple(termio.build(env, t) for t in rec["case"]["terms"])
        v = multi_verdict(env, fs, {})
        if v is None:
            return True, "the script of %d assertions is well-formed and each assertion denotes its formula" % len(fs)
        return False, "script of %d assertions: %s: %s" % (len(fs), v[0], v[1])
    finally:
        pop_env()


def replay(rec):
    if "terms" in rec["case"]:
        return replay_multi(rec)
    env = Environment()
    push_env(env)
    try:
        f = termio.build(env, rec["case"]["term"])
        v = make_verdict(env, {})(f)
        if v is None:
            return True, "export of %s is well-formed and denotes the formula" % termio.short(rec["case"]["term"])
        return False, "export of %s: %s: %s" % (termio.short(rec["case"]["term"]), v[0], v[1])
    finally:
        pop_env()
