"""C02 - model evaluation returns the exact value of any ground-evaluable formula.

For every quantifier-free, UF-free term of the profiles and *every* total assignment of
constants (from the finite pools) to its free symbols, EagerModel.get_value /
get_py_value / model[...] must return the constant that the reference semantics computes,
satisfies() must agree with that value for Boolean terms, and for every way of deleting
symbols from the assignment the completion rules of the statement must hold.
"""
from itertools import combinations
from fractions import Fraction
import pysmt.operators as op
from pysmt.environment import Environment, push_env, pop_env
from pysmt.solvers.eager import EagerModel
from ..core import profiles as P
from ..core import termio
from ..core.refsem import (compile_term, free_symbols, Unconstrained, IllTyped, Unsupported,
                           value_to_const, const_to_value)
from ..core.termgen import interps, sort_values
from ..core.termio import INT, REAL, BOOL, STRING, mk_type
from ..core.sig import term_sig, shrink
from ..core.sweep import sweep

DEFAULTS = {BOOL: False, INT: 0, REAL: 0}


def default_of(s):
    if s in DEFAULTS:
        return DEFAULTS[s]
    if isinstance(s, tuple) and s[0] == "BV":
        return 0
    return None   # no documented default: completion may raise


def make_verdict(env, part, cmemo=None, cache=None):
    cmemo = {} if cmemo is None else cmemo
    cache = {} if cache is None else cache
    dom = part.get("dom")
    partial = part.get("partial", False)
    mgr = env.formula_manager

    def const(sort, v):
        k = (sort, v)
        c = cache.get(k)
        if c is None:
            c = cache[k] = value_to_const(env, sort, v)
        return c

    def same(sort, res, want):
        """res: pySMT constant term; want: reference value"""
        try:
            s2, v2 = const_to_value(res)
        except Exception as e:
            return "returned %s which is not a constant of the reference semantics (%s)" % (res, e)
        if s2 != sort:
            return "returned a constant of sort %s, expected %s" % (termio.sort_str(s2), termio.sort_str(sort))
        if v2 != want:
            return "returned %r, expected %r" % (v2, want)
        return None

    def wrong_const(sort):
        """a constant of another sort: a malformed model, whose evaluation fails part-way"""
        if sort == INT:
            return mgr.Real(Fraction(1, 2))
        if sort == REAL:
            return mgr.TRUE()
        if sort == BOOL:
            return mgr.Int(0)
        if isinstance(sort, tuple) and sort[0] == "BV":
            return mgr.BV(0, sort[1] + 1)
        return mgr.Int(0) if sort != INT else None

    _hh = mgr.Symbol("hh!uf", mk_type(env, ("Fun", INT, (INT,))))
    _pp = mgr.Symbol("pp!uf", mk_type(env, ("Fun", BOOL, (BOOL, INT))))
    uf_queries = [mgr.Equals(mgr.Function(_hh, [mgr.Int(0)]), mgr.Int(0)),
                  mgr.Function(_pp, [mgr.TRUE(), mgr.Function(_hh, [mgr.Int(1)])])]

    def verdict(f):
        sf, ff = compile_term(f, cmemo)
        syms = free_symbols(f)
        names = sorted(syms)
        symn = {n: mgr.get_symbol(n) for n in names}
        if names and not f.is_symbol():
            # histories: an evaluation that fails part-way (malformed model) precedes the real ones; the
            # values below must not depend on it
            first = next(iter(interps(syms, dom)), None)
            if first is not None:
                for n0 in ((names[0], names[-1]) if not part.get("quick_prelude") else (names[-1],)):
                    bad = {symn[n]: const(syms[n], first[n]) for n in names}
                    bad[symn[n0]] = wrong_const(syms[n0])
                    try:
                        EagerModel(bad, env).get_value(f)
                    except Exception:
                        pass
        reused = 0
        for I in interps(syms, dom):
            try:
                want = ff(I)
            except Unconstrained:
                continue
            assign = {symn[n]: const(syms[n], I[n]) for n in names}
            # ---- one model object asked about other formulas first (formulas with an uninterpreted function, which
            # ---- the model cannot evaluate; the same formula without completion): its answer for f must not change
            if reused < 2:
                reused += 1
                mdl = EagerModel(assign, env)
                for q in uf_queries:
                    for kw in ({}, {"model_completion": False}):
                        try:
                            mdl.get_value(q, **kw)
                        except Exception:
                            pass
                try:
                    mdl.satisfies(uf_queries[0])
                except Exception:
                    pass
                try:
                    r = mdl.get_value(f)
                except Exception as e:
                    return ("reuse", "get_value raised %r under %r on a model object that had been asked about %s before"
                            % (e, I, uf_queries[0]))
                bad = same(sf, r, want)
                if bad:
                    return ("reuse", "on a model object asked about %s before: %s under %r" % (uf_queries[0], bad, I))
            # ---- total assignment
            for how in ("get_value", "getitem", "get_py_value", "nocompletion"):
                try:
                    model = EagerModel(assign, env)
                    if how == "get_value":
                        r = model.get_value(f)
                    elif how == "getitem":
                        r = model[f]
                    elif how == "nocompletion":
                        r = model.get_value(f, model_completion=False)
                    else:
                        pv = model.get_py_value(f)
                        r = model.get_value(f)
                        if sf[0] != "Array" and pv != r.constant_value():
                            return ("pyvalue", "get_py_value=%r but get_value=%s under %r" % (pv, r, I))
                        continue
                except Exception as e:
                    return ("exception", "%s raised %r under %r" % (how, e, I))
                bad = same(sf, r, want)
                if bad:
                    return ("value", "%s %s under %r" % (how, bad, I))
            if sf == BOOL:
                try:
                    sat = EagerModel(assign, env).satisfies(f)
                except Exception as e:
                    return ("exception", "satisfies raised %r under %r" % (e, I))
                if bool(sat) != bool(want):
                    return ("satisfies", "satisfies=%r but the value is %r under %r" % (sat, want, I))
            # ---- partial assignments
            if partial and names:
                for k in range(1, len(names) + 1):
                    for gone in combinations(names, k):
                        pa = {symn[n]: assign[symn[n]] for n in names if n not in gone}
                        # with completion: documented defaults
                        J = dict(I)
                        defined = True
                        for n in gone:
                            d = default_of(syms[n])
                            if d is None:
                                defined = False
                            J[n] = d
                        if defined:
                            try:
                                wantc = ff(J)
                            except Unconstrained:
                                wantc = None
                            if wantc is not None:
                                try:
                                    r = EagerModel(pa, env).get_value(f, model_completion=True)
                                except Exception as e:
                                    return ("completion", "completion of %s raised %r under %r" % (gone, e, I))
                                bad = same(sf, r, wantc)
                                if bad:
                                    return ("completion", "with %s completed by default: %s under %r" % (gone, bad, I))
                                if sf == BOOL:
                                    sat = EagerModel(pa, env).satisfies(f)
                                    if bool(sat) != bool(wantc):
                                        return ("completion", "satisfies=%r with %s completed by default, value %r under %r"
                                                % (sat, gone, wantc, I))
                        # without completion: raise, or a value valid for every completion
                        try:
                            r = EagerModel(pa, env).get_value(f, model_completion=False)
                        except Exception:
                            continue
                        for vals in _completions(syms, gone, dom):
                            K = dict(I)
                            K.update(vals)
                            try:
                                w2 = ff(K)
                            except Unconstrained:
                                continue
                            bad = same(sf, r, w2)
                            if bad:
                                return ("nocompletion", "without %s and without completion: %s for the completion %r of %r"
                                        % (gone, bad, vals, I))
        return None
    return verdict


def _completions(syms, gone, dom):
    from itertools import product
    pools = [sort_values(syms[n], dom) for n in gone]
    for vals in product(*pools):
        yield dict(zip(gone, vals))


def make(env, profile, res, part):
    part = dict(part, quick_prelude=part.get("quick_prelude", True))
    verdict = make_verdict(env, part)
    simp = env.simplifier

    def check(f):
        nsym = len(free_symbols(f))
        res.count("nontrivial" if nsym else "ground_terms")
        res.outcome("%s:%dsyms" % (op.op_to_str(f.node_type()), nsym))
        res.sample({"part": part["name"], "term": termio.dump(f)}, limit=1)
        v = verdict(f)
        if v is None:
            return
        sub, r = shrink(env, f, verdict, simp.simplify)
        if r is None:
            sub, r = f, v
        res.violation(part["name"], term_sig("model:" + r[0], sub, "wrong"),
                      "%s: model value of %s: %s" % (part["name"], termio.short(termio.dump(sub)), r[1]),
                      {"part": part["name"], "term": termio.dump(sub), "found_in": termio.dump(f),
                       "partial": bool(part.get("partial"))})
    return check


def _le2(o):
    return len(o.args) <= 2


def _names(*ns):
    return lambda o: o.name in ns


def parts(ctx):
    q = ctx.quick
    ps = []
    A = ps.append
    B2 = ("not", "and", "or", "implies", "iff")
    A(dict(name="bool-d2", profile=lambda e: P.bool_profile(e, 2), depth=2, shards=8,
           mid_ops=_names(*B2), top_ops=None, max_new=1, partial=True))
    A(dict(name="lia-d2", profile=lambda e: P.lia_profile(e, consts=(-1, 0, 2), nsyms=1 if q else 2), depth=2,
           shards=32, mid_ops=_le2, top_ops=_le2, dom={INT: (-2, -1, 0, 1, 3)}))
    A(dict(name="lra-d2", profile=lambda e: P.lra_profile(e, nsyms=1 if q else 2,
                                                          consts=(Fraction(-1), Fraction(0), Fraction(2), Fraction(1, 2))
                                                          if q else (Fraction(-1), Fraction(0), Fraction(1), Fraction(2), Fraction(1, 2))),
           depth=2, shards=32, mid_ops=_le2, top_ops=_le2))
    A(dict(name="lira-d2", profile=P.lira_profile, depth=2, shards=16, mid_ops=_le2, top_ops=_le2,
           max_new=1 if q else None))
    A(dict(name="arith-d1-partial", profile=lambda e: P.lira_profile(e), depth=1, shards=4, partial=True))
    # exhaustive operand sweep: op(u, v) under all assignments = all operand values of the width
    for w in ((1, 2, 3) if q else (1, 2, 3, 4)):
        A(dict(name="bv%d-d1" % w, profile=(lambda w: lambda e: P.bv_profile(e, (w,)))(w), depth=1,
               shards=4 if w < 4 else 16, partial=(w <= 2)))
    A(dict(name="bv1-2-d2", profile=lambda e: P.bv_profile(e, (1, 2), nsyms=1), depth=2, shards=48,
           mid_ops=_le2, top_ops=_le2, max_new=1))
    if not q:
        A(dict(name="bv3-d2", profile=lambda e: P.bv_profile(e, (3,), nsyms=1, consts=(0, 1, 5, 7)), depth=2,
               shards=64, mid_ops=_le2, top_ops=_le2, max_new=1))
    A(dict(name="str-d1", profile=lambda e: P.str_profile(e, strs=("", "a", "ab", "12", "-5", " 1", "1\u0663", "\u00b2")), depth=1,
           shards=16, dom={INT: (-2, -1, 0, 1, 2, 3)}))
    A(dict(name="str-d2", profile=lambda e: P.str_profile(e, strs=("", "ab"), ints=(-1, 0, 1)), depth=2,
           shards=32, max_new=1, dom={INT: (-1, 0, 2), STRING: ("", "ab", "12")} if q else
           {INT: (-1, 0, 1, 2), STRING: ("", "a", "ab", "12")}))
    for nm, i, e_ in (("int-int", INT, INT), ("bv1-bool", ("BV", 1), BOOL), ("bv2-bv2", ("BV", 2), ("BV", 2))):
        A(dict(name="arr-%s-d2" % nm, profile=(lambda i, e_: lambda e: P.arr_profile(e, i, e_))(i, e_),
               depth=2, shards=16, mid_ops=lambda o: o.name != "arrite",
               top_ops=lambda o: o.name != "store", max_new=1, dom={INT: (0, 1, 2)}))
        A(dict(name="arr-%s-d1-partial" % nm, profile=(lambda i, e_: lambda e: P.arr_profile(e, i, e_))(i, e_),
               depth=1, shards=4, partial=True, dom={INT: (0, 1, 2)}))
    # beyond the small sizes: widths 33 and 65 over a pool of boundary values; five-argument n-ary operators
    for w in (33, 65):
        A(dict(name="bv%d-d1" % w, profile=(lambda w: lambda e: P.widebv_profile(e, w))(w), depth=1, shards=8,
               dom=P.widebv_dom(w)))
    A(dict(name="nary5-d1", profile=P.nary5_profile, depth=1, shards=16,
           dom={INT: (-1, 0, 2), REAL: (Fraction(-1), Fraction(0), Fraction(1, 2))}))
    if not q:
        A(dict(name="bv5-d1", profile=lambda e: P.bv_profile(e, (5,)), depth=1, shards=64))
    A(dict(name="bigarr-d1", profile=P.bigarr_profile, depth=1, shards=16, top_ops=_names("select", "selectb", "eqa", "eqab"),
           dom={INT: (0, 5, 11, 12)}))
    # cross-theory terms (children of another theory below every operator)
    A(dict(name="mixed-d2", profile=lambda e: P.mixed_profile(e, uf=False), depth=2, shards=32, max_new=1,
           dom={INT: (-1, 0, 2), STRING: ("", "a", "12")}))
    return ps


def run(ctx):
    ctx.level = "exploration"
    ctx.rule = ("all quantifier-free UF-free terms of each profile up to the part's depth x all total "
                "assignments of pool constants to their free symbols (for op(u,v) at depth 1 this is every "
                "operand value of the width) x get_value/[]/get_py_value/no-completion/satisfies; parts "
                "marked partial additionally delete every non-empty subset of symbols. A term is "
                "non-trivial when it has at least one free symbol (several assignments)")
    ctx.assumptions = ["reference semantics mc/core/refsem.py", "value pools as in C01",
                       "completion defaults taken from the statement: false, 0, zero bit-vector; other sorts may raise"]
    ps = parts(ctx)
    ctx.coverage["parts"] = [{"name": p["name"], "depth": p["depth"], "partial": bool(p.get("partial"))} for p in ps]
    sweep(ctx, ps, make)


def replay(rec):
    env = Environment()
    push_env(env)
    try:
        f = termio.build(env, rec["case"]["term"])
        v = make_verdict(env, {"partial": rec["case"].get("partial", False)})(f)
        if v is None:
            return True, "model evaluation of %s agrees with the reference" % termio.short(rec["case"]["term"])
        return False, "model evaluation of %s: %s: %s" % (termio.short(rec["case"]["term"]), v[0], v[1])
    finally:
        pop_env()
