"""C09 - printing then parsing gives the formula back (SMT-LIB and human-readable).

Three parts, each an exhaustive enumeration on the real printers and parsers:

 (i)   smtlib: every term of every profile (mc/core/profiles.py plus the own profiles below: awkward
       symbol names, custom sorts, binder orders) up to the part's depth x {tree, DAG} printer.  The
       script built by smtlibscript_from_formula is serialised, parsed back IN THE SAME ENVIRONMENT by
       SmtLibParser, and the asserted term must be the very same object.  Only a constant-array literal
       with assignments may come back as a chain of stores over the constant array (any order of the
       stores, same index/value pairs) - `same()` below; everything else is compared by identity.
       A non-Boolean term t is asserted as  t = w  (w a fresh symbol of the sort of t) and arg(0) of
       the parsed equality is compared.
 (ii)  script: ALL legal command sequences up to the tier's length over an alphabet of hand-written
       command texts (every command the parser has a table entry for, with small arguments):
       s1 = parse(t); t2 = serialize(s1) (tree and DAG); s2 = parse(t2); s2 must equal s1 command by
       command (names; arguments structurally, FNodes by identity, the fresh parameters of a
       define-fun up to renaming).  Legality is SMT-LIB's (declared before use and not twice, scoped by
       push/pop, forgotten by reset-assertions, pop within depth, set-logic first, nothing after
       exit); commands whose serialisation is documented as not implemented are counted.
 (iii) hr: every term of the same sweep that lies in the human-readable fragment:
       g = HRParser.parse(serialize(f)) must have the same sort, the same value under every
       interpretation (mc/core/refsem.py) and the same serialisation after flattening nested
       applications of And/Or/Plus/Times.  When g is f itself nothing is left to check.

Signatures:  smtlib:<root op>(<child kinds>|<name class>|<n> vars):<failure>[printer]
             hr:<root op>(...):<failure>          script:<command label>:<failure>[printer]
"""
import re
from fractions import Fraction
from io import StringIO
import pysmt.operators as op
from pysmt.environment import Environment, push_env, pop_env
from pysmt.fnode import FNode
from pysmt.exceptions import NoLogicAvailableError
from pysmt.smtlib.script import smtlibscript_from_formula
from pysmt.smtlib.parser import SmtLibParser
from pysmt.printers import HRSerializer
from pysmt.parsing import HRParser
from ..core import profiles as P
from ..core import termio
from ..core.refsem import compile_term, Unconstrained, IllTyped, Unsupported
from ..core.termgen import Profile, interps, count_interps
from ..core.termio import INT, REAL, BOOL, STRING, sort_of, mk_type
from ..core.sig import kind as child_kind, subterms_postorder
from ..core.smtref import needs_quoting, undeclarable
from ..core.sweep_fast import sweep
from ..core.runner import Result

QDOMS = [{INT: (0,), REAL: (Fraction(0),)},
         {INT: (0, 1), REAL: (Fraction(0), Fraction(1, 2))},
         {INT: (-1, 0, 2), REAL: (Fraction(-1), Fraction(0), Fraction(2))}]
TINY_DOM = {INT: (0, 1), REAL: (Fraction(0), Fraction(1, 2)), STRING: ("", "a")}
HR_CAP = 20000
WRAP = "c09w%d"

QUANT = (op.FORALL, op.EXISTS)
NARY = (op.AND, op.OR, op.PLUS, op.TIMES)


# ---------------------------------------------------------------------------------------
# names

def name_class(name):
    if "(" in name or ")" in name:
        return "paren"
    if name in ("Int", "Real", "Bool", "String", "Array", "BitVec"):
        return "sortname"
    if re.match(r"^\.def_\d+$", name):
        return "letname"
    if not needs_quoting(name):
        return "simple"
    for ch, c in ((" ", "space"), ("\t", "space"), (";", "semicolon"), ('"', "dquote"), ("#", "hash"),
                  ("'", "squote"), (":", "colon")):
        if ch in name:
            return c
    if name[0].isdigit():
        return "digit"
    return "quoted"


# SMT-LIB side: sort names are in another namespace than function names, so a function called Int is
# declarable (the property's exclusions are the names SMT-LIB cannot declare)
def smt_name_ok(name):
    return name in ("Int", "Real", "Bool") or not undeclarable(name)


# HR side, written from the property statement: identifiers [A-Za-z_][A-Za-z0-9_]* that are not words
# of the HR language, or names the printer must quote (not a simple symbol, or Int/Real/Bool) that
# contain neither ' nor backslash
HR_WORDS = frozenset(["False", "True", "xor", "bv2nat", "bvcomp", "ROR", "ROL", "ZEXT", "SEXT", "ToReal",
                      "Int", "Real", "Bool", "forall", "exists", "Array", "BV", "str", "int"])
_IDENT = re.compile(r"^[A-Za-z_][A-Za-z0-9_]*$")


def hr_name_ok(name):
    if "'" in name or "\\" in name or "\n" in name:
        return False
    if name in ("Int", "Real", "Bool"):
        return True            # printed quoted
    if needs_quoting(name):
        return True            # printed quoted
    return bool(_IDENT.match(name)) and name not in HR_WORDS


def hr_sort_ok(s):
    if s in (BOOL, INT, REAL, STRING):
        return True
    if s[0] == "BV":
        return True
    if s[0] == "Array":
        return hr_sort_ok(s[1]) and hr_sort_ok(s[2])
    if s[0] == "Fun":
        return hr_sort_ok(s[1]) and all(hr_sort_ok(x) for x in s[2])
    return False


def symbols_of(nodes):
    out = set()
    for n in nodes:
        t = n.node_type()
        if t == op.SYMBOL:
            out.add(n)
        elif t == op.FUNCTION:
            out.add(n.function_name())
        elif t in QUANT:
            out.update(n.quantifier_vars())
    return out


# ---------------------------------------------------------------------------------------
# part (i): SMT-LIB round trip

def has_literal(f, memo):
    """does f contain a constant-array literal with assignments (the only node allowed to change)"""
    for n in subterms_postorder(f):
        if n not in memo:
            memo[n] = (n.node_type() == op.ARRAY_VALUE and len(n.args()) > 1) or \
                any(memo[k] for k in n.args())
    return memo[f]


def same(f, g, memo):
    """g is f, except that below f a constant-array literal with assignments may correspond in g to a
    chain of stores (in any order) of the same index/value pairs over the same constant array"""
    stack = [(f, g)]
    while stack:
        a, b = stack.pop()
        if a is b:
            continue
        if not has_literal(a, memo):
            return False
        if a.node_type() == op.ARRAY_VALUE and len(a.args()) > 1:
            n = (len(a.args()) - 1) // 2
            pairs = []
            cur = b
            for _ in range(n):
                if cur.node_type() != op.ARRAY_STORE:
                    return False
                pairs.append((cur.arg(1), cur.arg(2)))
                cur = cur.arg(0)
            if cur.node_type() != op.ARRAY_VALUE or len(cur.args()) != 1:
                return False
            if cur.array_value_index_type() != a.array_value_index_type():
                return False
            stack.append((a.array_value_default(), cur.array_value_default()))
            want = a.array_value_assigned_values_map()
            got = {}
            for k, v in pairs:
                if k in got:
                    return False
                got[k] = v
            if set(got) != set(want):       # indices are constants: identity is equality
                return False
            for k in want:
                stack.append((want[k], got[k]))
            continue
        if a.node_type() != b.node_type() or len(a.args()) != len(b.args()):
            return False
        if a._content.payload != b._content.payload:
            return False
        stack.extend(zip(a.args(), b.args()))
    return True


class SmtRound(object):
    def __init__(self, env):
        self.env = env
        self.mgr = env.formula_manager
        self.lit = {}
        self.cmemo = {}
        self.wraps = {}
        self.fallbacks = 0

    def sort(self, f):
        return compile_term(f, self.cmemo)[0]

    def wrapper(self, s, k=0):
        """k = 0: the symbol a non-Boolean term is equated with; k > 0: canonical leaves for signatures"""
        w = self.wraps.get((s, k))
        if w is None:
            w = self.mgr.Symbol(WRAP % len(self.wraps), mk_type(self.env, s))
            self.wraps[(s, k)] = w
        return w

    def texts(self, f):
        """(wrapper symbol or None, tree text, dag text) of the script asserting f (or f = wrapper)"""
        try:
            s = self.sort(f)
        except (IllTyped, Unsupported):
            s = sort_of(self.env.stc.get_type(f))
        w = None
        target = f
        if s != BOOL:
            w = self.wrapper(s)
            target = self.mgr.Equals(f, w)
        try:
            script = smtlibscript_from_formula(target)
        except NoLogicAvailableError:
            # logic detection (C13's subject) knows no logic for the formula: name one explicitly
            self.fallbacks += 1
            script = smtlibscript_from_formula(target, logic="ALL")
        out = [w]
        for dag in (False, True):
            buf = StringIO()
            try:
                script.serialize(buf, daggify=dag)
                out.append(buf.getvalue())
            except Exception as e:
                out.append(e)
        return out

    def verdict1(self, f, w, text):
        """None, or (failure kind, message)"""
        if isinstance(text, Exception):
            return ("print-exception", "printing raised %r" % (text,))
        try:
            s2 = SmtLibParser(self.env).get_script(StringIO(text))
        except Exception as e:
            return ("parse-exception", "pySMT cannot parse its own output %r: %r" % (text, e))
        asserts = [c for c in s2.commands if c.name == "assert"]
        if len(asserts) != 1 or not isinstance(asserts[0].args[0], FNode):
            return ("shape", "the text %r is read back with %d assert commands" % (text, len(asserts)))
        g = asserts[0].args[0]
        if w is not None:
            if g.node_type() != op.EQUALS or g.arg(1) is not w:
                return ("identity", "text %r is read back as %s" % (text, _show(g)))
            g = g.arg(0)
        if same(f, g, self.lit):
            return None
        return ("identity", "text %r is read back as %s, a different object than %s"
                % (text, _show(g), _show(f)))

    def verdict(self, f):
        """None, or (failure kind incl. printer tag, message)"""
        try:
            w, tt, td = self.texts(f)
        except Exception as e:
            return ("print-exception", "building the script raised %r" % (e,))
        rt, rd = self.verdict1(f, w, tt), self.verdict1(f, w, td)
        if rt is None and rd is None:
            return None
        if rt is not None and rd is not None and rt[0] == rd[0]:
            return (rt[0], "tree: %s || dag: %s" % (rt[1], rd[1]))
        if rt is not None:
            return (rt[0] + "[tree]", rt[1])
        return (rd[0] + "[dag]", rd[1])


def _show(n):
    try:
        return termio.short(termio.dump(n))
    except Exception:
        return "<%s>" % op.op_to_str(n.node_type())


def canon_children(smt, sub, why, fails):
    """replace the children of the minimal failing term by canonical ones while the same failure persists
    (a symbol of the same sort; for a Boolean operator argument also its negation; for a numeric constant
    also 1), so that one root cause gives one or very few signatures"""
    mgr = smt.mgr
    if sub.node_type() in QUANT or sub.node_type() == op.ARRAY_VALUE:
        return sub, why
    for i in range(len(sub.args())):
        a = sub.arg(i)
        if a.node_type() == op.SYMBOL and a.symbol_name().startswith(WRAP[:-2]):
            continue
        try:
            s = smt.sort(a)
        except (IllTyped, Unsupported):
            continue
        w = smt.wrapper(s, i + 1)
        cands = []
        if not (a.node_type() == op.SYMBOL and name_class(a.symbol_name()) != "simple"):
            cands.append(w)
            if s == BOOL and len(a.args()) > 0:
                cands.append(mgr.Not(w))
        if a.is_int_constant():
            cands.append(mgr.Int(1))
        elif a.is_real_constant():
            cands.append(mgr.Real(1))
        for c in cands:
            if c is a:
                break
            args = list(sub.args())
            args[i] = c
            try:
                cand = mgr.create_node(node_type=sub.node_type(), args=tuple(args), payload=sub._content.payload)
            except Exception:
                continue
            x = fails(cand)
            if x and x[0] == why[0]:
                sub, why = cand, x
                break
    return sub, why


def term_sig(prefix, n, failure):
    t = n.node_type()
    if t == op.SYMBOL:
        inner = name_class(n.symbol_name())
    elif t in QUANT:
        return "%s:QUANTIFIER(%s vars):%s" % (prefix, "1" if len(n.quantifier_vars()) == 1 else "2+", failure)
    elif t == op.FUNCTION:
        inner = "name:" + name_class(n.function_name().symbol_name())
    else:
        inner = ",".join(child_kind(a) for a in n.args())
    return "%s:%s(%s):%s" % (prefix, op.op_to_str(t), inner, failure)


# ---------------------------------------------------------------------------------------
# part (iii): human-readable round trip

class HrRound(object):
    def __init__(self, env, part, res):
        self.env = env
        self.mgr = env.formula_manager
        self.res = res
        self.ser = HRSerializer(env)
        self.parser = HRParser(env)
        self.cmemo = {}
        self.fmemo = {}
        self.dom = part.get("dom")
        self.qdoms = part.get("qdoms") or QDOMS

    def in_fragment(self, f):
        nodes = subterms_postorder(f)
        for s in symbols_of(nodes):
            if not hr_name_ok(s.symbol_name()) or not hr_sort_ok(sort_of(s.symbol_type())):
                return False
        for n in nodes:
            t = n.node_type()
            if t == op.STR_CONSTANT and '"' in n.constant_value():
                return False
            if t == op.ARRAY_VALUE and not hr_sort_ok(sort_of(n.array_value_index_type())):
                return False
        return True

    def flat(self, f):
        """nested applications of one of And/Or/Plus/Times spliced into one application"""
        memo = self.fmemo
        for n in subterms_postorder(f):
            if n in memo:
                continue
            t = n.node_type()
            args = [memo[k] for k in n.args()]
            if t in NARY:
                out = []
                for k in args:
                    if k.node_type() == t:
                        out.extend(k.args())
                    else:
                        out.append(k)
                args = out
            if len(args) == len(n.args()) and all(a is b for a, b in zip(args, n.args())):
                memo[n] = n
            else:
                memo[n] = self.mgr.create_node(node_type=t, args=tuple(args), payload=n._content.payload)
        return memo[f]

    def verdict(self, f, info=None):
        try:
            text = self.ser.serialize(f)
        except Exception as e:
            return ("print-exception", "serialize raised %r" % (e,))
        try:
            g = self.parser.parse(text)
        except Exception as e:
            return ("parse-exception", "HRParser cannot parse the serialisation %r: %r" % (text, e))
        if g is f:
            if info is not None:
                info["hr"] = "identical"
            return None
        if info is not None:
            info["hr"] = "different-object"
        if not isinstance(g, FNode):
            return ("type", "%r is parsed as the non-formula %r" % (text, g))
        sf, ff = compile_term(f, self.cmemo)
        try:
            sg, fg = compile_term(g, self.cmemo)
        except (IllTyped, Unsupported) as e:
            return ("type", "%r is parsed as %s which is not well-typed: %s" % (text, _show(g), e))
        if sf != sg:
            return ("type", "%r of sort %s is parsed as %s of sort %s"
                    % (text, termio.sort_str(sf), _show(g), termio.sort_str(sg)))
        t1, t2 = self.ser.serialize(self.flat(f)), self.ser.serialize(self.flat(g))
        if t1 != t2:
            return ("text", "%r is parsed as %s whose serialisation %r differs in more than the grouping of "
                    "n-ary operators" % (text, _show(g), self.ser.serialize(g)))
        nodes = subterms_postorder(f) + subterms_postorder(g)
        S = {s.symbol_name(): sort_of(s.symbol_type()) for s in symbols_of(nodes)}
        hasq = any(n.node_type() in QUANT for n in nodes)
        qd = self.qdoms if hasq else None
        dom = self.dom
        if count_interps(S, dom, qd) > HR_CAP:
            dom = TINY_DOM
            self.res.count("hr_domain_shrunk")
            if count_interps(S, dom, qd) > HR_CAP:
                self.res.count("hr_sem_capped")
                return None
        try:
            for I in interps(S, dom, qd):
                self.res.count("interpretations")
                try:
                    vf = ff(I)
                except Unconstrained:
                    continue
                try:
                    vg = fg(I)
                except Unconstrained:
                    return ("value", "%r is parsed as %s which divides by zero under %r where the input "
                            "does not" % (text, _show(g), I))
                if vf != vg:
                    return ("value", "%r is parsed as %s: under %r the input is %r, the parsed formula %r"
                            % (text, _show(g), I, vf, vg))
        except Unsupported:
            self.res.count("hr_sem_unsupported")
        return None


# ---------------------------------------------------------------------------------------
# the per-term check of the sweep

def make(env, profile, res, part):
    smt = SmtRound(env)
    hr = HrRound(env, part, res)
    do_smt = part.get("smt", True)
    do_hr = part.get("hr", True)
    reported = set()
    cache = {}

    def smt_fails(n):
        r = cache.get(("s", n))
        if r is None:
            r = cache[("s", n)] = smt.verdict(n) or False
        return r

    def hr_fails(n):
        r = cache.get(("h", n))
        if r is None:
            r = cache[("h", n)] = (hr.verdict(n) if hr.in_fragment(n) else None) or False
        return r

    def report(mode, f, fails, r):
        sub, why = f, r
        for n in subterms_postorder(f):
            x = fails(n)
            if x:
                sub, why = n, x
                break
        if sub.node_type() in QUANT:
            # a binder is payload, not a sub-term: blame the bound symbol if it fails on its own
            for v in sub.quantifier_vars():
                x = fails(v)
                if x:
                    sub, why = v, x
                    break
        sub, why = canon_children(smt, sub, why, fails)
        sig = term_sig(mode, sub, why[0])
        if (sub, sig) in reported:
            res.count("violations_same_subterm")
            return
        reported.add((sub, sig))
        case = {"part": part["name"], "mode": mode, "term": termio.dump(sub)}
        if sub is not f:
            case["found_in"] = termio.dump(f)
        res.violation(part["name"], sig, "%s: %s(%s): %s" % (part["name"], mode, _show(sub), why[1]), case)

    def check(f):
        if len(cache) > 50000:
            cache.clear()
        nodes = subterms_postorder(f)
        syms = symbols_of(nodes)
        leaf = len(f.args()) == 0
        if not leaf:
            res.count("nontrivial")
        if do_smt:
            if all(smt_name_ok(s.symbol_name()) for s in syms):
                n0 = smt.fallbacks
                r = smt_fails(f)
                res.outcome("smtlib:%s" % ("same object" if not r else r[0]))
                if smt.fallbacks > n0:
                    res.count("smtlib_no_logic_detected(explicit set-logic ALL used)")
                if not r and not leaf and not res.samples:
                    res.sample({"part": part["name"], "mode": "smtlib", "term": termio.dump(f),
                                "dag_text": smt.texts(f)[2]}, limit=1)
                if r:
                    report("smtlib", f, smt_fails, r)
            else:
                res.outcome("smtlib:name outside the statement")
        if do_hr:
            if hr.in_fragment(f):
                info = {}
                r = hr.verdict(f, info)
                cache[("h", f)] = r or False
                res.outcome("hr:%s" % (r[0] if r else "same object" if info.get("hr") == "identical" else
                                       "different object with the same sort, meaning and flattened text"))
                if info.get("hr") == "different-object":
                    res.count("hr_regrouped")
                    if not r and len(res.samples) < 2:
                        res.sample({"part": part["name"], "mode": "hr", "term": termio.dump(f),
                                    "text": hr.ser.serialize(f)}, limit=2)
                if r:
                    report("hr", f, hr_fails, r)
            else:
                res.outcome("hr:outside the fragment")
    return check


# ---------------------------------------------------------------------------------------
# own profiles

AWKWARD_BOOL = ["a b", "a;b", 'q"t', "a#b", "#", "1x", "Int", "Real", ".def_0", ".def_1", ":kw", "a'b", "x.y",
                "(", ")", "a(b", "a\tb", "~!@$%^&*_-+=<>.?/", "x_"]
AWKWARD_INT = ["i j", "2i", ".def_2", "Bool"]


from .c07 import fnames_profile, letbinder_profile, ascii_names_profile  # noqa: E402


def names_profile(env, with_parens=True):
    """symbols, a function and binders whose names need quoting (or clash with let names / sort names)"""
    p = Profile("names", env)
    m = p.m
    bs = [p.sym(n, BOOL) for n in AWKWARD_BOOL if with_parens or name_class(n) != "paren"]
    xs = [p.sym(n, INT) for n in AWKWARD_INT]
    fn = p.sym("f n", ("Fun", BOOL, (INT,)))
    gn = p.sym(".def_3", ("Fun", INT, (INT,)))
    p.leaf(BOOL, *bs)
    p.leaf(INT, *xs)
    p.leaf(INT, m.Int(-3))
    p.op("not", [BOOL], BOOL, lambda m, a: m.Not(a))
    p.op("and", [BOOL, BOOL], BOOL, lambda m, a, b: m.And(a, b))
    p.op("le", [INT, INT], BOOL, lambda m, a, b: m.LE(a, b))
    p.op("plus", [INT, INT], INT, lambda m, a, b: m.Plus(a, b))
    p.op("fn", [INT], BOOL, lambda m, a: m.Function(fn, [a]))
    p.op("gn", [INT], INT, lambda m, a: m.Function(gn, [a]))
    byname = {s.symbol_name(): s for s in bs + xs}
    for nm, vs in (("sp", ["a b"]), ("let", [".def_0"]), ("let1", [".def_1", ".def_0"]), ("int", ["i j", ".def_2"]),
                   ("sort", ["Int", "Bool"]), ("dq", ['q"t', "1x"])):
        vs = [byname[v] for v in vs]
        p.op("forall_" + nm, [BOOL], BOOL, (lambda vs: lambda m, f: m.ForAll(vs, f))(vs))
    return p


CS = ("Sort", "S", ())
CPI = ("Sort", "P", (INT,))
CPB = ("Sort", "P", (BOOL,))


def csort_profile(env):
    """custom sorts: arity 0, two instances of one arity-1 sort, functions and arrays over them"""
    p = Profile("csort", env)
    m = p.m
    ASI = ("Array", CS, INT)
    s1, s2 = p.sym("s1", CS), p.sym("s2", CS)
    pi, pb = p.sym("pi", CPI), p.sym("pb", CPB)
    h = p.sym("h", ("Fun", INT, (CS,)))
    g = p.sym("g", ("Fun", CS, (INT, CPI)))
    M = p.sym("M", ASI)
    p.leaf(CS, s1, s2)
    p.leaf(CPI, pi)
    p.leaf(CPB, pb, p.sym("pb2", CPB))
    p.leaf(INT, p.sym("x", INT), m.Int(0))
    p.leaf(ASI, M, m.Array(mk_type(env, CS), m.Int(1)))
    p.leaf(BOOL, p.sym("a", BOOL))
    p.op("eqS", [CS, CS], BOOL, lambda m, a, b: m.Equals(a, b))
    p.op("eqPI", [CPI, CPI], BOOL, lambda m, a, b: m.Equals(a, b))
    p.op("eqPB", [CPB, CPB], BOOL, lambda m, a, b: m.Equals(a, b))
    p.op("h", [CS], INT, lambda m, a: m.Function(h, [a]))
    p.op("g", [INT, CPI], CS, lambda m, a, b: m.Function(g, [a, b]))
    p.op("select", [ASI, CS], INT, lambda m, a, i: m.Select(a, i))
    p.op("store", [ASI, CS, INT], ASI, lambda m, a, i, v: m.Store(a, i, v))
    p.op("le", [INT, INT], BOOL, lambda m, a, b: m.LE(a, b))
    p.op("and", [BOOL, BOOL], BOOL, lambda m, a, b: m.And(a, b))
    p.op("not", [BOOL], BOOL, lambda m, a: m.Not(a))
    p.op("iteS", [BOOL, CS, CS], CS, lambda m, c, a, b: m.Ite(c, a, b))
    p.op("forall_s", [BOOL], BOOL, lambda m, f: m.ForAll([s1], f))
    p.op("exists_ps", [BOOL], BOOL, lambda m, f: m.Exists([pb, s2], f))
    return p


def qorder_profile(env):
    """binder lists in both orders of creation, mixed sorts, same-name nesting, unused binders"""
    p = Profile("qorder", env)
    m = p.m
    B1 = ("BV", 1)
    a, b = p.sym("a", BOOL), p.sym("b", BOOL)
    x, y, z = p.sym("x", INT), p.sym("y", INT), p.sym("z", INT)
    u = p.sym("u", B1)
    r = p.sym("r", REAL)
    p.leaf(BOOL, a, b)
    p.leaf(INT, x, y, m.Int(0))
    p.leaf(B1, u)
    p.leaf(REAL, r, m.Real(Fraction(-1, 2)))
    p.op("not", [BOOL], BOOL, lambda m, a: m.Not(a))
    p.op("and", [BOOL, BOOL], BOOL, lambda m, a, b: m.And(a, b))
    p.op("iff", [BOOL, BOOL], BOOL, lambda m, a, b: m.Iff(a, b))
    p.op("le", [INT, INT], BOOL, lambda m, a, b: m.LE(a, b))
    p.op("lt", [REAL, REAL], BOOL, lambda m, a, b: m.LT(a, b))
    p.op("bveq", [B1, B1], BOOL, lambda m, a, b: m.Equals(a, b))
    for q, Q in (("forall", m.ForAll), ("exists", m.Exists)):
        for nm, vs in (("xy", [x, y]), ("yx", [y, x]), ("ba", [b, a]), ("ax", [a, x]), ("xa", [x, a]),
                       ("zyx", [z, y, x]), ("xu", [x, u]), ("ra", [r, a]), ("x", [x])):
            p.op("%s_%s" % (q, nm), [BOOL], BOOL, (lambda Q, vs: lambda m, f: Q(vs, f))(Q, vs))
    return p


def smtstr_profile(env):
    """strings whose SMT-LIB spelling needs escaping (outside the HR fragment)"""
    return P.str_profile(env, strs=("", 'a"b', '""', "a b", "|", "\\x", ";", "a\\\\b", "\\", "\\u{41}", "\\u0041", "caf\u00e9", "a\nb", "\t", "\u03b1"), ints=(0, -1))


def _names(*ns):
    return lambda o: o.name in ns


def _not_named(*ns):
    return lambda o: o.name not in ns


def _binary_or_less(o):
    return len(o.args) <= 2


def parts(ctx):
    q = ctx.quick
    ps = []

    def A(**kw):
        ps.append(kw)
    B2 = ("not", "and", "or", "implies", "iff")
    F = Fraction
    # ---- Boolean
    A(name="bool-d2", profile=lambda e: P.bool_profile(e, 2, consts=(True,)), depth=2, shards=8,
      mid_ops=_names(*B2), max_new=1 if q else None)
    if not q:
        A(name="bool-d3", profile=lambda e: P.bool_profile(e, 2, consts=()), depth=3, shards=64,
          mid_ops=_names("not", "and", "implies"), top_ops=_names("not", "and", "iff", "and3"), max_new=1)
    # ---- arithmetic: negative / rational / huge constants, Int and Real division, pow, to_real
    A(name="lia-d2", profile=lambda e: P.lia_profile(e, consts=(-1, 0, 2) if q else (-1, 0, 1, 2), nsyms=2),
      depth=2, shards=16 if q else 64, mid_ops=_binary_or_less, top_ops=_binary_or_less, max_new=1 if q else None)
    A(name="lia-nary-d2", profile=lambda e: P.lia_profile(e, consts=(0, -1), big=False, div=False, pow_=False,
                                                          nary3=True),
      depth=2, shards=8, mid_ops=_names("plus", "minus", "times"), top_ops=_names("plus3", "times3", "ite"),
      max_new=1)
    A(name="lra-d2", profile=lambda e: P.lra_profile(e, consts=(F(-1), F(2), F(-1, 2)) if q else
                                                     (F(-1), F(0), F(2), F(1, 2), F(-7, 3))),
      depth=2, shards=16 if q else 64, mid_ops=_binary_or_less, top_ops=_binary_or_less, max_new=1 if q else None)
    A(name="lira-d2", profile=P.lira_profile, depth=2, shards=8 if q else 32, mid_ops=_binary_or_less,
      top_ops=_binary_or_less, max_new=1 if q else None)
    # ---- bit-vectors: every operator and indexed operator
    A(name="bv2-d1", profile=lambda e: P.bv_profile(e, (2,)), depth=1, shards=2)
    A(name="bv3-d1", profile=lambda e: P.bv_profile(e, (3,)), depth=1, shards=4)
    A(name="bv1-2-d2", profile=lambda e: P.bv_profile(e, (1, 2), consts=(0, 3) if q else "all", nsyms=1), depth=2,
      shards=16 if q else 64, top_ops=_binary_or_less, max_new=1,
      mid_ops=(lambda o: o.name.split("_")[0] in ("bvadd", "bvneg", "bvcomp", "concat", "zext1", "extract0", "rol1",
                                                   "bvult", "bv2nat")) if q else _binary_or_less)
    # ---- strings
    A(name="str-d2", profile=lambda e: P.str_profile(e, strs=("", "ab"), ints=(0, -1)), depth=2,
      shards=8 if q else 16, max_new=1,
      mid_ops=_names("strlen", "strconcat", "strcharat", "inttostr", "strcontains") if q else None)
    A(name="str-escapes-d1", profile=smtstr_profile, depth=1, shards=4)
    if not q:
        A(name="str-escapes-d2", profile=smtstr_profile, depth=2, shards=32, max_new=1,
          mid_ops=_names("strconcat", "strlen", "strcharat", "streq"), top_ops=_binary_or_less)
    # ---- arrays and constant-array literals
    for nm, i, e_ in (("int-int", INT, INT), ("bv1-bool", ("BV", 1), BOOL), ("real-bv2", REAL, ("BV", 2))):
        A(name="arr-%s-d2" % nm, profile=(lambda i, e_: lambda e: P.arr_profile(e, i, e_))(i, e_),
          depth=2, shards=8, mid_ops=_not_named("arrite"), top_ops=_not_named("store"), max_new=1)
        A(name="arr-%s-d2-tern" % nm, profile=(lambda i, e_: lambda e: P.arr_profile(e, i, e_))(i, e_),
          depth=2, shards=4, mid_ops=_names("select", "store"), top_ops=_names("store", "arrite"), max_new=1) \
            if not (q and nm == "bv1-bool") else None
    # ---- cross-theory terms
    A(name="mixed-d2", profile=lambda e: P.mixed_profile(e), depth=2, shards=32, max_new=1,
      dom={INT: (-1, 0, 2), STRING: ("", "a", "12")})
    # ---- uninterpreted functions
    A(name="uf-d2", profile=P.uf_profile, depth=2, shards=8 if q else 32, dom={INT: (0, 1, 2)},
      max_new=1 if q else None)
    # ---- quantifiers
    A(name="quant-d2", profile=P.quant_profile, depth=2, shards=16 if q else 64, dom={INT: (-1, 0, 2)},
      max_new=1 if q else None)
    A(name="qorder-d2", profile=qorder_profile, depth=2, shards=8, dom={INT: (0, 1)}, max_new=1 if q else None)
    if not q:
        A(name="qorder-d3", profile=qorder_profile, depth=3, shards=64, dom={INT: (0, 1)},
          mid_ops=_names("and", "le", "not", "forall_yx", "exists_xa", "exists_x", "forall_ba"), max_new=1)
    # ---- names needing quoting, let-name clashes; custom sorts
    A(name="letbinder-d3", profile=letbinder_profile, depth=3, shards=16, dom={INT: (0, 1)},
      mid_ops=lambda o: o.name in ("not", "and", "or", "le", "plus"),
      top_ops=lambda o: o.name.startswith(("forall", "exists")))
    A(name="fnames-d3", profile=fnames_profile, depth=3, shards=8, dom={INT: (0, 1)},
      top_ops=lambda o: o.name == "dup")
    A(name="ascii-names-d1", profile=ascii_names_profile, depth=1, shards=8, hr=False)
    A(name="nary5-d1", profile=P.nary5_profile, depth=1, shards=16, dom={INT: (-1, 0, 2)})
    A(name="bv33-d1", profile=lambda e: P.widebv_profile(e, 33), depth=1, shards=8, dom=P.widebv_dom(33))
    A(name="names-d2", profile=names_profile, depth=2, shards=8 if q else 32, dom={INT: (0, 1)},
      mid_ops=_not_named("and") if q else None, max_new=1 if q else None)
    if not q:
        A(name="names-d3", profile=lambda e: names_profile(e, with_parens=False), depth=3, shards=64,
          dom={INT: (0, 1)}, mid_ops=_names("not", "le", "fn", "forall_let", "forall_let1", "forall_sort"),
          top_ops=_not_named("plus", "gn"), max_new=1)
    A(name="csort-d2", profile=csort_profile, depth=2, shards=8 if q else 16, hr=False, max_new=1 if q else None)
    return ps


# ---------------------------------------------------------------------------------------
# part (ii): command sequences

class Cmd(object):
    __slots__ = ("label", "text", "needs", "provides", "reduced", "kind", "n", "args")

    def __init__(self, label, text, needs=(), provides=(), reduced=False, kind=None, n=0, args=True):
        self.label, self.text = label, text
        self.needs, self.provides = frozenset(needs), frozenset(provides)
        self.reduced, self.kind, self.n, self.args = reduced, kind, n, args


PRELUDE = [Cmd("declare-fun", "(declare-fun x () Int)", provides=["x"]),
           Cmd("declare-fun", "(declare-fun y () Int)", provides=["y"]),
           Cmd("declare-fun", "(declare-fun p () Bool)", provides=["p"]),
           Cmd("declare-fun", "(declare-fun f (Int) Int)", provides=["f"]),
           Cmd("declare-sort", "(declare-sort S 0)", provides=["S"]),
           Cmd("declare-fun", "(declare-fun bv () (_ BitVec 2))", provides=["bv"])]

R = True
ALPHABET = [
    Cmd("set-logic", "(set-logic QF_UFLIA)", kind="set-logic", reduced=R),
    Cmd("set-logic:unknown-to-pysmt", "(set-logic ALL)", kind="set-logic"),
    Cmd("set-option:start", "(set-option :produce-models true)", kind="start-option", reduced=R),
    Cmd("set-option", "(set-option :opt.priority lex)", kind="info"),
    Cmd("set-info", "(set-info :status sat)", kind="info", reduced=R),
    Cmd("set-info:quoted", "(set-info :source |a b|)", kind="info"),
    Cmd("set-info:decimal", "(set-info :smt-lib-version 2.6)", kind="info"),
    Cmd("set-info:string", "(set-info :source \"x y\")", kind="info"),
    Cmd("declare-sort:0", "(declare-sort S 0)", provides=["S"], reduced=R),
    Cmd("declare-sort:1", "(declare-sort P 1)", provides=["P"]),
    Cmd("declare-sort:quoted-name", "(declare-sort |my sort| 0)", provides=["my sort"]),
    Cmd("declare-fun:0", "(declare-fun x () Int)", provides=["x"], reduced=R),
    Cmd("declare-fun:bool", "(declare-fun p () Bool)", provides=["p"], reduced=R),
    Cmd("declare-fun:1", "(declare-fun f (Int) Int)", provides=["f"]),
    Cmd("declare-fun:quoted-name", "(declare-fun |a b| () Bool)", provides=["a b"]),
    Cmd("declare-fun:custom-sort", "(declare-fun s (S) S)", needs=["S"], provides=["s"]),
    Cmd("declare-fun:custom-sort-1", "(declare-fun ps () (P Int))", needs=["P"], provides=["ps"]),
    Cmd("declare-fun:bv", "(declare-fun bv () (_ BitVec 2))", provides=["bv"]),
    Cmd("declare-const", "(declare-const c Int)", provides=["c"], reduced=R),
    Cmd("declare-const:array", "(declare-const arr (Array Int Bool))", provides=["arr"]),
    Cmd("define-fun:0", "(define-fun d0 () Int 3)", provides=["d0"]),
    Cmd("define-fun:1", "(define-fun d1 ((a Int)) Int (+ a 1))", provides=["d1"], reduced=R),
    Cmd("define-fun:2", "(define-fun d2 ((a Int) (b Bool)) Bool (and b (< a x)))", needs=["x"], provides=["d2"]),
    Cmd("define-fun:quoted-parameter", "(define-fun d3 ((|a c| Int)) Int |a c|)", provides=["d3"]),
    Cmd("define-fun:quoted-name", "(define-fun |d 4| () Int 3)", provides=["d 4"]),
    Cmd("define-sort", "(define-sort MyInt () Int)", provides=["MyInt"], reduced=R),
    Cmd("declare-fun:defined-sort", "(declare-fun mi () MyInt)", needs=["MyInt"], provides=["mi"]),
    Cmd("assert:true", "(assert true)", reduced=R),
    Cmd("assert:bool", "(assert p)", needs=["p"]),
    Cmd("assert:arith", "(assert (< x 1))", needs=["x"], reduced=R),
    Cmd("assert:app", "(assert (= (f x) (- 2)))", needs=["f", "x"]),
    Cmd("assert:defined", "(assert (< (d1 x) d0))", needs=["d1", "d0", "x"]),
    Cmd("assert:defined-1", "(assert (< (d1 2) 3))", needs=["d1"]),
    Cmd("assert:quant", "(assert (forall ((z Int) (w Int)) (< z w)))"),
    Cmd("assert:let", "(assert (let ((t (+ x 1))) (< t t)))", needs=["x"]),
    Cmd("assert:named", "(assert (! p :named n1))", needs=["p"]),
    Cmd("assert:quoted-name", "(assert (not |a b|))", needs=["a b"]),
    Cmd("assert-soft", "(assert-soft p)", needs=["p"], reduced=R),
    Cmd("assert-soft:const", "(assert-soft false)"),
    Cmd("assert-soft:weight", "(assert-soft p :weight 2)", needs=["p"]),
    Cmd("assert-soft:id", "(assert-soft p :id g1)", needs=["p"]),
    Cmd("assert-soft:id+weight", "(assert-soft (< x 1) :id g1 :weight 3)", needs=["x"], reduced=R),
    Cmd("assert-soft:weight+id", "(assert-soft p :weight 2 :id g2)", needs=["p"]),
    Cmd("assert-soft:decimal-weight", "(assert-soft p :weight 0.5)", needs=["p"]),
    Cmd("assert-soft:negative-weight", "(assert-soft p :weight (- 1))", needs=["p"]),
    Cmd("maximize", "(maximize x)", needs=["x"], reduced=R),
    Cmd("maximize:term", "(maximize (+ x 1))", needs=["x"]),
    Cmd("maximize:const", "(maximize 1)"),
    Cmd("maximize:signed", "(maximize bv :signed)", needs=["bv"]),
    Cmd("maximize:id", "(maximize x :id o1)", needs=["x"]),
    Cmd("maximize:signed+id", "(maximize bv :signed :id o2)", needs=["bv"], reduced=R),
    Cmd("maximize:id+signed", "(maximize bv :id o3 :signed)", needs=["bv"]),
    Cmd("minimize", "(minimize x)", needs=["x"], reduced=R),
    Cmd("minimize:signed", "(minimize bv :signed)", needs=["bv"]),
    Cmd("minimize:id", "(minimize x :id o4)", needs=["x"]),
    Cmd("minmax", "(minmax x y)", needs=["x", "y"], reduced=R),
    Cmd("minmax:one", "(minmax x)", needs=["x"]),
    Cmd("minmax:signed", "(minmax bv bv :signed)", needs=["bv"]),
    Cmd("minmax:id", "(minmax x y :id m1)", needs=["x", "y"]),
    Cmd("maxmin", "(maxmin x y)", needs=["x", "y"], reduced=R),
    Cmd("maxmin:id+signed", "(maxmin bv bv :id m2 :signed)", needs=["bv"]),
    Cmd("maxmin:terms", "(maxmin (+ x 1) (- 1))", needs=["x"]),
    Cmd("check-sat", "(check-sat)", reduced=R, args=False),
    Cmd("check-allsat", "(check-allsat (p))", needs=["p"], reduced=R),
    Cmd("check-allsat:two", "(check-allsat (p (< x 1)))", needs=["p", "x"]),
    Cmd("check-allsat:empty", "(check-allsat ())"),
    Cmd("push", "(push 1)", kind="push", n=1, reduced=R),
    Cmd("push:2", "(push 2)", kind="push", n=2),
    Cmd("push:0", "(push 0)", kind="push", n=0),
    Cmd("pop", "(pop 1)", kind="pop", n=1, reduced=R),
    Cmd("pop:2", "(pop 2)", kind="pop", n=2),
    Cmd("get-value", "(get-value (x))", needs=["x"], reduced=R),
    Cmd("get-value:two", "(get-value (p (f x)))", needs=["p", "f", "x"]),
    Cmd("get-value:const", "(get-value ((- 1) 0.5 #b01 \"s\"))"),
    Cmd("get-model", "(get-model)", reduced=R, args=False),
    Cmd("get-objectives", "(get-objectives)", reduced=R, args=False),
    Cmd("load-objective-model", "(load-objective-model 1)", reduced=R),
    Cmd("load-objective-model:0", "(load-objective-model 0)"),
    Cmd("get-unsat-core", "(get-unsat-core)", reduced=R, args=False),
    Cmd("get-assignment", "(get-assignment)", reduced=R, args=False),
    Cmd("reset-assertions", "(reset-assertions)", kind="reset-assertions", reduced=R, args=False),
    Cmd("exit", "(exit)", kind="exit", reduced=R, args=False),
    # accepted by the parser, serialisation documented as not implemented (counted)
    Cmd("check-sat-assuming", "(check-sat-assuming (p))", needs=["p"]),
    Cmd("echo", "(echo \"hi\")"),
    Cmd("get-info", "(get-info :name)"),
    Cmd("get-option", "(get-option :produce-models)"),
    Cmd("get-assertions", "(get-assertions)", args=False),
    Cmd("get-proof", "(get-proof)", args=False),
    Cmd("get-unsat-assumptions", "(get-unsat-assumptions)", args=False),
    Cmd("reset", "(reset)", kind="reset", args=False),
]
SCRIPT_CONFIGS = {
    # name: (reduced alphabet only, maximal length quick, thorough)
    "script-reduced": (True, 3, 4),
    "script-full": (False, 2, 3),
}


def init_state(prelude):
    decl = frozenset().union(*[c.provides for c in PRELUDE]) if prelude else frozenset()
    #        levels of declared names, started (assertion-stack mode), logic set, exited
    return ((decl,), bool(prelude), False, False)


def legal(state, c):
    levels, started, logic, exited = state
    if exited:
        return False
    declared = frozenset().union(*levels)
    if not c.needs <= declared or (c.provides & declared):
        return False
    if c.kind == "set-logic":
        return not started and not logic
    if c.kind == "start-option":
        return not started
    if c.kind == "pop":
        return c.n <= len(levels) - 1
    return True


def step(state, c):
    levels, started, logic, exited = state
    k = c.kind
    if k == "set-logic":
        return (levels, started, True, exited)
    if k in ("info", "start-option"):
        return state
    if k == "push":
        return (levels + (frozenset(),) * c.n, True, logic, exited)
    if k == "pop":
        return (levels[:len(levels) - c.n], True, logic, exited)
    if k == "reset-assertions":
        return ((frozenset(),), True, logic, exited)
    if k == "reset":
        return ((frozenset(),), False, False, exited)
    if k == "exit":
        return (levels, True, logic, True)
    if c.provides:
        return (levels[:-1] + (levels[-1] | c.provides,), True, logic, exited)
    return (levels, True, logic, exited)


def sequences(alpha, maxlen, state, first=None):
    """all legal sequences (tuples of indices into alpha) of length 1..maxlen, optionally with a given
    first command"""
    def rec(prefix, st, depth):
        for i, c in enumerate(alpha):
            if depth == 0 and first is not None and i != first:
                continue
            if not legal(st, c):
                continue
            seq = prefix + (i,)
            yield seq
            if depth + 1 < maxlen:
                for s in rec(seq, step(st, c), depth + 1):
                    yield s
    return rec((), state, 0)


def is_legal(cmds, prelude):
    st = init_state(prelude)
    for c in cmds:
        if not legal(st, c):
            return False
        st = step(st, c)
    return True


class Mismatch(Exception):
    pass


def alpha_same(a, b, ren):
    """a is b up to the renaming ren (symbols of b -> symbols of a)"""
    if not ren:
        return a is b
    stack = [(a, b)]
    seen = set()
    while stack:
        x, y = stack.pop()
        if (x, y) in seen:
            continue
        seen.add((x, y))
        tx = x.node_type()
        if tx != y.node_type() or len(x.args()) != len(y.args()):
            return False
        if tx == op.SYMBOL:
            if ren.get(y, y) is not x:
                return False
            continue
        if tx == op.FUNCTION:
            if ren.get(y.function_name(), y.function_name()) is not x.function_name():
                return False
        elif tx in QUANT:
            vx, vy = x.quantifier_vars(), y.quantifier_vars()
            if len(vx) != len(vy) or any(ren.get(q, q) is not p for p, q in zip(vx, vy)):
                return False
        elif x._content.payload != y._content.payload:
            return False
        stack.extend(zip(x.args(), y.args()))
    return True


def value_same(a, b, ren):
    if isinstance(a, FNode) or isinstance(b, FNode):
        return isinstance(a, FNode) and isinstance(b, FNode) and alpha_same(a, b, ren)
    if isinstance(a, (list, tuple)) or isinstance(b, (list, tuple)):
        return isinstance(a, (list, tuple)) and isinstance(b, (list, tuple)) and len(a) == len(b) and \
            all(value_same(x, y, ren) for x, y in zip(a, b))
    if a is None or b is None:
        return a is b
    if isinstance(a, (bool, int, str)) or isinstance(b, (bool, int, str)):
        return type(a) is type(b) and a == b
    if hasattr(a, "arity") and hasattr(a, "name") and hasattr(b, "arity"):     # sort declaration
        return a.name == b.name and a.arity == b.arity
    if hasattr(a, "theory") and hasattr(b, "theory"):                           # logic
        return a.name == b.name
    return a == b


def command_same(c1, c2):
    """None, or the failure kind"""
    if c1.name != c2.name:
        return "name"
    a1, a2 = list(c1.args), list(c2.args)
    if len(a1) != len(a2):
        return "args"
    ren = {}
    if c1.name == "define-fun" and len(a1) == 4:
        f1, f2 = a1[1], a2[1]
        if len(f1) != len(f2) or any(p.symbol_type() != q.symbol_type() for p, q in zip(f1, f2)):
            return "args"
        ren = dict(zip(f2, f1))
    return None if all(value_same(x, y, ren) for x, y in zip(a1, a2)) else "args"


def _cmd_str(c):
    try:
        return "(%s %s)" % (c.name, " ".join(str(a) for a in c.args))
    except Exception:
        return "(%s ...)" % c.name


def script_verdict1(env, texts, dag, res=None):
    """texts: command texts (prelude included).  None | ("unsupported", name) | ("input-rejected", msg)
    | (failure kind, position or None, message)"""
    t = "\n".join(texts)
    try:
        s1 = SmtLibParser(env).get_script(StringIO(t))
    except Exception as e:
        return ("input-rejected", None, "%r" % (e,))
    if len(s1.commands) != len(texts):
        return ("input-rejected", None, "%d commands read" % len(s1.commands))
    buf = StringIO()
    try:
        s1.serialize(buf, daggify=dag)
    except NotImplementedError as e:
        return ("unsupported", None, str(e))
    except Exception as e:
        pos = None
        for i, c in enumerate(s1.commands):
            try:
                c.serialize(StringIO(), daggify=dag)
            except Exception:
                pos = i
                break
        return ("serialize-exception", pos, "serialising the parsed script %r raised %r" % (t, e))
    t2 = buf.getvalue()
    p2 = SmtLibParser(env)
    gen = p2.get_command_generator(StringIO(t2))
    i = 0
    while True:
        try:
            c2 = next(gen)
        except StopIteration:
            break
        except Exception as e:
            return ("reparse-exception", i, "script %r is re-serialised as %r which pySMT cannot parse "
                    "(command %d): %r" % (t, t2, i, e))
        if i >= len(s1.commands):
            return ("length", None, "script %r is re-serialised as %r which has more commands" % (t, t2))
        k = command_same(s1.commands[i], c2)
        if k:
            return (k, i, "script %r is re-serialised as %r; command %d was %s and is read back as %s"
                    % (t, t2, i, _cmd_str(s1.commands[i]), _cmd_str(c2)))
        i += 1
    if i != len(s1.commands):
        return ("length", None, "script %r is re-serialised as %r which has %d commands" % (t, t2, i))
    if res is not None:
        # term annotations are not part of the command list: counted, not judged
        a1 = getattr(s1.annotations, "_annotations", None)
        if a1:
            a2 = getattr(p2.cache.annotations, "_annotations", None)
            res.count("script_annotations:%s" % ("kept" if a1 == a2 else "changed"))
    return None


def script_verdict(env, texts, res=None):
    rt, rd = script_verdict1(env, texts, False, res), script_verdict1(env, texts, True, res)
    if rt is None and rd is None:
        return None
    if rt is not None and rd is not None and rt[0] == rd[0]:
        return rt
    if rt is not None:
        return (rt[0] + ("" if rt[0] in ("unsupported", "input-rejected") else "[tree]"),) + rt[1:]
    return (rd[0] + ("" if rd[0] in ("unsupported", "input-rejected") else "[dag]"),) + rd[1:]


def _texts(cmds, prelude):
    return [c.text for c in (PRELUDE if prelude else [])] + [c.text for c in cmds]


def _providers(c, acc):
    """alphabet commands declaring what c needs (transitively), in dependency order"""
    for name in sorted(c.needs):
        if any(name in d.provides for d in acc):
            continue
        d = next(d for d in ALPHABET if name in d.provides)
        _providers(d, acc)
        acc.append(d)
    return acc


def _command_name(c):
    return c.text[1:].split()[0].rstrip(")")


def minimise_script(env, cmds, prelude, r):
    """smallest legal script that still fails in the same way at the same command:
    (a) the plainest variant of the culprit command after just the declarations it needs, (b) the culprit
    itself after just the declarations it needs, (c) greedy deletion.  Returns (commands, prelude, verdict,
    culprit)"""
    npre = len(PRELUDE) if prelude else 0
    kind, pos = r[0], r[1]
    culprit = cmds[pos - npre] if pos is not None and pos >= npre else None
    if culprit is not None:
        base = next(c for c in ALPHABET if _command_name(c) == _command_name(culprit))
        for c in ([base] if base is not culprit else []) + [culprit]:
            cand = _providers(c, []) + [c]
            if is_legal(cand, False):
                x = script_verdict(env, _texts(cand, False))
                if x is not None and x[0] == kind and x[1] == len(cand) - 1:
                    return [c], False, x, c

    def fails(sub, pre):
        if not is_legal(sub, pre):
            return None
        x = script_verdict(env, _texts(sub, pre))
        if x is None or x[0] != kind:
            return None
        n0 = len(PRELUDE) if pre else 0
        if culprit is not None and (x[1] is None or x[1] < n0 or sub[x[1] - n0] is not culprit):
            return None
        return x
    cur, why = list(cmds), r
    if prelude:
        x = fails(cur, False)
        if x:
            prelude, why = False, x
    changed = True
    while changed:
        changed = False
        for i in range(len(cur)):
            if cur[i] is culprit:
                continue
            cand = cur[:i] + cur[i + 1:]
            x = fails(cand, prelude)
            if x:
                cur, why, changed = cand, x, True
                break
    return cur, prelude, why, culprit


def script_sig(cur, culprit, kind):
    if culprit is not None:
        ctx_ = [c.label for c in cur if c is not culprit and not (c.provides & culprit.needs)]
        # the commands the culprit needs (declarations) are context, not cause
        lab = "→".join(ctx_ + [culprit.label])
    else:
        lab = "→".join(c.label for c in cur)
    return "script:%s:%s" % (lab, kind)


def run_script_shard(args):
    cfg, prelude, first, quick = args
    reduced_only, lq, lt = SCRIPT_CONFIGS[cfg]
    maxlen = lq if quick else lt
    alpha = [c for c in ALPHABET if c.reduced or not reduced_only]
    rq, rt_ = SCRIPT_CONFIGS["script-reduced"][1:]
    red_len = rq if quick else rt_
    res = Result()
    env = Environment()
    push_env(env)
    seen_sig = set()
    try:
        for seq in sequences(alpha, maxlen, init_state(prelude), first):
            cmds = [alpha[i] for i in seq]
            if not reduced_only and len(cmds) <= red_len and all(c.reduced for c in cmds):
                continue        # enumerated by script-reduced
            res.count("evaluations")
            res.count("script_sequences")
            if any(c.args for c in cmds):
                res.count("nontrivial")
            r = script_verdict(env, _texts(cmds, prelude), res)
            if r is None:
                res.outcome("script:equivalent command list")
                if len(cmds) == maxlen:
                    res.sample({"part": cfg, "mode": "script", "prelude": prelude,
                                "commands": [c.text for c in cmds]}, limit=1)
                continue
            if r[0] in ("unsupported", "input-rejected"):
                res.outcome("script:%s" % r[0])
                res.count("script_%s" % r[0].replace("-", "_"))
                if r[0] == "input-rejected":
                    res.notes.append("legal script rejected by the parser (C08's subject): %s: %s"
                                     % (" ".join(c.text for c in cmds), r[2])) if len(res.notes) < 3 else None
                continue
            res.outcome("script:%s" % r[0])
            npre = len(PRELUDE) if prelude else 0
            quick_key = (cmds[r[1] - npre].label if r[1] is not None and r[1] >= npre else None, r[0])
            if quick_key[0] is not None and quick_key in seen_sig:
                res.count("violations_same_command")
                continue
            cur, pre2, why, culprit = minimise_script(env, cmds, prelude, r)
            sig = script_sig(cur, culprit, why[0])
            seen_sig.add(quick_key)
            if sig in seen_sig:
                res.count("violations_same_command")
                continue
            seen_sig.add(sig)
            shown = cur if len(cur) > 1 or culprit is None else _providers(culprit, []) + [culprit]
            res.violation(cfg, sig, "%s: %s" % (cfg, why[2]),
                          {"part": cfg, "mode": "script", "prelude": pre2, "commands": [c.text for c in shown],
                           "found_in": [c.text for c in cmds]})
    finally:
        pop_env()
    return res


# ---------------------------------------------------------------------------------------

def run(ctx):
    ctx.level = "exploration"
    ctx.rule = ("(i)+(iii): all (operator, argument tuple) applications of each profile up to the part's depth "
                "(hash-consing de-duplicates within a shard), each printed by the tree and by the DAG SMT-LIB "
                "printer inside the script of smtlibscript_from_formula, parsed back in the same environment and "
                "compared by object identity (constant-array literals modulo store chains), and - when in the "
                "human-readable fragment - serialised and parsed by HRParser; non-trivial = the term is not a "
                "leaf; an HR result that is a different object is compared by sort, by flattened serialisation "
                "and under every interpretation of its symbols.  (ii): every legal sequence of hand-written "
                "command texts up to the tier's length (reduced alphabet: one or two instances per command; "
                "full alphabet: every option variant), with and without a prelude of declarations: "
                "parse, serialise (tree and DAG), parse again, compare command by command; non-trivial = a "
                "command of the sequence carries arguments")
    ctx.assumptions = ["reference semantics mc/core/refsem.py for the human-readable meaning check",
                       "symbol names: any printable string that SMT-LIB can declare (not reserved words, "
                       "predefined function symbols, literal spellings, names containing | or backslash); sort "
                       "names Int/Real/Bool are declarable as function names (separate namespace)",
                       "HR fragment: identifiers [A-Za-z_][A-Za-z0-9_]* other than the words of the HR language, "
                       "or names the printer quotes without ' and backslash; strings without \"; sorts "
                       "Bool/Int/Real/String/BV, arrays and functions over them",
                       "script legality: declared before use and not twice, declarations scoped by push/pop and "
                       "dropped by reset-assertions, pop within depth, set-logic and :produce-models before the "
                       "first other command, nothing after exit; the logic does not restrict the sorts used",
                       "commands whose serialisation raises NotImplementedError ('valid but not supported') "
                       "are counted, not reported; term annotations are outside the command list",
                       "Int/Real quantifiers in the HR meaning check range over {0},{0,1},{-1,0,2}"]
    ps = parts(ctx)
    names = getattr(ctx, "parts", None)
    ctx.coverage["parts"] = [{"name": p["name"], "depth": p["depth"]} for p in ps] + \
        [{"name": k, "max_length": v[1] if ctx.quick else v[2]} for k, v in SCRIPT_CONFIGS.items()]
    sweep(ctx, ps, make)
    shards = []
    for cfg, (reduced_only, lq, lt) in SCRIPT_CONFIGS.items():
        if names and cfg not in names:
            continue
        alpha = [c for c in ALPHABET if c.reduced or not reduced_only]
        for prelude in (False, True):
            st = init_state(prelude)
            for i, c in enumerate(alpha):
                if legal(st, c):
                    shards.append((cfg, prelude, i, ctx.quick))
    ctx.rng.shuffle(shards)
    ctx.pmap(run_script_shard, shards)
    ctx.coverage["script_alphabet"] = {"reduced": sum(1 for c in ALPHABET if c.reduced), "full": len(ALPHABET)}
    if ctx.res.counters.get("hr_sem_capped"):
        ctx.exhaustive = False
        ctx.cap_note = ("%d human-readable meaning checks skipped: more than %d interpretations even over the "
                        "smallest pools (sort and text comparisons still done)"
                        % (ctx.res.counters["hr_sem_capped"], HR_CAP))


def _dump_symbols(j, out):
    """(name, sort) of every symbol mentioned in a DSL term, in order of first appearance"""
    if not isinstance(j, list) or not j:
        return out
    k = j[0]
    if k == "sym" or k == "app":
        if (j[1], repr(j[2])) not in [(n, repr(t)) for n, t in out]:
            out.append((j[1], j[2]))
        for a in (j[3:] if k == "app" else []):
            _dump_symbols(a, out)
    elif k in ("forall", "exists"):
        for n, t in j[1]:
            if (n, repr(t)) not in [(n2, repr(t2)) for n2, t2 in out]:
                out.append((n, t))
        _dump_symbols(j[2], out)
    else:
        for a in j[1:]:
            _dump_symbols(a, out)
    return out


def _replay_term(case, reverse):
    env = Environment()
    push_env(env)
    try:
        if reverse:
            # the outcome may depend on the order in which the symbols were created (hash order of sets)
            for n, t in reversed(_dump_symbols(case["term"], [])):
                env.formula_manager.Symbol(n, mk_type(env, termio.norm_sort(t)))
        f = termio.build(env, case["term"])
        shown = termio.short(case["term"])
        if case.get("mode") == "hr":
            hr = HrRound(env, {"qdoms": QDOMS}, Result())
            if not hr.in_fragment(f):
                return True, "%s is outside the human-readable fragment" % shown
            r = hr.verdict(f)
            if r is None:
                return True, "HRParser.parse(serialize(%s)) has the same sort, meaning and text" % shown
            return False, "hr(%s): %s: %s" % (shown, r[0], r[1])
        r = SmtRound(env).verdict(f)
        if r is None:
            return True, "SMT-LIB print/parse of %s returns the same object (both printers)" % shown
        return False, "smtlib(%s): %s: %s" % (shown, r[0], r[1])
    finally:
        pop_env()


def replay(rec):
    case = rec["case"]
    if case.get("mode") == "script":
        env = Environment()
        push_env(env)
        try:
            texts = [c.text for c in (PRELUDE if case.get("prelude") else [])] + list(case["commands"])
            r = script_verdict(env, texts)
            shown = " ".join(case["commands"])
            if r is None or r[0] in ("unsupported", "input-rejected"):
                return True, "script %s round-trips to an equivalent command list (%s)" % (shown, r and r[0])
            return False, "%s: %s" % (r[0], r[2])
        finally:
            pop_env()
    ok, msg = _replay_term(case, False)
    if ok:
        ok2, msg2 = _replay_term(case, True)
        if not ok2:
            return ok2, msg2 + " [symbols created in reverse order of appearance]"
    return ok, msg
