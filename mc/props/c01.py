"""C01 - simplification preserves type and meaning.

Every term of every profile up to the part's depth is simplified by the real Simplifier;
the result must have the same (independently re-derived) sort, mention no symbol that is
not free in the input, and evaluate, under *every* interpretation of the free symbols over
the finite value pools (and every listed quantification domain), to the same value as the
input according to the reference semantics (mc/core/refsem.py).
"""
from fractions import Fraction
import pysmt.operators as op
from pysmt.environment import Environment, push_env, pop_env
from ..core import profiles as P
from ..core import termio
from ..core.refsem import (compile_term, free_symbols, Unconstrained, IllTyped, Unsupported)
from ..core.termgen import interps
from ..core.termio import INT, REAL, BOOL
from ..core.sig import term_sig, shrink
from ..core.sweep import sweep

QDOMS = [{INT: (0,), REAL: (Fraction(0),)},
         {INT: (0, 1), REAL: (Fraction(0), Fraction(1, 2))},
         {INT: (-1, 0, 2), REAL: (Fraction(-1), Fraction(0), Fraction(2))}]


def make_verdict(env, part, cmemo=None):
    simp = env.simplifier
    cmemo = {} if cmemo is None else cmemo
    dom = part.get("dom")
    qdoms = part.get("qdoms")

    def verdict(f):
        """None if the property holds for f, else (failure kind, message, rewritten?)"""
        try:
            s = simp.simplify(f)
        except Exception as e:
            return ("exception", "simplify raised %r" % (e,))
        if s is f:
            return None
        sf, ff = compile_term(f, cmemo)
        try:
            ss, fs = compile_term(s, cmemo)
        except (IllTyped, Unsupported) as e:
            return ("type", "simplified term %s is not well-typed: %s" % (termio.short(termio.dump(s)), e))
        if ss != sf:
            return ("type", "sort %s became %s (result %s)" % (termio.sort_str(sf), termio.sort_str(ss),
                                                               termio.short(termio.dump(s))))
        syms = free_symbols(f)
        extra = set(free_symbols(s)) - set(syms)
        if extra:
            return ("symbol", "result mentions %s not free in the input" % sorted(extra))
        for I in interps(syms, dom, qdoms if _has_q(f) else None):
            try:
                vf = ff(I)
            except Unconstrained:
                continue
            try:
                vs = fs(I)
            except Unconstrained:
                return ("value", "result %s divides by zero under %r where the input does not"
                        % (termio.short(termio.dump(s)), _showI(I)))
            if vf != vs:
                return ("value", "under %s input=%r but simplified %s=%r"
                        % (_showI(I), vf, termio.short(termio.dump(s)), vs))
        return None
    return verdict


_QMEMO = {}


def _has_q(f):
    r = _QMEMO.get(f)
    if r is None:
        r = False
        stack, seen = [f], set()
        while stack:
            n = stack.pop()
            if n in seen:
                continue
            seen.add(n)
            if n.is_quantifier():
                r = True
                break
            stack.extend(n.args())
        if len(_QMEMO) > 200000:
            _QMEMO.clear()
        _QMEMO[f] = r
    return r


def _showI(I):
    return {k: v for k, v in I.items()}


def make(env, profile, res, part):
    verdict = make_verdict(env, part)
    simp = env.simplifier

    def check(f):
        v = verdict(f)
        rewritten = False
        try:
            rewritten = simp.simplify(f) is not f
        except Exception:
            pass
        if rewritten:
            res.count("nontrivial")
        res.outcome("%s:%s" % (op.op_to_str(f.node_type()), "rewritten" if rewritten else "unchanged"))
        if rewritten:
            res.sample({"part": part["name"], "term": termio.dump(f),
                        "simplified": termio.dump(simp.simplify(f))}, limit=2)
        if v is None:
            return
        sub, r = shrink(env, f, verdict, simp.simplify)
        if r is None:
            sub, r = f, v
        res.violation(part["name"], term_sig("simplify", sub, r[0]),
                      "%s: simplify(%s): %s" % (part["name"], termio.short(termio.dump(sub)), r[1]),
                      {"part": part["name"], "term": termio.dump(sub), "found_in": termio.dump(f)})
    return check


def _binary_or_less(o):
    return len(o.args) <= 2


def _names(*ns):
    return lambda o: o.name in ns


_B2 = ("not", "and", "or", "implies", "iff")


def parts(ctx):
    q = ctx.quick
    ps = []
    A = ps.append
    # ---- Boolean connectives
    A(dict(name="bool-d2-bin", profile=lambda e: P.bool_profile(e, 2), depth=2, shards=8,
           mid_ops=_names(*_B2), top_ops=_names(*_B2)))
    A(dict(name="bool-d2-tern-top", profile=lambda e: P.bool_profile(e, 2), depth=2, shards=8,
           mid_ops=_names(*_B2), top_ops=_names("and3", "or3", "bite"), max_new=1))
    A(dict(name="bool-d2-tern-mid", profile=lambda e: P.bool_profile(e, 2), depth=2, shards=8,
           top_ops=_names(*_B2), max_new=1))
    A(dict(name="bool-d3", profile=lambda e: P.bool_profile(e, 2, consts=()), depth=3, shards=32,
           mid_ops=_names("not", "and", "implies"), top_ops=_names(*_B2)))
    if not q:
        A(dict(name="bool-d2-full", profile=lambda e: P.bool_profile(e, 2, consts=(True,)), depth=2, shards=256))
        A(dict(name="bool-d3-wide", profile=lambda e: P.bool_profile(e, 2, consts=(True,)), depth=3, shards=128,
               mid_ops=_names("not", "and", "or"), top_ops=_names(*_B2)))
    # ---- arithmetic
    A(dict(name="lia-d2", profile=lambda e: P.lia_profile(e), depth=2, shards=32,
           mid_ops=_binary_or_less, top_ops=_binary_or_less))
    A(dict(name="lra-d2", profile=lambda e: P.lra_profile(e), depth=2, shards=32,
           mid_ops=_binary_or_less, top_ops=_binary_or_less))
    A(dict(name="lira-d2", profile=lambda e: P.lira_profile(e), depth=2, shards=16,
           mid_ops=_binary_or_less, top_ops=_binary_or_less))
    A(dict(name="lia-ite-d2", profile=lambda e: P.lia_profile(e, consts=(0, 1), big=False, pow_=False),
           depth=2, shards=16, mid_ops=_binary_or_less, top_ops=_names("ite"), max_new=1 if q else None))
    A(dict(name="lia-nary-d2", profile=lambda e: P.lia_profile(e, consts=(0, 1, -1), big=False,
                                                              div=False, pow_=False, nary3=True),
           depth=2, shards=16, mid_ops=_names("plus", "minus", "times"),
           top_ops=_names("plus3", "times3"), max_new=1 if q else 2))
    # coefficients in (-1, 0), below -1 and non-integral, in both creation orders of constants and symbols
    _AR = ("plus", "minus", "times")
    for cf in (False, True):
        sfx = "-constfirst" if cf else ""
        A(dict(name="lra-coeff%s-d2" % sfx, depth=2, shards=16,
               profile=(lambda cf: lambda e: P.lra_profile(e, consts=(Fraction(-1, 2), Fraction(-3, 2), Fraction(1, 3)),
                                                           div=False, pow_=False, consts_first=cf))(cf),
               mid_ops=_names(*_AR), top_ops=_names("plus", "minus", "times", "le", "eq")))
    A(dict(name="lia-coeff-constfirst-d2", depth=2, shards=16,
           profile=lambda e: P.lia_profile(e, consts=(-1, -2, 3), big=False, div=False, pow_=False, consts_first=True),
           mid_ops=_names(*_AR), top_ops=_names("plus", "minus", "times", "le", "eq")))
    if not q:
        # depth 3 over two symbols and two constants; four-value pools keep the product of interpretations small
        A(dict(name="lia-d3", profile=lambda e: P.lia_profile(e, consts=(0, 2), big=False, nsyms=2, pow_=False),
               depth=3, shards=256, mid_ops=_names("plus", "minus", "times"),
               top_ops=_names("plus", "minus", "times", "le", "eq", "div"), max_new=1, dom={INT: (-2, 0, 1, 3)}))
        A(dict(name="lra-d3", profile=lambda e: P.lra_profile(e, consts=(Fraction(0), Fraction(1, 2)), pow_=False),
               depth=3, shards=256, mid_ops=_names("plus", "minus", "times"),
               top_ops=_names("plus", "minus", "le", "eq", "div"), max_new=1,
               dom={REAL: (Fraction(-2), Fraction(0), Fraction(1, 3), Fraction(2))}))
    # ---- bit-vectors: all constants of the width, all operators
    A(dict(name="bv1-d2", profile=lambda e: P.bv_profile(e, (1,)), depth=2, shards=16,
           mid_ops=_binary_or_less, top_ops=_binary_or_less, max_new=1 if q else None))
    A(dict(name="bv2-d1", profile=lambda e: P.bv_profile(e, (2,)), depth=1, shards=2))
    A(dict(name="bv3-d1", profile=lambda e: P.bv_profile(e, (3,)), depth=1, shards=4))
    A(dict(name="bv1-2-d2", profile=lambda e: P.bv_profile(e, (1, 2), nsyms=1), depth=2, shards=48,
           mid_ops=_binary_or_less, top_ops=_binary_or_less, max_new=1 if q else None))
    if not q:
        A(dict(name="bv3-d2", profile=lambda e: P.bv_profile(e, (3,), nsyms=1), depth=2, shards=128,
               mid_ops=_binary_or_less, top_ops=_binary_or_less, max_new=1))
        A(dict(name="bv4-d1", profile=lambda e: P.bv_profile(e, (4,)), depth=1, shards=8))
    # ---- beyond the small sizes: five-argument n-ary operators; widths 5 and 8 over all constants [thorough];
    # ---- widths 33 and 65 over a pool of boundary values
    A(dict(name="nary5-d1", profile=P.nary5_profile, depth=1, shards=16, dom={INT: (-1, 0, 2), REAL: (Fraction(-1), Fraction(0), Fraction(1, 2))}))
    for w in (33, 65):
        A(dict(name="bv%d-d1" % w, profile=(lambda w: lambda e: P.widebv_profile(e, w))(w), depth=1, shards=8,
               dom=P.widebv_dom(w)))
    if not q:
        A(dict(name="bv5-d1", profile=lambda e: P.bv_profile(e, (5,)), depth=1, shards=32))
        A(dict(name="bv8-d1", profile=lambda e: P.bv_profile(e, (8,), nsyms=0), depth=1, shards=256))
    # ---- strings
    A(dict(name="str-d1", profile=lambda e: P.str_profile(e, strs=("", "a", "ab", "abc", "12", "-5", " 1", "1_0", "+3",
                                                                      "\u0663", "1\u0663", "\u00b2", "\uff11")),
           depth=1, shards=8))
    A(dict(name="str-d2", profile=lambda e: P.str_profile(e, strs=("", "ab") if q else ("", "ab", "12"),
                                                          ints=(-1, 0, 1) if q else (-1, 0, 1, 2)), depth=2,
           shards=32 if q else 128, max_new=1))
    # ---- arrays
    for nm, i, e_ in (("int-int", INT, INT), ("bv1-bool", ("BV", 1), BOOL), ("bv2-bv2", ("BV", 2), ("BV", 2)),
                      ("int-bool", INT, BOOL)):
        A(dict(name="arr-%s-d2" % nm, profile=(lambda i, e_: lambda e: P.arr_profile(e, i, e_))(i, e_),
               depth=2, shards=16, mid_ops=lambda o: o.name != "arrite",
               top_ops=lambda o: o.name != "store", max_new=1 if q else None))
    # ---- cross-theory terms (children of another theory below every operator)
    A(dict(name="mixed-d2", profile=lambda e: P.mixed_profile(e), depth=2, shards=32, dom={INT: (-1, 0, 1, 2)},
           max_new=1 if q else None))
    if not q:
        A(dict(name="mixed-quant-d2", profile=lambda e: P.mixed_profile(e, quant=True), depth=2, shards=64,
               dom={INT: (-1, 0, 2)}, qdoms=QDOMS, top_ops=lambda o: "_" in o.name or o.name in ("not", "and", "iff")))
    # ---- array literals beyond a handful of cells
    A(dict(name="bigarr-d1", profile=P.bigarr_profile, depth=1, shards=16, top_ops=_names("select", "selectb", "eqa", "eqab"),
           dom={INT: (0, 5, 11, 12)}))
    A(dict(name="bigarr-d2", profile=P.bigarr_profile, depth=2, shards=32, mid_ops=_names("store", "storeb"),
           top_ops=_names("select", "selectb", "eqab"), max_new=1, dom={INT: (0, 5, 12)}))
    A(dict(name="arridx-d3", profile=P.arridx_profile, depth=3, shards=16, mid_ops=_names("store", "select"),
           top_ops=_names("select", "eq", "eqk"), max_new=1, dom={INT: (0, 7)}))
    # ---- uninterpreted functions over array arguments (extensionally equal literals that are different nodes)
    A(dict(name="ufarr-d2", profile=P.ufarr_profile, depth=2, shards=16, mid_ops=_names("f", "g", "k"),
           top_ops=_names("f", "k", "iff", "eqa", "eqk", "not")))
    # ---- uninterpreted functions
    A(dict(name="uf-d2", profile=P.uf_profile, depth=2, shards=8, dom={INT: (0, 1, 2)}))
    # ---- quantifiers
    A(dict(name="quant-d2", profile=P.quant_profile, depth=2, shards=32, qdoms=QDOMS,
           dom={INT: (-1, 0, 1, 2)}, max_new=1 if q else None))
    if not q:
        A(dict(name="quant-d3", profile=P.quant_profile, depth=3, shards=128, qdoms=QDOMS,
               dom={INT: (0, 1)},
               mid_ops=_names("and", "or", "not", "le", "bveq1", "forall_a", "exists_u", "forall_x", "exists_ab"),
               top_ops=lambda o: "_" in o.name or o.name in ("not", "and"), max_new=1))
    return ps


def run(ctx):
    ctx.level = "exploration"
    ctx.rule = ("all (operator, argument tuple) applications of each profile up to the part's depth "
                "(hash-consing de-duplicates structurally equal terms within a shard); a case is "
                "non-trivial when simplify returned a different object (a rewrite rule fired); each "
                "non-trivial case is evaluated under every interpretation of its free symbols over the "
                "finite value pools and every quantification domain")
    ctx.assumptions = ["reference semantics mc/core/refsem.py (SMT-LIB 2.6 theory definitions)",
                       "Int/Real quantifiers range over the explicit finite domains {0},{0,1},{-1,0,2}",
                       "value pools: Int -2..3, Real {-2,-1/2,0,1/3,1,2}, all BV values of the width, "
                       "9 corner strings, canonical small arrays/function tables"]
    ps = parts(ctx)
    ctx.coverage["parts"] = [{"name": p["name"], "depth": p["depth"]} for p in ps]
    sweep(ctx, ps, make)


def replay(rec):
    env = Environment()
    push_env(env)
    try:
        f = termio.build(env, rec["case"]["term"])
        v = make_verdict(env, {"qdoms": QDOMS})(f)
        if v is None:
            return True, "simplify(%s) preserves sort, symbols and value" % termio.short(rec["case"]["term"])
        return False, "simplify(%s): %s: %s" % (termio.short(rec["case"]["term"]), v[0], v[1])
    finally:
        pop_env()
