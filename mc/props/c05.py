"""C05 - substitution obeys the substitution lemma and the documented replacement order.

Enumerated: every pair (formula, map).  Formulas are *all* terms of small dedicated profiles
(bool / lia / bv / uf / quant) up to the part's depth plus a few hand-written seeds (shared
sub-DAGs across a binder, nested and shadowing quantifiers).  Maps are *all* type-correct
maps with at most `keys` entries whose keys are symbols of the profile or sub-terms of the
formula *or of the formula after applying the rest of the map* (this is what makes
overlapping maps such as {a->c, (c&b)->d, (a&b)->c} appear) and whose values range over the
profile's value pool (fresh symbols, symbols of the formula, symbols that are bound
somewhere, compound terms mentioning the key itself, constants).  For the uf parts every
assignment of bodies to one or two function symbols is enumerated as well.

Every case is run through MGSubstituter and MSSubstituter by several routes
(FNode.substitute, env.substituter.substitute, a fresh instance, an instance kept for the
whole shard): all six routes for every one-key map and every bare interpretation set, a
rotating pair of routes (one per strategy) for the larger maps; some parts run in an
Environment whose SubstituterClass is MSSubstituter (then FNode.substitute and the
instantiation of interpretation bodies are most-specific).

Oracles (none of them calls the substituter):
 (b) order     the result IS the formula computed by RefSub below, a recursive definition of
               most-general (look-up, then rebuild) / most-specific (rebuild, then look-up)
               replacement written from the docstrings of pysmt/substituter.py, which drops
               under a binder the keys that mention one of its variables, and rebuilds through
               the public constructors of the FormulaManager;
 (a) lemma     for symbol-keyed capture-free cases  ev(result, I) == ev(f, I[x -> ev(s(x), I)])
               for every interpretation I over the finite pools (refsem), the result has the
               sort of f and no new free symbol; bound occurrences are untouched (own parallel
               scoped traversal of input and result);
 (c) interp    after applying function interpretations no application of an interpreted symbol
               remains, and the value agrees with evaluating f with the function given by the
               body (same evaluation as (a), the interpreted symbols being bound to the
               functions  args -> ev(body, I[params -> args])).
"""
from itertools import product, combinations
import pysmt.operators as op
from pysmt.environment import Environment, push_env, pop_env
from pysmt.substituter import MGSubstituter, MSSubstituter, FunctionInterpretation
from ..core import termio
from ..core import termgen
from ..core.refsem import compile_term, free_symbols, Unconstrained
from ..core.termgen import Profile, interps
from ..core.termio import BOOL, INT, mk_type, norm_sort
from ..core.runner import Result
from ..core.sig import kind, subterms_postorder

BV1, BV2 = ("BV", 1), ("BV", 2)
FII = ("Fun", INT, (INT,))
FIII = ("Fun", INT, (INT, INT))

DOM = {INT: (-1, 0, 2)}
QDOMS = [{INT: (0, 1)}, {INT: (-1, 0, 2)}]


class MSEnvironment(Environment):
    """an environment whose default strategy is most-specific substitution"""
    SubstituterClass = MSSubstituter


# ---------------------------------------------------------------------------------------
# the reference definition of the two replacement orders

class RefRaised(Exception):
    pass


class Cyclic(Exception):
    pass


def _q(ctor):
    return lambda m, n, k: getattr(m, ctor)(n.quantifier_vars(), k[0])


def _nary(ctor):
    return lambda m, n, k: getattr(m, ctor)(k)


def _fix(ctor):
    return lambda m, n, k: getattr(m, ctor)(*k)


_REBUILD = {
    op.AND: _nary("And"), op.OR: _nary("Or"), op.PLUS: _nary("Plus"), op.TIMES: _nary("Times"),
    op.NOT: _fix("Not"), op.IMPLIES: _fix("Implies"), op.IFF: _fix("Iff"), op.ITE: _fix("Ite"),
    op.EQUALS: _fix("Equals"), op.LE: _fix("LE"), op.LT: _fix("LT"), op.MINUS: _fix("Minus"),
    op.DIV: _fix("Div"), op.TOREAL: _fix("ToReal"),
    op.FORALL: _q("ForAll"), op.EXISTS: _q("Exists"),
    op.FUNCTION: lambda m, n, k: m.Function(n.function_name(), k),
    op.BV_NOT: _fix("BVNot"), op.BV_NEG: _fix("BVNeg"), op.BV_AND: _fix("BVAnd"),
    op.BV_OR: _fix("BVOr"), op.BV_XOR: _fix("BVXor"), op.BV_ADD: _fix("BVAdd"),
    op.BV_SUB: _fix("BVSub"), op.BV_MUL: _fix("BVMul"), op.BV_UDIV: _fix("BVUDiv"),
    op.BV_UREM: _fix("BVURem"), op.BV_LSHL: _fix("BVLShl"), op.BV_LSHR: _fix("BVLShr"),
    op.BV_ULT: _fix("BVULT"), op.BV_ULE: _fix("BVULE"), op.BV_SLT: _fix("BVSLT"),
    op.BV_SLE: _fix("BVSLE"), op.BV_CONCAT: _fix("BVConcat"), op.BV_COMP: _fix("BVComp"),
    op.BV_SDIV: _fix("BVSDiv"), op.BV_SREM: _fix("BVSRem"), op.BV_ASHR: _fix("BVAShr"),
    op.BV_TONATURAL: _fix("BVToNatural"),
    op.BV_EXTRACT: lambda m, n, k: m.BVExtract(k[0], n.bv_extract_start(), n.bv_extract_end()),
    op.BV_ZEXT: lambda m, n, k: m.BVZExt(k[0], n.bv_extend_step()),
    op.BV_SEXT: lambda m, n, k: m.BVSExt(k[0], n.bv_extend_step()),
    op.BV_ROL: lambda m, n, k: m.BVRol(k[0], n.bv_rotation_step()),
    op.BV_ROR: lambda m, n, k: m.BVRor(k[0], n.bv_rotation_step()),
}

_FREE = {}


def free_names(t):
    """names of the symbols free in t (own scoped traversal: refsem.free_symbols)"""
    r = _FREE.get(t)
    if r is None:
        if len(_FREE) > 100000:
            _FREE.clear()
        r = _FREE[t] = frozenset(free_symbols(t))
    return r


# The documented most-specific order is "rebuild, then look the rebuilt node up".  When a public
# constructor simplifies (Not(Not(x)) -> x) the "rebuilt node" is a piece of an already replaced
# argument; looking that up again is what the code does today and what breaks the lemma for MSS
# (finding lemma:MSS:NOT(sym):value).  If MSSubstituter is repaired not to look up a node of a
# different operator than the one it rebuilt, set this to False: the reference then reads the
# docstring the same way.
MSS_LOOKS_UP_COLLAPSED = False


class RefSub(object):
    """Replacement of the keys of `subs` in a formula, as documented in pysmt/substituter.py.

    most general : a node that is a key is replaced by its value; otherwise its children are
                   replaced and the node is rebuilt from them;
    most specific: the children are replaced, the node is rebuilt, and the *rebuilt* node is
                   looked up.
    Quantifiers  : the body is processed with the map restricted to the keys in which no
                   variable of the binder occurs free; the binder list is kept.
    Interpretations: an application of an interpreted symbol (arguments processed first) is
                   rebuilt as the body with the formal parameters replaced by the arguments
                   (by the environment's default strategy); the statement requires that no
                   application of an interpreted symbol is left, so applications that come
                   from the body are interpreted in turn.
    """

    def __init__(self, mgr, general, inst_general):
        self.m = mgr
        self.general = general
        self.inst_general = inst_general

    def substitute(self, f, subs, fis=None):
        try:
            return self._sub(f, subs, fis or {}, {}, 0)
        except (Cyclic, RecursionError):
            raise Cyclic()

    def _sub(self, n, subs, fis, memo, level):
        r = memo.get(n)
        if r is not None:
            return r
        if self.general and n in subs:
            r = subs[n]
        else:
            if n.is_quantifier():
                names = set(v.symbol_name() for v in n.quantifier_vars())
                inner = {}
                for k, v in subs.items():
                    if not (free_names(k) & names):
                        inner[k] = v
                body = self._sub(n.arg(0), inner, fis, {}, level)
                r = _REBUILD[n.node_type()](self.m, n, [body])
            elif n.is_symbol() or n.is_constant():
                r = n
            else:
                kids = [self._sub(k, subs, fis, memo, level) for k in n.args()]
                if fis and n.is_function_application() and n.function_name() in fis:
                    r = self._interpret(n.function_name(), kids, fis, level)
                else:
                    r = _REBUILD[n.node_type()](self.m, n, kids)
            if not self.general and (MSS_LOOKS_UP_COLLAPSED or r.node_type() == n.node_type()):
                r = subs.get(r, r)
        memo[n] = r
        return r

    def _interpret(self, fn, actual, fis, level):
        if level > 6:
            raise Cyclic()
        params, body = fis[fn][0], fis[fn][1]
        inst = RefSub(self.m, self.inst_general, self.inst_general)._sub(
            body, dict(zip(params, actual)), {}, {}, 0)
        if _mentions(body, fis):
            inst = RefSub(self.m, True, self.inst_general)._sub(inst, {}, fis, {}, level + 1)
        return inst


def _mentions(t, fns):
    """does t contain an application of one of the function symbols fns"""
    for n in subterms_postorder(t):
        if n.is_function_application() and n.function_name() in fns:
            return True
    return False


def _has_q(t):
    for n in subterms_postorder(t):
        if n.is_quantifier():
            return True
    return False


def _binders(t):
    out = set()
    for n in subterms_postorder(t):
        if n.is_quantifier():
            out.update(v.symbol_name() for v in n.quantifier_vars())
    return out


def _all_names(t):
    out = set()
    for n in subterms_postorder(t):
        if n.is_symbol():
            out.add(n.symbol_name())
        elif n.is_quantifier():
            out.update(v.symbol_name() for v in n.quantifier_vars())
    return out


# ---------------------------------------------------------------------------------------
# one case

RESTRUCTURED = "restructured"


class Checker(object):
    def __init__(self, env, ms_env=False, dom=None, qdoms=None):
        self.env = env
        self.m = env.formula_manager
        self.ms_env = ms_env
        self.dom = dom if dom is not None else DOM
        self.qdoms = qdoms if qdoms is not None else QDOMS
        self.cm = {}
        self.kept = {"MGS": MGSubstituter(env), "MSS": MSSubstituter(env)}
        self.refs = {"MGS": RefSub(self.m, True, not ms_env), "MSS": RefSub(self.m, False, not ms_env)}
        self._fi_objs = {}
        self.info = {}
        d = "MSS" if ms_env else "MGS"
        self.routes = [
            (d, "FNode.substitute", lambda f, s, i: f.substitute(s, i)),
            (d, "env.substituter", lambda f, s, i: env.substituter.substitute(f, s, i)),
            ("MGS", "fresh MGSubstituter", lambda f, s, i: MGSubstituter(env).substitute(f, s, i)),
            ("MGS", "kept MGSubstituter", lambda f, s, i: self.kept["MGS"].substitute(f, s, interpretations=i)),
            ("MSS", "fresh MSSubstituter", lambda f, s, i: MSSubstituter(env).substitute(f, s, i)),
            ("MSS", "kept MSSubstituter", lambda f, s, i: self.kept["MSS"].substitute(f, s, interpretations=i)),
        ]

        def via_shortcut(f, s, i):
            import pysmt.shortcuts
            return pysmt.shortcuts.substitute(f, s, i)

        def grown_in_place(f, s, i):
            # one dict object: substituted with all keys but the last, extended in place, substituted again
            items = list(s.items())
            if len(items) < 2:
                return env.substituter.substitute(f, s, i)
            dct = dict(items[:-1])
            try:
                env.substituter.substitute(f, dct, i)
            except Exception:
                self._reset()
            dct.update(items[-1:])
            return env.substituter.substitute(f, dct, i)
        # further entry points of the default strategy, run for every case (not part of the rotation)
        self.extra_routes = [
            (d, "shortcuts.substitute", via_shortcut),
            (d, "env.substituter with the map grown in place", grown_in_place),
        ]

    def sort(self, t):
        return compile_term(t, self.cm)[0]

    def reference(self, f, subs, fis):
        out = {}
        for st in ("MGS", "MSS"):
            try:
                out[st] = self.refs[st].substitute(f, subs, fis)
            except Cyclic:
                raise
            except Exception as e:
                out[st] = RefRaised(repr(e))
        return out

    def _fi(self, fis):
        if not fis:
            return None
        out = {}
        for fn, spec in fis.items():
            key = (fn, tuple(spec[0]), spec[1], spec[2])
            o = self._fi_objs.get(key)
            if o is None:
                o = self._fi_objs[key] = FunctionInterpretation(list(spec[0]), spec[1],
                                                                allow_free_vars=spec[2])
            out[fn] = o
        return out

    def _reset(self):
        """after an exception inside a substituter: nothing stale may leak into the next case
        (a failing call leaving the shared walker dirty is property C15, not C05)"""
        self.kept = {"MGS": MGSubstituter(self.env), "MSS": MSSubstituter(self.env)}
        s = self.env.substituter
        s.memoization.clear()
        del s.stack[:]

    # -- the verdict -------------------------------------------------------------------
    # route indices used for the larger maps (rotating): default strategy + the other one
    LEAN = {False: ((0, 5), (1, 4), (3, 5), (2, 4), (0, 4), (1, 5)),
            True: ((0, 3), (1, 2), (5, 3), (4, 2), (0, 2), (1, 3))}

    def verdicts(self, f, subs, fis=None, refs=None, lean=None):
        """list of (oracle, strategy, failure kind, message); [] when the property holds.
        self.info describes the case (for outcome labels).  lean=None: all six routes;
        lean=n: the n-th pair of routes (one per strategy)."""
        fis = fis or {}
        out = []
        info = self.info = {"changed": False, "differ": False, "sem": "none"}
        if refs is None:
            refs = self.reference(f, subs, fis)
        fi = self._fi(fis)
        got = {}
        routes = self.routes
        if lean is not None:
            pair = self.LEAN[self.ms_env][lean % 6]
            routes = [routes[pair[0]], routes[pair[1]]]
        routes = list(routes) + self.extra_routes
        for st, route, call in routes:
            want = refs[st]
            if isinstance(want, RefRaised):
                if not any(o[0] == "harness" for o in out):
                    out.append(("harness", st, "reference-raised",
                                "the reference construction raised %s" % want))
                continue
            try:
                r = call(f, subs, fi)
            except Exception as e:
                self._reset()
                if not any(o[:3] == ("order", st, "exception") for o in out):
                    out.append(("order", st, "exception", "%s raised %r" % (route, e)))
                continue
            got.setdefault(st, r)
            if r is not want and not any(o[:3] == ("order", st, "differs") for o in out):
                out.append(("order", st, "differs", "%s returned %s, the documented %s replacement is %s"
                            % (route, _sh(r), st, _sh(want))))
        if "MGS" in got and "MSS" in got and got["MGS"] is not got["MSS"]:
            info["differ"] = True
        if any(r is not f for r in got.values()):
            info["changed"] = True
        # ---- (c) no application of an interpreted symbol remains
        if fis and not any(_mentions(v, fis) for v in subs.values()):
            for st, r in got.items():
                if _mentions(r, fis):
                    out.append(("interp", st, "remains", "the result %s still applies an interpreted symbol"
                                % _sh(r)))
        # ---- (a)/(c) meaning
        if (subs or fis) and all(k.is_symbol() for k in subs):
            if self.captures(f, subs, fis):
                info["sem"] = "capture"
            elif fis and self.body_mentions_key(subs, fis):
                # neither the statement nor the docstrings say whether a map entry applies to the
                # free symbols of an interpretation body (MGS: no, MSS: sometimes): not demanded
                info["sem"] = "unspecified"
            else:
                info["sem"] = "lemma"
                done = []
                for st, r in got.items():
                    prev = [b for d, b in done if d is r]
                    if prev:
                        bad = prev[0]
                    else:
                        bad = self.lemma(f, subs, fis, r)
                        done.append((r, bad))
                    if bad:
                        out.append(("interp" if fis else "lemma", st, bad[0], bad[1]))
            if not fis:
                for st, r in got.items():
                    bad = self.bound_check(f, subs, r)
                    if bad == RESTRUCTURED:
                        info["restructured"] = True
                    elif bad:
                        out.append(("bound", st, "occurrence", bad))
        return _merge(out)

    @staticmethod
    def body_mentions_key(subs, fis):
        keyn = set(k.symbol_name() for k in subs)
        for spec in fis.values():
            pn = set(p.symbol_name() for p in spec[0])
            if (free_names(spec[1]) - pn) & keyn:
                return True
        return False

    # -- capture analysis (own scoped traversal) ---------------------------------------------
    def captures(self, f, subs, fis):
        """does a free symbol of a replacement term fall under a quantifier binding it?"""
        vfree = {k.symbol_name(): free_names(v) for k, v in subs.items()}
        memo = {}

        def rec(n, bound):
            key = (n, bound)
            r = memo.get(key)
            if r is not None:
                return r
            if n.is_symbol():
                nm = n.symbol_name()
                r = bool(nm in vfree and nm not in bound and (vfree[nm] & bound))
            elif n.is_quantifier():
                r = rec(n.arg(0), bound | frozenset(v.symbol_name() for v in n.quantifier_vars()))
            else:
                r = any(rec(k, bound) for k in n.args())
            memo[key] = r
            return r
        if rec(f, frozenset()):
            return True
        if fis:
            # conservative: a free non-parameter symbol of a body is bound somewhere in f, or a
            # binder inside a body has the name of a symbol of f / of a replacement term
            names = set(_all_names(f))
            for v in subs.values():
                names |= _all_names(v)
            fb = _binders(f)
            for spec in fis.values():
                names |= free_names(spec[1])
            for fn, spec in fis.items():
                pn = set(p.symbol_name() for p in spec[0])
                if (free_names(spec[1]) - pn) & fb:
                    return True
                if _binders(spec[1]) & names:
                    return True
        return False

    # -- the substitution lemma, by evaluation -----------------------------------------------
    def lemma(self, f, subs, fis, r):
        cm = self.cm
        sf, ff = compile_term(f, cm)
        try:
            sr, fr = compile_term(r, cm)
        except Exception as e:
            return ("type", "the result %s is not well-typed: %s" % (_sh(r), e))
        if sr != sf:
            return ("type", "sort %s became %s" % (termio.sort_str(sf), termio.sort_str(sr)))
        syms = dict(free_symbols(f))
        keyn = set(k.symbol_name() for k in subs)
        allowed = set(n for n in syms if n not in keyn)
        for v in subs.values():
            fv = free_symbols(v)
            syms.update(fv)
            allowed.update(fv)
        hasq = _has_q(f) or any(_has_q(v) for v in subs.values())
        fdefs = []
        for fn, spec in fis.items():
            pn = [p.symbol_name() for p in spec[0]]
            fb = free_symbols(spec[1])
            for n_, s_ in fb.items():
                if n_ not in pn:
                    syms[n_] = s_
                    allowed.add(n_)
            fdefs.append((fn.symbol_name(), pn, compile_term(spec[1], cm)[1]))
            hasq = hasq or _has_q(spec[1])
        for k in subs:
            syms.setdefault(k.symbol_name(), self.sort(k))
        inames = set(d[0] for d in fdefs)
        extra = set(free_symbols(r)) - allowed - inames
        if extra:
            return ("symbol", "the result %s mentions %s, free neither in the input nor in a replacement"
                    % (_sh(r), sorted(extra)))
        for n_ in inames:
            syms.pop(n_, None)
        keyvals = [(k.symbol_name(), compile_term(v, cm)[1]) for k, v in subs.items()]
        for I in interps(syms, self.dom, self.qdoms if hasq else None):
            if fdefs:
                I = dict(I)
                for name, pn, bf in fdefs:
                    I[name] = _closure(I, pn, bf)
            try:
                J = dict(I)
                for nm, fv in keyvals:
                    J[nm] = fv(I)
                want = ff(J)
            except Unconstrained:
                continue
            except RecursionError:
                return None
            try:
                have = fr(I)
            except Unconstrained:
                continue
            if want != have:
                return ("value", "under %s the input evaluates to %r with the replaced symbols updated, "
                        "but the result %s evaluates to %r" % (_showI(I), want, _sh(r), have))
        return None

    # -- bound occurrences are never replaced (parallel scoped traversal) -----------------------
    def bound_check(self, f, subs, r):
        memo = {}

        def par(n, g, bound):
            key = (n, g, bound)
            if key in memo:
                return memo[key]
            res = None
            if n.is_symbol():
                if n.symbol_name() in bound:
                    if g is not n:
                        res = "a bound occurrence of %s became %s" % (n.symbol_name(), _sh(g))
                elif g is not subs.get(n, n):
                    # what a free occurrence becomes is the business of the order oracle and of
                    # the lemma (a constructor may have collapsed around it): stop comparing here
                    res = RESTRUCTURED
            elif n.is_constant():
                if g is not n:
                    res = "the constant %s became %s" % (_sh(n), _sh(g))
            elif g.node_type() != n.node_type() or len(g.args()) != len(n.args()):
                res = RESTRUCTURED
            elif n.is_quantifier():
                if tuple(g.quantifier_vars()) != tuple(n.quantifier_vars()):
                    res = "the binder list of %s became %s" % (_sh(n), _sh(g))
                else:
                    res = par(n.arg(0), g.arg(0),
                              bound | frozenset(v.symbol_name() for v in n.quantifier_vars()))
            else:
                if n.is_function_application() and g.function_name() is not n.function_name():
                    res = RESTRUCTURED
                else:
                    for a, b in zip(n.args(), g.args()):
                        x = par(a, b, bound)
                        if x:
                            res = x
                            if x != RESTRUCTURED:
                                break
            memo[key] = res
            return res
        return par(f, r, frozenset())


def _merge(out):
    """one record when both strategies fail the same oracle in the same way"""
    res = []
    for o in out:
        twin = [x for x in out if x[0] == o[0] and x[2] == o[2] and x[1] != o[1]]
        if twin:
            if o[1] == "MGS":
                res.append((o[0], "MGS+MSS", o[2], o[3]))
        else:
            res.append(o)
    return res


def _closure(I, pn, bf):
    def call(*args):
        J = dict(I)
        for n, a in zip(pn, args):
            J[n] = a
        return bf(J)
    return call


def _sh(t):
    return termio.short(termio.dump(t), 160)


def _showI(I):
    return {k: v for k, v in I.items() if not callable(v) or hasattr(v, "table")}


# ---------------------------------------------------------------------------------------
# profiles: formula alphabet + value pool + key symbols + interpretation bodies + seeds

def _finish(p, values, keysyms, seeds=(), bodies=None):
    p.values = values
    p.keysyms = list(keysyms)
    p.seeds = list(seeds)
    p.bodies = bodies or {}
    return p


def p_bool(env, nv=4, ite=True, true=True):
    p = Profile("c05-bool", env)
    m = p.m
    a, b, c, d = [p.sym(n, BOOL) for n in "abcd"]
    p.leaf(BOOL, a, b)
    if true:
        p.leaf(BOOL, m.TRUE())
    p.op("not", [BOOL], BOOL, lambda m, x: m.Not(x))
    p.op("and", [BOOL, BOOL], BOOL, lambda m, x, y: m.And(x, y))
    p.op("or", [BOOL, BOOL], BOOL, lambda m, x, y: m.Or(x, y))
    if ite:
        p.op("ite", [BOOL, BOOL, BOOL], BOOL, lambda m, x, y, z: m.Ite(x, y, z))
    vals = [c, d, b, m.Not(a), m.TRUE(), m.And(c, b)]
    return _finish(p, {BOOL: vals[:nv]}, [a, b, c])


def p_lia(env, nv=3):
    p = Profile("c05-lia", env)
    m = p.m
    x, y, z = [p.sym(n, INT) for n in "xyz"]
    a, c = p.sym("a", BOOL), p.sym("c", BOOL)
    p.leaf(INT, x, y, m.Int(0), m.Int(1))
    p.leaf(BOOL, a)
    p.op("plus", [INT, INT], INT, lambda m, s, t: m.Plus(s, t))
    p.op("times", [INT, INT], INT, lambda m, s, t: m.Times(s, t))
    p.op("minus", [INT, INT], INT, lambda m, s, t: m.Minus(s, t))
    p.op("le", [INT, INT], BOOL, lambda m, s, t: m.LE(s, t))
    p.op("eq", [INT, INT], BOOL, lambda m, s, t: m.Equals(s, t))
    p.op("ite", [BOOL, INT, INT], INT, lambda m, s, t, u: m.Ite(s, t, u))
    p.op("not", [BOOL], BOOL, lambda m, s: m.Not(s))
    p.op("and", [BOOL, BOOL], BOOL, lambda m, s, t: m.And(s, t))
    iv = [z, y, m.Plus(x, m.Int(1)), m.Int(0)]
    bv = [c, m.Not(a), m.LE(x, z)]
    return _finish(p, {INT: iv[:nv], BOOL: bv[:max(1, nv - 1)]}, [x, y, z, a])


def p_bv(env, nv=3):
    p = Profile("c05-bv", env)
    m = p.m
    u, v, w = [p.sym(n, BV2) for n in "uvw"]
    s, t = p.sym("s", BV1), p.sym("t", BV1)
    a, c = p.sym("a", BOOL), p.sym("c", BOOL)
    p.leaf(BV2, u, v, m.BV(1, 2))
    p.leaf(BV1, s)
    p.leaf(BOOL, a)
    p.op("bvadd", [BV2, BV2], BV2, lambda m, x, y: m.BVAdd(x, y))
    p.op("bvand", [BV2, BV2], BV2, lambda m, x, y: m.BVAnd(x, y))
    p.op("bvnot", [BV2], BV2, lambda m, x: m.BVNot(x))
    p.op("bvult", [BV2, BV2], BOOL, lambda m, x, y: m.BVULT(x, y))
    p.op("bveq", [BV2, BV2], BOOL, lambda m, x, y: m.Equals(x, y))
    p.op("extract0", [BV2], BV1, lambda m, x: m.BVExtract(x, 0, 0))
    p.op("extract1", [BV2], BV1, lambda m, x: m.BVExtract(x, 1, 1))
    p.op("concat", [BV1, BV1], BV2, lambda m, x, y: m.BVConcat(x, y))
    p.op("zext", [BV1], BV2, lambda m, x: m.BVZExt(x, 1))
    p.op("bvite", [BOOL, BV2, BV2], BV2, lambda m, x, y, z: m.Ite(x, y, z))
    v2 = [w, v, m.BVAdd(u, m.BV(1, 2)), m.BV(3, 2)]
    v1 = [t, m.BVExtract(u, 1, 1), m.BV(0, 1)]
    vb = [c, m.BVULT(u, w)]
    return _finish(p, {BV2: v2[:nv], BV1: v1[:max(1, nv - 1)], BOOL: vb[:max(1, nv - 2)]}, [u, v, s, a])


def p_uf(env, nv=3, fi=False):
    p = Profile("c05-uf", env)
    m = p.m
    f, g, h = p.sym("f", FII), p.sym("g", FII), p.sym("h", FIII)
    x, y, z, k = [p.sym(n, INT) for n in "xyzk"]
    c = p.sym("c", BOOL)
    I0, I1, I2 = m.Int(0), m.Int(1), m.Int(2)
    p.leaf(INT, x, y, I1)
    p.op("f", [INT], INT, lambda m, s: m.Function(f, [s]))
    p.op("g", [INT], INT, lambda m, s: m.Function(g, [s]))
    p.op("h", [INT, INT], INT, lambda m, s, t: m.Function(h, [s, t]))
    p.op("plus", [INT, INT], INT, lambda m, s, t: m.Plus(s, t))
    p.op("eq", [INT, INT], BOOL, lambda m, s, t: m.Equals(s, t))
    F = lambda *a: m.Function(f, list(a))
    G = lambda *a: m.Function(g, list(a))
    H = lambda *a: m.Function(h, list(a))
    seeds = [m.Exists([y], m.Equals(F(y), x)),
             m.And(m.Equals(F(x), G(x)), m.ForAll([x], m.LE(H(x, y), F(x)))),
             m.ForAll([x], m.Exists([y], m.Equals(H(y, x), G(m.Plus(x, y))))),
             m.Equals(F(I2), H(F(I2), G(F(I2))))]
    iv = [z, y, m.Plus(x, I1), I0]
    bodies = {}
    if fi:
        # (formal parameters, body, allow_free_vars)
        bodies[f] = [([x], m.Plus(x, I1), False), ([x], G(x), True), ([x], m.Plus(x, z), True),
                     ([x], y, True), ([x], m.Ite(m.Exists([k], m.LT(x, k)), x, I0), False),
                     ([x], H(x, G(x)), True), ([x], I0, False), ([x], x, False),
                     ([y], m.Times(y, y), False), ([x], G(m.Plus(x, I1)), True)][:fi[0]]
        bodies[g] = [([y], m.Times(y, I2), False), ([x], F(m.Plus(x, I1)), True), ([x], m.Minus(I0, x), False),
                     ([x], I1, False), ([y], H(y, y), True)][:fi[1]]
        bodies[h] = [([x, y], m.Minus(x, y), False), ([y, x], m.Minus(x, y), False),
                     ([x, y], m.Plus(F(x), y), True), ([x, y], m.Ite(m.ForAll([y], m.LE(x, y)), x, y), False),
                     ([x, y], y, False)][:fi[2]]
    return _finish(p, {INT: iv[:nv], BOOL: [c]}, [x, y, z], seeds, bodies)


def p_quant(env, nv=3, ints=True, blocks=True):
    """blocks (quantified leaves) make nested and shadowing binders appear at depth 1-2"""
    p = Profile("c05-quant", env)
    m = p.m
    a, b, c = [p.sym(n, BOOL) for n in "abc"]
    x, y, z = [p.sym(n, INT) for n in "xyz"]
    p.leaf(BOOL, a, b)
    if blocks:
        p.leaf(BOOL, m.ForAll([a], m.Or(a, b)), m.Exists([b], m.And(a, b)))
    p.op("not", [BOOL], BOOL, lambda m, s: m.Not(s))
    p.op("and", [BOOL, BOOL], BOOL, lambda m, s, t: m.And(s, t))
    p.op("or", [BOOL, BOOL], BOOL, lambda m, s, t: m.Or(s, t))
    qs = [("a", [a]), ("b", [b]), ("ab", [a, b])]
    if ints:
        p.leaf(INT, x, y, m.Int(0))
        p.op("le", [INT, INT], BOOL, lambda m, s, t: m.LE(s, t))
        p.op("plus", [INT, INT], INT, lambda m, s, t: m.Plus(s, t))
        qs += [("x", [x]), ("ya", [y, a])]
    for nm, vs in qs:
        p.op("forall_" + nm, [BOOL], BOOL, (lambda vs: lambda m, s: m.ForAll(vs, s))(vs))
        p.op("exists_" + nm, [BOOL], BOOL, (lambda vs: lambda m, s: m.Exists(vs, s))(vs))
    seeds = [m.And(m.Or(a, b), m.ForAll([a], m.Or(a, b))),
             m.ForAll([a], m.And(a, m.Exists([a], m.Or(a, b)))),
             m.Exists([b], m.And(m.ForAll([a], m.Or(a, b)), a)),
             m.ForAll([a], m.Exists([b], m.Or(m.And(a, b), m.Not(m.Or(a, b))))),
             m.Or(m.ForAll([a, b], m.And(a, b)), m.And(a, b))]
    if ints:
        seeds += [m.And(m.ForAll([x], m.LE(x, y)), m.LE(x, y)),
                  m.ForAll([x], m.Exists([y], m.LE(m.Plus(x, y), m.Plus(y, x)))),
                  m.Exists([x], m.And(m.LE(x, y), m.ForAll([y], m.LE(x, y))))]
    bvals = [c, a, m.Not(b), m.And(a, b), m.TRUE()]
    ivals = [z, y, m.Plus(x, m.Int(1))]
    vals = {BOOL: bvals[:nv + 1]}
    keys = [a, b, c]
    if ints:
        vals[INT] = ivals[:nv]
        keys += [x, y]
    return _finish(p, vals, keys, seeds)


# ---------------------------------------------------------------------------------------
# enumeration

def _names(*ns):
    return lambda o: o.name in ns


def parts(ctx):
    q = ctx.quick
    ps = []
    A = ps.append
    B3 = ("not", "and", "or")
    # keys = largest map; env = default strategy of the Environment; fi = enumerate interpretations
    A(dict(name="bool-d1-k3", profile=lambda e: p_bool(e, 4 if q else 6), depth=1, keys=3, shards=24 if q else 64))
    A(dict(name="bool-d2-k2", profile=lambda e: p_bool(e, 3 if q else 4), depth=2, keys=2, shards=48 if q else 96,
           mid_ops=_names(*B3), top_ops=_names(*B3), max_new=1 if q else None))
    A(dict(name="bool-d1-k2-ms", profile=lambda e: p_bool(e, 5), depth=1, keys=2, shards=8, env="ms"))
    A(dict(name="lia-d2-k2", profile=lambda e: p_lia(e, 2 if q else 3), depth=2, keys=2, shards=48,
           mid_ops=_names("plus", "le", "not") if q else _names("plus", "times", "le", "not"),
           top_ops=_names("plus", "times", "le", "eq", "ite", "and") if q else None, max_new=1))
    A(dict(name="lia-d1-k3", profile=lambda e: p_lia(e, 2 if q else 3), depth=1, keys=3, shards=24 if q else 64))
    A(dict(name="bv-d2-k2", profile=lambda e: p_bv(e, 2 if q else 3), depth=2, keys=2, shards=48,
           mid_ops=_names("bvadd", "bvnot", "extract1", "concat", "bvult"), max_new=1))
    A(dict(name="uf-d2-k2", profile=lambda e: p_uf(e, 2 if q else 3), depth=2, keys=2, shards=48,
           mid_ops=_names("f", "h", "plus"), max_new=1))
    A(dict(name="quant-d1-k2", profile=lambda e: p_quant(e, 3), depth=1, keys=2, shards=48))
    A(dict(name="quant-d2-k2", profile=lambda e: p_quant(e, 2, ints=False), depth=2, keys=2, shards=96,
           mid_ops=_names("and", "not", "forall_a", "exists_b") if q else
           _names("and", "not", "forall_a", "exists_b", "forall_ab"),
           top_ops=_names("and", "forall_a", "exists_a", "forall_b", "exists_ab") if q else None, max_new=1))
    A(dict(name="quant-d1-k2-ms", profile=lambda e: p_quant(e, 2, ints=not q), depth=1, keys=2, shards=16, env="ms"))
    nb = (5, 3, 4) if q else (10, 5, 5)
    A(dict(name="uf-interp-d2-k0", profile=lambda e: p_uf(e, 2, fi=nb), depth=2, keys=0, fi=True, shards=64,
           mid_ops=_names("f", "g", "h", "plus"), max_new=1 if q else None))
    A(dict(name="uf-interp-d1-k1", profile=lambda e: p_uf(e, 2, fi=nb), depth=1, keys=1, fi=True, shards=48))
    A(dict(name="uf-interp-d1-k1-ms", profile=lambda e: p_uf(e, 1 if q else 2, fi=nb), depth=1, keys=1, fi=True,
           shards=48, env="ms"))
    if not q:
        A(dict(name="bool-d2-ite-k2", profile=lambda e: p_bool(e, 4), depth=2, keys=2, shards=64,
               mid_ops=_names(*B3), top_ops=_names("ite"), max_new=1))
        A(dict(name="bool-d3-k2", profile=lambda e: p_bool(e, 2, ite=False, true=False), depth=3, keys=2, shards=128,
               mid_ops=_names("not", "and"), top_ops=_names(*B3), max_new=1))
        A(dict(name="quant-int-d2-k2", profile=lambda e: p_quant(e, 2), depth=2, keys=2, shards=128,
               mid_ops=_names("le", "plus", "and", "forall_x", "exists_b"),
               top_ops=_names("and", "not", "forall_x", "exists_x", "forall_ya", "exists_ya", "forall_a"), max_new=1))
        A(dict(name="quant-d3-k1", profile=lambda e: p_quant(e, 3, ints=False, blocks=False), depth=3, keys=1, shards=128,
               mid_ops=_names("and", "forall_a"),
               top_ops=_names("and", "or", "not", "forall_a", "exists_a", "forall_b", "exists_ab"), max_new=1))
        A(dict(name="quant-d1-k3", profile=lambda e: p_quant(e, 2, ints=False), depth=1, keys=3, shards=64))
        A(dict(name="uf-d1-k3", profile=lambda e: p_uf(e, 2), depth=1, keys=3, shards=64))
        A(dict(name="bv-d1-k3", profile=lambda e: p_bv(e, 2), depth=1, keys=3, shards=64))
        A(dict(name="bool-d2-k2-ms", profile=lambda e: p_bool(e, 3), depth=2, keys=2, shards=48, env="ms",
               mid_ops=_names(*B3), max_new=1))
        A(dict(name="uf-interp-d2-k1", profile=lambda e: p_uf(e, 2, fi=(5, 3, 4)), depth=2, keys=1, fi=True,
               shards=96, mid_ops=_names("f", "g", "h", "plus"), max_new=1))
    return ps


def formulas(profile, part):
    """all terms of the part (same definition as core/sweep.py: complete lower levels, last level
    restricted by top_ops / max_new), followed by the profile's seeds"""
    depth = part["depth"]
    mid = part.get("mid_ops")
    ops = [o for o in profile.ops if (mid is None or mid(o))]
    lv = termgen.levels(profile, max(depth - 1, 0), ops_by_level={d: ops for d in range(1, depth + 1)})
    out = termgen.flatten(lv)
    seen = set(out)
    if depth >= 1:
        pools = {}
        for L in lv:
            for s in sorted(L, key=repr):
                pools.setdefault(s, []).extend(L[s])
        newest = set()
        for ns in lv[-1].values():
            newest.update(ns)
        need_new = depth > 1
        max_new = part.get("max_new") if need_new else None
        top = part.get("top_ops")
        for o in profile.ops:
            if top is not None and not top(o):
                continue
            lists = [pools.get(s) for s in o.args]
            if any(not l for l in lists):
                continue
            for tup in product(*lists):
                if need_new:
                    k = sum(1 for a in tup if a in newest)
                    if k == 0 or (max_new is not None and k > max_new):
                        continue
                n = o.build(profile.m, *tup)
                if n not in seen:
                    seen.add(n)
                    out.append(n)
    for s in profile.seeds:
        if s not in seen:
            seen.add(s)
            out.append(s)
    return out


def fi_sets(profile):
    """all acyclic assignments of bodies to one or two function symbols"""
    fns = sorted(profile.bodies, key=lambda s: s.symbol_name())
    out = []
    for fn in fns:
        for spec in profile.bodies[fn]:
            if not _mentions(spec[1], {fn: 1}):
                out.append({fn: spec})
    for f1, f2 in combinations(fns, 2):
        for s1 in profile.bodies[f1]:
            for s2 in profile.bodies[f2]:
                if _mentions(s1[1], {f1: 1}) or _mentions(s2[1], {f2: 1}):
                    continue
                if _mentions(s1[1], {f2: 1}) and _mentions(s2[1], {f1: 1}):
                    continue
                out.append({f1: s1, f2: s2})
    return out


class Explorer(object):
    def __init__(self, chk, profile, part, res):
        self.chk = chk
        self.profile = profile
        self.part = part
        self.res = res
        self.presig = {}
        self.ncase = 0
        self.fisets = fi_sets(profile) if part.get("fi") else []

    def key_pool(self, terms, have):
        out = []
        vals = self.profile.values
        for t in terms:
            for n in subterms_postorder(t):
                if n not in have and self.chk.sort(n) in vals:
                    have.add(n)
                    out.append(n)
        return out

    def explore(self, f):
        chk, vals = self.chk, self.profile.values
        maxkeys = self.part["keys"]
        have = set()
        base = self.key_pool([f], have)
        for s in self.profile.keysyms:
            if s not in have:
                have.add(s)
                base.append(s)
        seen = set()

        def extend(sigma, items, cands, have):
            for k in cands:
                if k in sigma:
                    continue
                for v in vals[chk.sort(k)]:
                    if v is k:
                        continue
                    it = items | frozenset([(k, v)])
                    if it in seen:
                        continue
                    seen.add(it)
                    s2 = dict(sigma)
                    s2[k] = v
                    refs = chk.reference(f, s2, None)
                    self.case(f, s2, None, refs)
                    if len(s2) < maxkeys:
                        h2 = set(have)
                        more = self.key_pool([r for r in refs.values() if not isinstance(r, RefRaised)], h2)
                        extend(s2, it, cands + more, h2)
        if not self.part.get("fi"):
            extend({}, frozenset(), base, have)
            return
        for fis in self.fisets:
            if not _mentions(f, fis):
                self.res.count("interp_sets_not_applicable")
                continue
            self.case(f, {}, fis, None)
            if maxkeys < 1:
                continue
            for k in base:
                for v in vals[chk.sort(k)]:
                    if v is not k:
                        self.case(f, {k: v}, fis, None)

    def case(self, f, subs, fis, refs):
        res, chk = self.res, self.chk
        res.count("evaluations")
        lean = None
        if len(subs) >= 2 or (fis and subs):
            # all six routes on every map with one key (and every bare interpretation set);
            # larger maps rotate over pairs of routes, one per strategy
            lean = self.ncase
            self.ncase += 1
        try:
            bad = chk.verdicts(f, subs, fis, refs, lean)
        except Cyclic:
            res.outcome("cyclic-interpretation-skipped")
            return
        info = chk.info
        if info["changed"]:
            res.count("nontrivial")
        nested = bool(fis) and any(_mentions(s[1], fis) for s in fis.values())
        label = "%s%d:%s:%s:%s%s" % ("fi%d+k" % len(fis) if fis else "k", len(subs),
                                     "sym" if all(k.is_symbol() for k in subs) else "term",
                                     "changed" if info["changed"] else "same",
                                     "mg!=ms" if info["differ"] else "mg==ms",
                                     ":" + info["sem"] if info["sem"] != "none" else "")
        if nested:
            label += ":nested"
        res.outcome(label)
        if info["changed"] and len(res.samples) < 2 and len(subs) + len(fis or ()) >= 2:
            res.sample(case_json(self.part, f, subs, fis), limit=2)
        if not bad:
            return
        for b in bad:
            pre = (b[0], b[1], b[2], len(subs), nested)
            n = self.presig[pre] = self.presig.get(pre, 0) + 1
            if n > 3:
                res.count("violations_not_minimised")
                res.count("violations_raw")
                continue
            f2, s2, i2, b2 = minimise(chk, f, subs, fis or {}, b)
            res.violation(self.part["name"], make_sig(b2, f2, s2, i2),
                          "%s: %s on %s with %s%s: %s" % (self.part["name"], b2[1], _sh(f2), _shmap(s2),
                                                          _shfis(i2), b2[3]),
                          case_json(self.part, f2, s2, i2, found_in=f))


def minimise(chk, f, subs, fis, fail):
    key = fail[:3]

    def still(f2, s2, i2):
        if not s2 and not i2:
            return None
        try:
            for v in chk.verdicts(f2, s2, i2):
                if v[0] == key[0] and v[2] == key[2] and set(v[1].split("+")) & set(key[1].split("+")):
                    return v
        except Cyclic:
            return None
        return None
    changed = True
    while changed:
        changed = False
        for k in list(subs):
            s2 = dict(subs)
            del s2[k]
            v = still(f, s2, fis)
            if v:
                subs, fail, changed = s2, v, True
                break
        if changed:
            continue
        for fn in list(fis):
            i2 = dict(fis)
            del i2[fn]
            v = still(f, subs, i2)
            if v:
                fis, fail, changed = i2, v, True
                break
    for g in subterms_postorder(f):
        if g is f:
            break
        v = still(g, subs, fis)
        if v:
            f, fail = g, v
            break
    return f, subs, fis, fail


def _coarse(n):
    k = kind(n)
    return "op" if k.startswith("op:") else ("const" if k.startswith("const") else k)


def make_sig(fail, f, subs, fis):
    """<oracle>:<strategies>:<root operator>(<child kinds>):[<key kind>><value kind>,...]:<failure kind>
    the map kinds are only part of the signature of the order oracle (for the lemma every key is a
    symbol); with interpretations the root is the operator alone plus fi<n>[-nested]"""
    root = op.op_to_str(f.node_type())
    if not fis:
        root += "(%s)" % ",".join(_coarse(a) for a in f.args())
    ks = ""
    if fail[0] == "order" or fis:
        ks = ":[%s]" % ",".join(sorted(set("%s>%s" % (_coarse(k), _coarse(v)) for k, v in subs.items())))
    fi = ""
    if fis:
        nested = any(_mentions(s[1], fis) for s in fis.values())
        fi = ":fi%d%s" % (len(fis), "-nested" if nested else "")
    return "%s:%s:%s%s%s:%s" % (fail[0], fail[1], root, ks, fi, fail[2])


def _shmap(subs):
    return "{%s}" % ", ".join("%s -> %s" % (_sh(k), _sh(v)) for k, v in subs.items())


def _shfis(fis):
    if not fis:
        return ""
    return " and interpretations {%s}" % ", ".join(
        "%s(%s) = %s%s" % (fn.symbol_name(), ",".join(p.symbol_name() for p in s[0]), _sh(s[1]),
                           " [allow_free_vars]" if s[2] else "") for fn, s in fis.items())


def case_json(part, f, subs, fis, found_in=None):
    c = {"part": part["name"], "ms_env": part.get("env") == "ms",
         "formula": termio.dump(f),
         "subs": [[termio.dump(k), termio.dump(v)] for k, v in subs.items()],
         "interps": [[fn.symbol_name(), termio._js(termio.sort_of(fn.symbol_type())),
                      [termio.dump(p) for p in s[0]], termio.dump(s[1]), bool(s[2])]
                     for fn, s in (fis or {}).items()]}
    if found_in is not None and found_in is not f:
        c["found_in"] = termio.dump(found_in)
    return c


_PARTS = []


def run_shard(args):
    pi, idx, nsh, seed = args
    part = _PARTS[pi]
    res = Result()
    ms = part.get("env") == "ms"
    env = MSEnvironment() if ms else Environment()
    push_env(env)
    try:
        profile = part["profile"](env)
        chk = Checker(env, ms_env=ms)
        ex = Explorer(chk, profile, part, res)
        fs = formulas(profile, part)
        for i, f in enumerate(fs):
            if (i + seed) % nsh != idx:
                continue
            res.count("formulas")
            ex.explore(f)
    finally:
        pop_env()
    return res


# ---------------------------------------------------------------------------------------
# every operator: the substituter rebuilds each kind of node with a rule of its own (indexed bit-vector
# operators, array literals, strings ...).  Over the standard profiles, every formula x every one-key map
# (a symbol, or a constant sub-term incl. the index constants of array literals -> another leaf of the sort)
# is compared with an independent top-down replacement done on the JSON form of the term (mc/core/termio.py)
# and re-built through the public constructors.

from ..core import profiles as SP  # noqa: E402


def _jsub(j, key, val):
    if j == key:
        return val
    if isinstance(j, list):
        return [_jsub(x, key, val) for x in j]
    return j


def _allops_parts(quick):
    out = [("bv12-d1", lambda e: SP.bv_profile(e, (1, 2)), 1, None),
           ("bv3-d1", lambda e: SP.bv_profile(e, (3,), consts=(0, 5)), 1, None),
           ("str-d1", lambda e: SP.str_profile(e, strs=("", "ab"), ints=(0, 1)), 1, None),
           ("lira-d1", SP.lira_profile, 1, None),
           ("arr-int-d2", lambda e: SP.arr_profile(e, INT, INT), 2, 1),
           ("arr-bv-d1", lambda e: SP.arr_profile(e, BV2, BOOL), 1, None),
           ("mixed-d2", lambda e: SP.mixed_profile(e), 2, 1)]
    if not quick:
        out += [("bv12-d2", lambda e: SP.bv_profile(e, (1, 2), nsyms=1, consts=(0, 1)), 2, 1),
                ("str-d2", lambda e: SP.str_profile(e, strs=("", "ab"), ints=(0, 1)), 2, 1)]
    return out


def allops_case(env, f, key, val, routes):
    """None or message: substitute {key: val} in f by every route and by the JSON reference"""
    fj, kj, vj = termio.dump(f), termio.dump(key), termio.dump(val)
    try:
        want = termio.build(env, _jsub(fj, kj, vj), public=True)
    except Exception as e:
        want = ("raised", type(e).__name__)
    for rn, route in routes:
        try:
            got = route(f, {key: val})
        except Exception as e:
            got = ("raised", type(e).__name__)
        if isinstance(want, tuple) or isinstance(got, tuple):
            if isinstance(want, tuple) != isinstance(got, tuple):
                return "%s: substitute raised/returned %r, replacing in the term and re-building gives %r" % (
                    rn, got if isinstance(got, tuple) else _sh(got), want if isinstance(want, tuple) else _sh(want))
            continue
        if got is not want:
            return "%s: returned %s, replacing every occurrence top-down gives %s" % (rn, _sh(got), _sh(want))
    return None


def _allops_routes(env):
    from pysmt.substituter import MGSubstituter, MSSubstituter
    mgs, mss = MGSubstituter(env), MSSubstituter(env)
    return [("FNode.substitute", lambda f, d: f.substitute(d)), ("MGSubstituter", lambda f, d: mgs.substitute(f, d)),
            ("MSSubstituter", lambda f, d: mss.substitute(f, d))]


def run_allops_shard(args):
    pname, idx, nsh, quick = args
    res = Result()
    env = Environment()
    push_env(env)
    try:
        spec = [x for x in _allops_parts(quick) if x[0] == pname][0]
        profile = spec[1](env)
        lv = termgen.levels(profile, spec[2])
        terms = termgen.flatten(lv)
        if spec[3] is not None and spec[2] >= 2:
            # the deepest level only with one non-leaf argument
            leaves = set(termgen.flatten(lv[:1]))
            keep = termgen.flatten(lv[:spec[2]])
            deep = [t for t in termgen.flatten(lv[spec[2]:]) if sum(1 for a in t.args() if a not in leaves) <= spec[3]]
            terms = keep + deep
        routes = _allops_routes(env)
        by_sort = {}
        for srt, ns in profile.leaves.items():
            by_sort[srt] = list(ns)
        for i, f in enumerate(terms):
            if i % nsh != idx or not f.args():
                continue
            keys = []
            seen = set()
            stack = [f]
            while stack:
                n = stack.pop()
                if n in seen:
                    continue
                seen.add(n)
                if n.is_symbol() and not n.symbol_type().is_function_type():
                    keys.append(n)
                elif n.is_constant():
                    keys.append(n)
                stack.extend(n.args())
            for key in keys:
                srt = termio.sort_of(key.get_type() if key.is_constant() else key.symbol_type())
                cands = [v for v in by_sort.get(srt, []) if v is not key][:2]
                for val in cands:
                    res.count("evaluations")
                    res.count("allops_cases")
                    bad = allops_case(env, f, key, val, routes)
                    res.outcome("allops:%s:%s" % (op.op_to_str(f.node_type()), "ok" if bad is None else "differs"))
                    if bad is None:
                        res.count("nontrivial")
                        continue
                    res.violation("allops", "allops:%s(%s:=%s):order" % (op.op_to_str(f.node_type()),
                                                                       "const" if key.is_constant() else "sym",
                                                                       "const" if val.is_constant() else "term"),
                                  "%s with {%s: %s}: %s" % (_sh(f), _sh(key), _sh(val), bad),
                                  {"allops": True, "formula": termio.dump(f), "key": termio.dump(key), "val": termio.dump(val)})
    finally:
        pop_env()
    return res


# ---------------------------------------------------------------------------------------
# maps with many keys: the docstring example of the two strategies scaled to n disjuncts (2n keys, n up to 12):
#   f = (a1 & b) | ... | (an & b),  {ai -> ci, (ci & b) -> di}:  most-general gives (ci & b) ..., most-specific di ...

def run_manykeys(ctx):
    res = ctx.res
    for ms in (False, True):
        for n in (1, 2, 4, 9, 12):
            env = MSEnvironment() if ms else Environment()
            push_env(env)
            try:
                m = env.formula_manager
                b = m.Symbol("b")
                A_ = [m.Symbol("a%d" % i) for i in range(n)]
                C_ = [m.Symbol("c%d" % i) for i in range(n)]
                D_ = [m.Symbol("d%d" % i) for i in range(n)]
                f = m.Or([m.And(A_[i], b) for i in range(n)])
                subs = {}
                for i in range(n):
                    subs[A_[i]] = C_[i]
                    subs[m.And(C_[i], b)] = D_[i]
                chk = Checker(env, ms_env=ms)
                res.count("evaluations")
                res.count("nontrivial")
                bad = chk.verdicts(f, subs, {})
                res.outcome("manykeys:%d:%s" % (2 * n, "ok" if not bad else "differs"))
                if bad:
                    res.violation("manykeys", "manykeys:%s:%s" % (bad[0][1], bad[0][2]),
                                  "%d keys%s: %s" % (2 * n, " [MSS environment]" if ms else "", "; ".join("%s/%s/%s: %s" % x for x in bad)[:600]),
                                  case_json({"name": "manykeys", "env": "ms" if ms else "mg"}, f, subs, {}))
            finally:
                pop_env()


def run(ctx):
    ctx.level = "exploration"
    ctx.rule = ("all formulas of each dedicated profile up to the part's depth (+ seeds with shared sub-DAGs "
                "across binders and shadowing binders) x all type-correct maps with <= keys entries whose keys "
                "are profile symbols or sub-terms of the formula or of the formula after applying the rest of "
                "the map, values from the part's value pool; uf-interp parts: x all acyclic assignments of "
                "bodies to 1-2 function symbols (x all 1-key maps). Each case goes through both strategies "
                "(6 routes for 1-key maps, a rotating pair of routes for larger maps). A case is non-trivial when some strategy returned a formula different from the "
                "input; outcome labels show how many cases distinguish MGS from MSS, are symbol-keyed "
                "(lemma evaluated under every interpretation) or capture cases (order oracle only). All-operators part: every term "
                "of the standard profiles (all bit-vector operators at widths 1-3, strings, Int/Real, arrays incl. literals, "
                "cross-theory) x every one-key map from a symbol or constant sub-term (incl. index constants of array "
                "literals) to another leaf of its sort, three routes, compared with a top-down replacement on the JSON form")
    ctx.assumptions = ["reference semantics mc/core/refsem.py; Int pool {-1,0,2}; Int quantifiers over {0,1} and {-1,0,2}",
                       "the documented replacement orders are RefSub in mc/props/c05.py (keys mentioning a bound "
                       "variable are dropped under its binder; values are never inspected)",
                       "capture cases (a free symbol of a replacement term or of an interpretation body falls under "
                       "a binder of that name) are only compared with the documented replacement, as stated",
                       "only type-correct maps; a fresh Environment per shard"]
    ps = parts(ctx)
    ctx.coverage["parts"] = [{"name": p["name"], "depth": p["depth"], "keys": p["keys"],
                              "env": p.get("env", "mg"), "interpretations": bool(p.get("fi"))} for p in ps]
    del _PARTS[:]
    _PARTS.extend(ps)
    shards = []
    for pi, p in enumerate(ps):
        if getattr(ctx, "parts", None) and p["name"] not in ctx.parts:
            continue
        n = p.get("shards", 16)
        shards.extend((pi, i, n, ctx.seed) for i in range(n))
    ctx.rng.shuffle(shards)
    ctx.pmap(run_shard, shards)
    if not getattr(ctx, "parts", None) or "manykeys" in ctx.parts:
        run_manykeys(ctx)
    if not getattr(ctx, "parts", None) or "allops" in ctx.parts:
        ctx.pmap(run_allops_shard, [(pn, i, 8, ctx.quick) for pn, _, _, _ in _allops_parts(ctx.quick) for i in range(8)])


def replay(rec):
    case = rec["case"]
    if case.get("allops"):
        env = Environment()
        push_env(env)
        try:
            f, k, v = (termio.build(env, case[x]) for x in ("formula", "key", "val"))
            bad = allops_case(env, f, k, v, _allops_routes(env))
            if bad:
                return False, "%s with {%s: %s}: %s" % (_sh(f), _sh(k), _sh(v), bad)
            return True, "substituting %s by %s in %s replaces every occurrence" % (_sh(k), _sh(v), _sh(f))
        finally:
            pop_env()
    ms = bool(case.get("ms_env"))
    env = MSEnvironment() if ms else Environment()
    push_env(env)
    try:
        f = termio.build(env, case["formula"])
        subs = {termio.build(env, k): termio.build(env, v) for k, v in case["subs"]}
        fis = {}
        for name, sort, params, body, afv in case.get("interps", []):
            fn = env.formula_manager.Symbol(name, mk_type(env, norm_sort(sort)))
            fis[fn] = ([termio.build(env, p) for p in params], termio.build(env, body), bool(afv))
        chk = Checker(env, ms_env=ms)
        what = "%s with %s%s%s" % (_sh(f), _shmap(subs), _shfis(fis), " [MSS environment]" if ms else "")
        try:
            bad = chk.verdicts(f, subs, fis)
        except Cyclic:
            return True, "cyclic interpretation: outside the enumerated space"
        if not bad:
            return True, "substitution of %s is the documented replacement and obeys the lemma" % what
        return False, "%s: %s" % (what, "; ".join("%s/%s/%s: %s" % b for b in bad))
    finally:
        pop_env()
