"""C11 - CNF conversion and Ackermannization preserve satisfiability model by model.

CNF (cnf, cnf_as_set, CNFizer.convert_as_formula, PolarityCNFizer.convert_as_formula):
every quantifier-free Boolean skeleton of a part (all operator applications up to the part's
depth over <= 3 atoms and the Boolean constants; atoms are Boolean symbols, LIA/BV relations
(one over a term-level ITE), UF predicates, Boolean array reads) is converted by the real code.
The oracle
  * checks the shape with its own predicates (conjunction of clauses of literals; a literal
    is an atom, a negated atom or a Boolean constant),
  * takes fresh symbols = symbols of the output that are not symbols of the input
    (refsem.free_symbols),
  * evaluates input and output over the whole space {I} x {J}: I ranges over all
    interpretations of the input's symbols over the finite pools (atoms are evaluated by
    refsem), J over all 2^k assignments of the k fresh Boolean symbols.  The space is
    represented bit-parallel (one big integer per node, bit (i, j) = value under (I_i, J_j)),
  * demands: input true under I  => some J satisfies the output;
             output true under (I, J) => input true under I.

Ackermannization (Ackermannizer.do_ackermannization): all terms of the UF parts (nested
applications f(g(x)), f(x+1), f(f(x)), p(f(x),y), Boolean arguments, applications with and
without syntactically equal arguments).  The oracle
  * checks that no FUNCTION node and no function-typed symbol is left,
  * (A) enumerates every behaviour of the uninterpreted functions on the argument tuples that
    are actually evaluated (lazy tables: a branch per possible result of every new argument
    tuple) x every assignment of the other symbols; if the input is true the output must be
    satisfiable by some assignment of the fresh constants (first the canonical one - every
    fresh constant := value of the application it stands for -, then all assignments over the
    candidate values),
  * (B) enumerates every assignment (I', J) of the non-function symbols and the fresh
    constants; if the output is true there must be function tables that make the input true
    (first the tables read off the fresh constants, then a search over all lazy tables).
  get_term_to_const_dict() is used only as a *hint* for the two witness searches; every
  witness is validated by refsem, and a failing hint falls back to the exhaustive search.
"""
from itertools import product
import pysmt.operators as op
import pysmt.rewritings as rw
from pysmt.environment import Environment, push_env, pop_env
from ..core import termio
from ..core import profiles as P5
from ..core.refsem import (compile_term, free_symbols, Unconstrained, IllTyped, Unsupported)
from ..core.termgen import Profile, interps, sort_values
from ..core.termio import INT, BOOL, mk_type
from ..core.sig import kind as node_kind, subterms_postorder
from ..core.sweep import sweep

# ---------------------------------------------------------------------------------------
# bounds (data)

CNF_APIS = ("cnf", "cnf_as_set", "CNFizer.convert_as_formula", "PolarityCNFizer.convert_as_formula",
            # the same converters working in an environment that is NOT the one on top of the stack
            "CNFizer@other-env", "PolarityCNFizer@other-env")
K_MAX = 18                      # fresh Boolean symbols handled bit-parallel (2^18-bit blocks)
SLOW_MAX = 1 << 14              # (I, J) pairs of the generic (non bit-parallel) path
CNF_DOM = {INT: (-1, 0, 1)}     # value pool of Int symbols in CNF parts (BV: all values)
B1, B2 = ("BV", 1), ("BV", 2)

ACK_QUICK = dict(sym={INT: (0, 1)}, res={INT: (0, 1)}, jpool={INT: (0, 1, 2)}, jpool_small={INT: (0, 1)},
                 jsmall_from=5)
ACK_THOROUGH = dict(sym={INT: (0, 1, 2)}, res={INT: (0, 1, 2)}, jpool={INT: (0, 1, 2, 3)},
                    jpool_small={INT: (0, 1, 2)}, jsmall_from=5)
ACK_PAIR_CAP = 40000            # (I', J) pairs per formula in direction (B); above: small pool
ACK_SEARCH_CAP = 30000          # evaluations of one fall-back witness search

_CONNECTIVES = frozenset([op.AND, op.OR, op.NOT, op.IMPLIES, op.IFF, op.FORALL, op.EXISTS])


class ForeignNode(Exception):
    pass


def _is_fun(s):
    return isinstance(s, tuple) and s[0] == "Fun"


def _short(f):
    return termio.short(termio.dump(f))


# ---------------------------------------------------------------------------------------
# shape predicates (written from the statement; nothing of rewritings.py is used)

def _sort(n, cmemo):
    try:
        return compile_term(n, cmemo)[0]
    except (IllTyped, Unsupported):
        return None


def is_atom(n, cmemo):
    """a Boolean-sorted term that is neither a Boolean connective/quantifier/Boolean ITE nor a
    constant"""
    t = n.node_type()
    if t in _CONNECTIVES or t == op.ITE or t == op.BOOL_CONSTANT:
        return False
    return _sort(n, cmemo) == BOOL


def is_literal(n, cmemo):
    if n.node_type() == op.BOOL_CONSTANT:
        return True
    if n.node_type() == op.NOT:
        return is_atom(n.arg(0), cmemo)
    return is_atom(n, cmemo)


def is_clause(n, cmemo):
    if n.node_type() == op.OR:
        return all(is_literal(a, cmemo) for a in n.args())
    return is_literal(n, cmemo)


def _lit_diag(l):
    """signature fragment for a non-literal found where a literal is required"""
    try:
        ks = [node_kind(a) for a in l.args()]
        return "%s(%s)" % (op.op_to_str(l.node_type()), ",".join("const" if k in ("constT", "constF") else k for k in ks))
    except Exception:
        return "not-a-term"


def cnf_shape_error(g, cmemo):
    """None if g is a conjunction of clauses of literals, else (description, diagnosis)"""
    cls = g.args() if g.node_type() == op.AND else (g,)
    for c in cls:
        if not is_clause(c, cmemo):
            lits = c.args() if c.node_type() == op.OR else (c,)
            bad = [l for l in lits if not is_literal(l, cmemo)]
            b = bad[0] if bad else c
            return ("conjunct %s is not a clause of literals (%s is not a literal)" % (_short(c), _short(b)),
                    _lit_diag(b))
    return None


def set_shape_error(cs, cmemo):
    if not isinstance(cs, (set, frozenset)):
        return ("result is a %s, not a set of clauses" % type(cs).__name__, "not-a-set")
    for c in cs:
        if not isinstance(c, (set, frozenset)):
            return ("clause %r is a %s, not a set of literals" % (c, type(c).__name__), "not-a-set")
        for l in c:
            if not hasattr(l, "node_type"):
                return ("%r is not a literal" % (l,), "not-a-term")
            if not is_literal(l, cmemo):
                return ("%s is not a literal" % _short(l), _lit_diag(l))
    return None


def functions_left(g):
    """own traversal: FUNCTION nodes / function-typed symbols occurring in g, with the
    operator directly above each (None at the root)"""
    out = []
    stack, seen = [(g, None)], set()
    while stack:
        n, parent = stack.pop()
        if n in seen:
            continue
        seen.add(n)
        if n.node_type() == op.FUNCTION or (n.is_symbol() and n.symbol_type().is_function_type()):
            out.append((n, parent))
        for a in n.args():
            stack.append((a, n))
    return out


# ---------------------------------------------------------------------------------------
# the bit-parallel (I, J) space for CNF outputs

class _NotBitParallel(Exception):
    pass


_PAT_CACHE = {}


def _patterns(k, N):
    key = (k, N)
    r = _PAT_CACHE.get(key)
    if r is None:
        W = 1 << k
        L = N * W
        ALL = (1 << L) - 1
        pats = []
        for j in range(k):
            half = 1 << j
            p = ((1 << half) - 1) << half
            n = 2 * half
            while n < L:
                p |= p << n
                n *= 2
            pats.append(p & ALL)
        if len(_PAT_CACHE) > 256:
            _PAT_CACHE.clear()
        r = _PAT_CACHE[key] = (W, L, ALL, (1 << W) - 1, pats)
    return r


class Space(object):
    def __init__(self, shared, S, fresh):
        """S: name->sort of the input; fresh: sorted names of the fresh Boolean symbols"""
        self.sh = shared
        self.skey = tuple(sorted(S.items()))
        self.Is = shared.interps_of(self.skey, S)
        self.N = len(self.Is)
        self.fresh = list(fresh)
        self.fidx = {n: j for j, n in enumerate(self.fresh)}
        self.W, self.L, self.ALL, self.BLK, self.pats = _patterns(len(self.fresh), self.N)
        self.invalid = set()       # indices of interpretations skipped (division by zero)
        self.memo = {}

    def expand(self, bits):
        m, W, BLK = 0, self.W, self.BLK
        for i, b in enumerate(bits):
            if b:
                m |= BLK << (i * W)
        return m

    def atom_bits(self, n):
        key = (n, self.skey)
        r = self.sh.bitcache.get(key)
        if r is None:
            if self.fidx and any(s in self.fidx for s in free_symbols(n)):
                raise _NotBitParallel(_short(n))
            srt, fn = compile_term(n, self.sh.cmemo)
            if srt != BOOL:
                raise IllTyped("%s is not Boolean" % _short(n))
            bits, bad = [], []
            for i, I in enumerate(self.Is):
                try:
                    bits.append(bool(fn(I)))
                except Unconstrained:
                    bits.append(False)
                    bad.append(i)
            if len(self.sh.bitcache) > 100000:
                self.sh.bitcache.clear()
            r = self.sh.bitcache[key] = (tuple(bits), tuple(bad))
        self.invalid.update(r[1])
        return r[0]

    def mask(self, n):
        """truth table of the Boolean term n over the whole (I, J) space"""
        r = self.memo.get(n)
        if r is not None:
            return r
        t = n.node_type()
        ALL = self.ALL
        if t == op.BOOL_CONSTANT:
            r = ALL if n.constant_value() else 0
        elif t == op.SYMBOL and n.symbol_name() in self.fidx:
            r = self.pats[self.fidx[n.symbol_name()]]
        elif t == op.NOT:
            r = ALL ^ self.mask(n.arg(0))
        elif t == op.AND:
            r = ALL
            for a in n.args():
                r &= self.mask(a)
        elif t == op.OR:
            r = 0
            for a in n.args():
                r |= self.mask(a)
        elif t == op.IMPLIES:
            r = (ALL ^ self.mask(n.arg(0))) | self.mask(n.arg(1))
        elif t == op.IFF:
            r = ALL ^ (self.mask(n.arg(0)) ^ self.mask(n.arg(1)))
        elif t == op.ITE and _sort(n, self.sh.cmemo) == BOOL:
            c = self.mask(n.arg(0))
            r = (c & self.mask(n.arg(1))) | ((ALL ^ c) & self.mask(n.arg(2)))
        else:
            r = self.expand(self.atom_bits(n))
        self.memo[n] = r
        return r

    def mask_of_clauses(self, cs):
        r = self.ALL
        for c in cs:
            m = 0
            for l in c:
                m |= self.mask(l)
            r &= m
        return r

    def showI(self, i):
        return dict(self.Is[i])

    def showJ(self, blk):
        idx = (blk & -blk).bit_length() - 1
        return {n: bool((idx >> j) & 1) for n, j in self.fidx.items()}


class Shared(object):
    """per-shard caches"""

    def __init__(self, dom):
        self.dom = dom
        self.cmemo = {}
        self.bitcache = {}
        self.icache = {}
        self.failcache = {}

    def interps_of(self, skey, S):
        r = self.icache.get(skey)
        if r is None:
            r = self.icache[skey] = list(interps(S, self.dom))
        return r


class _Shown(object):
    """lazy rendering of a conversion result (only needed in messages)"""

    def __init__(self, g, as_set):
        self.g = g
        self.as_set = as_set

    def __str__(self):
        g = self.g
        try:
            if self.as_set:
                return "{%s}" % ", ".join(sorted("{%s}" % ", ".join(sorted(_short(l) for l in c)) for c in g))
            return _short(g)
        except Exception:
            return repr(g)


def _other_env(env):
    """the companion of env: an environment of its own that is never pushed on the stack (same symbol
    names and sorts as env, since it only ever receives copies of env's formulas)"""
    env2 = getattr(env, "_c11_other_env", None)
    if env2 is None or len(env2.formula_manager.formulae) > 300000:
        from pysmt.environment import Environment
        env2 = env._c11_other_env = Environment()
    return env2


def _call_cnf(api, env, f):
    if api.endswith("@fresh-env"):
        # the formula rebuilt in a brand-new environment (its counters of generated names start at zero)
        env3 = Environment()
        push_env(env3)
        try:
            f3 = termio.build(env3, termio.dump(f))
            cls = rw.CNFizer if api.startswith("CNFizer") else rw.PolarityCNFizer
            return cls(environment=env3).convert_as_formula(f3)
        finally:
            pop_env()
    if api.endswith("@other-env"):
        env2 = _other_env(env)
        f2 = env2.formula_manager.normalize(f)
        cls = rw.CNFizer if api.startswith("CNFizer") else rw.PolarityCNFizer
        g2 = cls(environment=env2).convert_as_formula(f2)
        # every node of the result has to live in the converter's own environment
        stack, seen = [g2], set()
        while stack:
            n = stack.pop()
            if n in seen:
                continue
            seen.add(n)
            if n not in env2.formula_manager:
                raise ForeignNode("the result contains the node %s of another formula manager" % (n,))
            stack.extend(n.args())
        return g2
    if api == "cnf":
        return rw.cnf(f, env)
    if api == "cnf_as_set":
        return rw.cnf_as_set(f, env)
    if api == "CNFizer.convert_as_formula":
        return rw.CNFizer(env).convert_as_formula(f)
    if api == "PolarityCNFizer.convert_as_formula":
        return rw.PolarityCNFizer(env).convert_as_formula(f)
    raise ValueError(api)


def cnf_verdict(env, sh, api, f, info=None):
    """None if the property holds for api(f), else (failure kind, message).
    info (dict) receives k = number of fresh symbols and the satisfiability class of f."""
    try:
        g = _call_cnf(api, env, f)
    except Exception as e:
        return ("exception", "%s(%s) raised %r" % (api, _short(f), e), type(e).__name__)
    S = free_symbols(f)
    as_set = (api == "cnf_as_set")
    # ---- shape
    err = set_shape_error(g, sh.cmemo) if as_set else (
        ("result %r is not a formula" % (g,), "not-a-term") if not hasattr(g, "node_type")
        else cnf_shape_error(g, sh.cmemo))
    shown = _Shown(g, as_set)
    if err is not None:
        return ("shape", "%s(%s) = %s: %s" % (api, _short(f), shown, err[0]), err[1])
    G = {}
    if as_set:
        for c in g:
            for l in c:
                G.update(free_symbols(l))
    else:
        G = free_symbols(g)
    fresh = {n: s for n, s in G.items() if n not in S}
    k = len(fresh)
    if info is not None:
        info["k"] = k
        info["changed"] = as_set or g is not f
    # ---- meaning over {I} x {J}
    if any(s != BOOL for s in fresh.values()) or k > K_MAX:
        return _slow_cnf(sh, api, f, g, as_set, S, fresh, shown, info)
    sp = Space(sh, S, sorted(fresh))
    try:
        fbits = sp.atom_bits(f)      # f mentions no fresh symbol: refsem on the whole input
        sat = sp.mask_of_clauses(g) if as_set else sp.mask(g)
    except _NotBitParallel:
        return _slow_cnf(sh, api, f, g, as_set, S, fresh, shown, info)
    except (IllTyped, Unsupported) as e:
        return ("type", "%s(%s) = %s is not well-typed: %s" % (api, _short(f), shown, e))
    W, BLK = sp.W, sp.BLK
    ntrue = 0
    for i in range(sp.N):
        if i in sp.invalid:
            continue
        blk = (sat >> (i * W)) & BLK
        if fbits[i]:
            ntrue += 1
            if blk == 0:
                return ("no-extension", "%s(%s) = %s: the input is true under %r but no assignment of the "
                        "fresh symbols %s satisfies the output"
                        % (api, _short(f), shown, sp.showI(i), sorted(fresh)))
        elif blk:
            return ("unsound", "%s(%s) = %s: the output is true under %r with %r but the input is false"
                    % (api, _short(f), shown, sp.showI(i), sp.showJ(blk)))
    if info is not None:
        nval = sp.N - len(sp.invalid)
        info["cls"] = "unsat" if ntrue == 0 else ("valid" if ntrue == nval else "contingent")
        info["pairs"] = sp.N * sp.W
    return None


def _slow_cnf(sh, api, f, g, as_set, S, fresh, shown, info):
    """generic path: fresh symbols of any sort, anywhere; explicit loop over I and J"""
    Is = sh.interps_of(tuple(sorted(S.items())), S)
    names = sorted(fresh)
    pools = [sort_values(fresh[n], sh.dom) for n in names]
    nj = 1
    for p in pools:
        nj *= len(p)
    if nj * len(Is) > SLOW_MAX:
        if info is not None:
            info["cls"] = "undecided"
        return None
    try:
        ff = compile_term(f, sh.cmemo)[1]
        if as_set:
            cl = [[compile_term(l, sh.cmemo)[1] for l in c] for c in g]

            def gf(I):
                return all(any(l(I) for l in c) for c in cl)
        else:
            gs, gf = compile_term(g, sh.cmemo)
            if gs != BOOL:
                raise IllTyped("output is not Boolean")
    except (IllTyped, Unsupported) as e:
        return ("type", "%s(%s) = %s is not well-typed: %s" % (api, _short(f), shown, e))
    for I in Is:
        try:
            fv = ff(I)
        except Unconstrained:
            continue
        found = False
        for vals in product(*pools):
            IJ = dict(I)
            IJ.update(zip(names, vals))
            try:
                gv = gf(IJ)
            except Unconstrained:
                continue
            if gv and not fv:
                return ("unsound", "%s(%s) = %s: the output is true under %r with %r but the input is false"
                        % (api, _short(f), shown, I, dict(zip(names, vals))))
            found = found or gv
        if fv and not found:
            return ("no-extension", "%s(%s) = %s: the input is true under %r but no assignment of the fresh "
                    "symbols %s satisfies the output" % (api, _short(f), shown, I, names))
    if info is not None:
        info["cls"] = "slow-path"
        info["pairs"] = nj * len(Is)
    return None


# ---------------------------------------------------------------------------------------
# Ackermannization

class _Need(Exception):
    def __init__(self, name, key):
        Exception.__init__(self, name, key)
        self.name = name
        self.key = key


class LazyFun(object):
    """a function table that is only defined on the argument tuples decided so far"""
    __slots__ = ("name", "table")

    def __init__(self, name, table):
        self.name = name
        self.table = table

    def __call__(self, *args):
        try:
            return self.table[args]
        except KeyError:
            raise _Need(self.name, args)


def _mkI(base, tabs):
    I = dict(base)
    for fn, t in tabs.items():
        I[fn] = LazyFun(fn, t)
    return I


def lazy_behaviours(fn, base, funs, ranges, budget=None):
    """every behaviour of the functions `funs` (name -> Fun sort) on the argument tuples that
    fn evaluates under the base assignment: yields (I, value).  ranges: ret sort -> values."""
    stack = [dict((n, {}) for n in funs)]
    steps = 0
    while stack:
        tabs = stack.pop()
        I = _mkI(base, tabs)
        steps += 1
        if budget is not None and steps > budget:
            raise _Budget()
        try:
            v = fn(I)
        except _Need as nd:
            for r in reversed(ranges[funs[nd.name][1]]):
                t2 = dict(tabs)
                t3 = dict(tabs[nd.name])
                t3[nd.key] = r
                t2[nd.name] = t3
                stack.append(t2)
            continue
        except Unconstrained:
            continue
        yield I, v


class _Budget(Exception):
    pass


def _ranges(cfgmap, sorts):
    out = {}
    for s in sorts:
        out[s] = tuple(sort_values(s, cfgmap))
    return out


def ack_verdict(env, f, cfg, cmemo, info=None, warm=None):
    """None if the property holds for do_ackermannization(f), else (kind, message[, where]).
    If `warm` is given the same Ackermannizer instance first converts `warm` (instance reuse)."""
    try:
        A = rw.Ackermannizer(env)
        if warm is not None:
            try:
                A.do_ackermannization(warm)
            except Exception:
                pass
        g = A.do_ackermannization(f)
        hint = A.get_term_to_const_dict()
    except Exception as e:
        return ("exception", "do_ackermannization(%s) raised %r" % (_short(f), e))
    if not hasattr(g, "node_type"):
        return ("shape", "do_ackermannization(%s) returned %r" % (_short(f), g))
    shown = _Shown(g, False)
    S = free_symbols(f)
    funs = {n: s for n, s in S.items() if _is_fun(s)}
    base_syms = {n: s for n, s in S.items() if not _is_fun(s)}
    if info is not None:
        info["apps"] = sum(1 for t in subterms_postorder(f) if t.is_function_application())
    # ---- shape: no application, no function symbol
    left = functions_left(g)
    if left:
        n, parent = left[0]
        body_free = g.node_type() == op.AND and len(g.args()) == 2 and not functions_left(g.arg(1))
        where = "in-consistency-constraints" if body_free else "in-body"
        return ("function-left", "do_ackermannization(%s) = %s still contains the application %s (under %s, %s)"
                % (_short(f), shown, _short(n),
                   op.op_to_str(parent.node_type()) if parent is not None else "root", where), where)
    try:
        gs, gf = compile_term(g, cmemo)
        fs, ff = compile_term(f, cmemo)
    except (IllTyped, Unsupported) as e:
        return ("type", "do_ackermannization(%s) = %s is not well-typed: %s" % (_short(f), shown, e))
    if gs != BOOL:
        return ("type", "do_ackermannization(%s) = %s has sort %s" % (_short(f), shown, termio.sort_str(gs)))
    G = free_symbols(g)
    fresh = {n: s for n, s in G.items() if n not in S}
    fnames = sorted(fresh)
    if info is not None:
        info["k"] = len(fresh)
    # hint: application -> name of its fresh constant (only used to find witnesses)
    apps = [t for t in subterms_postorder(f) if t.is_function_application()]
    hpairs = []
    for t in apps:
        c = hint.get(t) if isinstance(hint, dict) else None
        if c is not None and hasattr(c, "is_symbol") and c.is_symbol() and c.symbol_name() in fresh:
            hpairs.append((t, c.symbol_name(), compile_term(t, cmemo)[1]))
    hint_complete = set(n for _, n, _ in hpairs) == set(fnames)
    ret_sorts = set(s[1] for s in funs.values()) | set(fresh.values())
    rng = _ranges(cfg["res"], ret_sorts)
    base_names = sorted(base_syms)
    base_pools = [sort_values(base_syms[n], cfg["sym"]) for n in base_names]
    evals = 0
    # ---- (A) input true under I  =>  some J satisfies the output
    for vals in product(*base_pools):
        base = dict(zip(base_names, vals))
        for I, fv in lazy_behaviours(ff, base, funs, rng):
            evals += 1
            if not fv:
                continue
            ok = False
            if hint_complete:
                IJ = dict(base)
                for t, cn, tf in hpairs:
                    IJ[cn] = tf(I)
                try:
                    ok = bool(gf(IJ))
                except Unconstrained:
                    ok = True
            if ok:
                continue
            if info is not None:
                info["hint_miss"] = info.get("hint_miss", 0) + 1
            # exhaustive search over candidate values of the fresh constants
            appvals = {}
            for t in apps:
                srt, tf = compile_term(t, cmemo)
                appvals.setdefault(srt, set()).add(tf(I))
            pools = []
            size = 1
            for n in fnames:
                s = fresh[n]
                if s == BOOL or (isinstance(s, tuple) and s[0] == "BV"):
                    p = tuple(sort_values(s))
                else:
                    p = tuple(sorted(set(rng.get(s, ())) | appvals.get(s, set())
                                     | set(sort_values(s, cfg["sym"])), key=repr))
                pools.append(p)
                size *= len(p)
            if size > ACK_SEARCH_CAP:
                if info is not None:
                    info["undecided"] = True
                continue
            found = False
            for jv in product(*pools):
                IJ = dict(base)
                IJ.update(zip(fnames, jv))
                try:
                    if gf(IJ):
                        found = True
                        break
                except Unconstrained:
                    found = True
                    break
            if not found:
                return ("no-extension", "do_ackermannization(%s) = %s: the input is true under %s but no "
                        "assignment of the fresh constants %s (canonical one and all %d over the candidate "
                        "values) satisfies the output" % (_short(f), shown, _showI(I), fnames, size))
    # ---- (B) output true under (I', J)  =>  some function tables make the input true
    jp = cfg["jpool"] if len(fnames) < cfg["jsmall_from"] else cfg["jpool_small"]
    jpools = [tuple(sort_values(fresh[n], jp)) for n in fnames]
    npairs = 1
    for p in base_pools + jpools:
        npairs *= len(p)
    if npairs > ACK_PAIR_CAP:
        jpools = [tuple(sort_values(fresh[n], cfg["jpool_small"])) for n in fnames]
        npairs = 1
        for p in base_pools + jpools:
            npairs *= len(p)
        if npairs > ACK_PAIR_CAP:
            if info is not None:
                info["undecided"] = True
                info["evals"] = evals
            return None
    cname = dict((t, cn) for t, cn, _ in hpairs)
    argfs = []
    for t in apps:       # post-order: innermost applications first
        fsym = t.function_name()
        rs = termio.sort_of(fsym.symbol_type())[1]
        argfs.append((cname.get(t), fsym.symbol_name(), [compile_term(a, cmemo)[1] for a in t.args()],
                      sort_values(rs, cfg["res"])[0]))
    for vals in product(*base_pools):
        base = dict(zip(base_names, vals))
        for jv in product(*jpools):
            IJ = dict(base)
            IJ.update(zip(fnames, jv))
            evals += 1
            try:
                if not gf(IJ):
                    continue
            except Unconstrained:
                continue
            # read the tables off the fresh constants (innermost applications first)
            ok = False
            if hint_complete:
                tabs = dict((n, {}) for n in funs)
                I = _mkI(base, tabs)
                ok = True
                try:
                    for cn, fname, afs, dflt in argfs:
                        key = tuple(a(I) for a in afs)
                        old = tabs[fname].get(key, _MISSING)
                        if cn is None:
                            # the application's constant does not occur in the output: any value
                            if old is _MISSING:
                                tabs[fname][key] = dflt
                        elif old is _MISSING:
                            tabs[fname][key] = IJ[cn]
                        elif old != IJ[cn]:
                            ok = False     # the tables read off are not functions: search
                            break
                    if ok:
                        ok = bool(ff(I))
                except _Need:
                    ok = False
                except Unconstrained:
                    ok = True
            if ok:
                continue
            if info is not None:
                info["hint_miss"] = info.get("hint_miss", 0) + 1
            # exhaustive search over all lazy tables with results among the candidate values
            rng2 = {}
            nums = [v for v in list(base.values()) + list(jv) if isinstance(v, int) and not isinstance(v, bool)]
            for s in set(x[1] for x in funs.values()):
                if s == INT:
                    lo = min(nums + [0]) - 2
                    hi = max(nums + [0]) + 2
                    rng2[s] = tuple(range(lo, hi + 1))
                else:
                    rng2[s] = tuple(sort_values(s, cfg["res"]))
            found = False
            try:
                for I, fv in lazy_behaviours(ff, base, funs, rng2, budget=ACK_SEARCH_CAP):
                    if fv:
                        found = True
                        break
            except _Budget:
                if info is not None:
                    info["undecided"] = True
                continue
            if not found:
                return ("unsound", "do_ackermannization(%s) = %s: the output is true under %r but no choice of "
                        "the functions %s (tables read off the fresh constants, then all tables with results "
                        "in %s) makes the input true" % (_short(f), shown, IJ, sorted(funs),
                                                         {termio.sort_str(s): (v[0], v[-1]) for s, v in rng2.items()}))
    if info is not None:
        info["evals"] = evals
    return None


_MISSING = object()


def _showI(I):
    out = {}
    for k, v in sorted(I.items()):
        out[k] = dict(v.table) if isinstance(v, LazyFun) else v
    return out


# ---------------------------------------------------------------------------------------
# minimisation and signatures

def _bool_subterms(f, cmemo):
    return [n for n in subterms_postorder(f) if _sort(n, cmemo) == BOOL]


def _sig_children(n):
    ks = [node_kind(a) for a in n.args()]
    if n.node_type() in (op.AND, op.OR, op.IFF, op.EQUALS):
        ks = sorted(ks)
    return "%s(%s)" % (op.op_to_str(n.node_type()), ",".join(ks))


def cnf_failures(env, sh, f, apis=CNF_APIS):
    """{api: (kind, msg[, diagnosis])} for the APIs that fail on f (cached per shard)"""
    key = (f, apis)
    out = sh.failcache.get(key)
    if out is None:
        out = {}
        for api in apis:
            v = cnf_verdict(env, sh, api, f)
            if v is not None:
                out[api] = v
        if len(sh.failcache) > 200000:
            sh.failcache.clear()
        sh.failcache[key] = out
    return out


def _of_kind(why, fk):
    return {a: v for a, v in why.items() if v[0] == fk}


_BOOL_CONN = (op.AND, op.OR, op.NOT, op.IMPLIES, op.IFF, op.ITE)


def _replace_at(mgr, t, path, new):
    """t with the sub-term at `path` (tuple of argument indices through Boolean connectives)
    replaced by new"""
    if not path:
        return new
    args = list(t.args())
    args[path[0]] = _replace_at(mgr, args[path[0]], path[1:], new)
    return mgr.create_node(t.node_type(), tuple(args))


def _paths(t, depth, cmemo):
    """paths (length <= depth) to Boolean sub-terms reachable through Boolean connectives"""
    out = []

    def rec(n, path):
        if path:
            out.append((path, n))
        if len(path) < depth and n.node_type() in _BOOL_CONN and _sort(n, cmemo) == BOOL:
            for i, a in enumerate(n.args()):
                rec(a, path + (i,))
    rec(t, ())
    return out


def minimise_cnf(env, sh, f, fk, apis=CNF_APIS):
    """minimised witness for failure kind fk: (1) smallest failing Boolean sub-formula (all its
    proper Boolean sub-formulas pass); (2) the simpler context Not(X) around one of its
    arguments if that still fails; (3) closed sub-formulas replaced by their value and other
    sub-formulas (depth <= 2) replaced by plain Boolean symbols while the failure persists"""
    mgr = env.formula_manager
    cm = sh.cmemo

    def fails(t):
        return _of_kind(cnf_failures(env, sh, t, apis), fk)

    def smallest(t):
        for n in _bool_subterms(t, cm):
            w = fails(n)
            if w:
                return n, w
        return t, fails(t)

    cur, why = smallest(f)
    if not why:
        return f, fails(f)
    gsyms = {}
    for _ in range(30):
        changed = False
        # (2) a simpler context
        if cur.node_type() != op.NOT or not cur.arg(0).args():
            for a in cur.args():
                if a.args() and _sort(a, cm) == BOOL and not (cur.node_type() == op.NOT):
                    cand = mgr.Not(a)
                    if cand is not cur and fails(cand):
                        cur, why = smallest(cand)
                        changed = True
                        break
        if changed:
            continue
        # (3) generalise sub-terms, outermost and leftmost first
        for path, n in _paths(cur, 2, cm):
            if n.is_symbol() or n.node_type() == op.BOOL_CONSTANT or _sort(n, cm) != BOOL:
                continue
            reps = []
            if not free_symbols(n):
                try:
                    reps.append(mgr.Bool(bool(compile_term(n, cm)[1]({}))))
                except Exception:
                    pass
            if n not in gsyms:
                gsyms[n] = mgr.Symbol("m%d" % len(gsyms), env.type_manager.BOOL())
            reps.append(gsyms[n])
            for r in reps:
                try:
                    cand = _replace_at(mgr, cur, path, r)
                except Exception:
                    continue
                w = fails(cand)
                if w:
                    cur, why = smallest(cand)
                    changed = True
                    break
            if changed:
                break
        if not changed:
            break
    return cur, why


def _has_bool_const(f):
    return any(n.node_type() == op.BOOL_CONSTANT for n in subterms_postorder(f))


def cnf_sig(sub, why, fk, ran=CNF_APIS):
    """cnf[<failing implementation(s)>]:<failure kind>:<class of the minimised witness>
    (cnf, cnf_as_set and CNFizer.convert_as_formula are one implementation, 'CNFizer')
    shape      -> the non-literal that was found in a clause, e.g. NOT(constT)
    otherwise  -> 'bool-constant' when the minimal failing sub-formula contains TRUE/FALSE
                  (handling of constants), else its root operator and child kinds"""
    failing = set(why)
    tseitin = set(a for a in ran if not a.startswith("Polarity"))
    fam = []
    if tseitin and tseitin <= failing:
        fam.append("CNFizer")
    else:
        fam.extend(sorted(a for a in failing if a in tseitin))
    fam.extend(sorted(a.split(".")[0] for a in failing if a not in tseitin))
    fam = "+".join(fam)
    if fk == "shape":
        diags = sorted(set(v[2] for v in why.values() if len(v) > 2))
        cls = "+".join(diags) if diags else _sig_children(sub)
    elif fk == "exception":
        cls = "%s@%s" % ("+".join(sorted(set(v[2] for v in why.values() if len(v) > 2))),
                         op.op_to_str(sub.node_type()))
    elif _has_bool_const(sub):
        cls = "bool-constant"
    else:
        cls = _sig_children(sub)
    return "cnf[%s]:%s:%s" % (fam, fk, cls)


def minimise_ack(env, f, cfg, cmemo):
    for n in _bool_subterms(f, cmemo):
        v = ack_verdict(env, n, cfg, cmemo)
        if v is not None:
            return n, v
    return f, ack_verdict(env, f, cfg, cmemo)


def ack_sig(sub, v):
    if v[0] == "function-left":
        return "ack:function-left:%s" % v[2]
    return "ack:%s:%s" % (_sig_children(sub), v[0])


# ---------------------------------------------------------------------------------------
# checker factories (one per shard)

def _kbucket(k):
    return "0" if k == 0 else ("1-3" if k <= 3 else ("4-10" if k <= 10 else ">10"))


def make(env, profile, res, part):
    if part["kind"] == "cnf":
        return make_cnf(env, profile, res, part)
    return make_ack(env, profile, res, part)


def make_cnf(env, profile, res, part):
    sh = Shared(part.get("dom", CNF_DOM))
    apis = tuple(part.get("apis", CNF_APIS))

    def check(f):
        if _sort(f, sh.cmemo) != BOOL:
            res.count("evaluations", -1)
            res.outcome("skipped:not-a-formula")
            return
        kinds = set()
        nontriv = False
        for api in apis:
            info = {}
            v = cnf_verdict(env, sh, api, f, info)
            res.count("conversions")
            if v is not None:
                kinds.add(v[0])
                res.outcome("%s:FAIL:%s" % (api.split(".")[0], v[0]))
                continue
            k = info.get("k", 0)
            res.count("assignments", info.get("pairs", 0))
            if k > 10:
                res.count("more_than_10_fresh")
            if info.get("cls") == "undecided":
                res.count("undecided")
            nontriv = nontriv or k > 0 or (info.get("changed") and not api == "cnf_as_set")
            res.outcome("%s:k=%s:%s" % (api.split(".")[0], _kbucket(k), info.get("cls")))
        if nontriv:
            res.count("nontrivial")
            if not res.samples and not kinds:
                res.sample({"part": part["name"], "kind": "cnf", "term": termio.dump(f),
                            "cnf": termio.dump(rw.cnf(f, env))}, limit=1)
        for fk in sorted(kinds):
            sub, why = minimise_cnf(env, sh, f, fk, apis)
            if not why:      # not reproducible on re-run: report as it was seen
                res.violation(part["name"], "cnf:%s:irreproducible" % fk,
                              "%s: %s failed with %s only once" % (part["name"], _short(f), fk),
                              {"part": part["name"], "kind": "cnf", "term": termio.dump(f)})
                continue
            api0 = sorted(why)[0]
            res.violation(part["name"], cnf_sig(sub, why, fk, apis), "%s: %s" % (part["name"], why[api0][1]),
                          {"part": part["name"], "kind": "cnf", "apis": sorted(why), "failure": fk,
                           "term": termio.dump(sub), "found_in": termio.dump(f), "dom": _dom_json(sh.dom)})
    return check


def make_ack(env, profile, res, part):
    cfg = part["cfg"]
    cmemo = {}
    prev = [None]

    def check(f):
        if _sort(f, cmemo) != BOOL:
            res.count("evaluations", -1)
            res.outcome("skipped:not-a-formula")
            return
        info = {}
        if part.get("fresh_env"):
            env3 = Environment()
            push_env(env3)
            try:
                v = ack_verdict(env3, termio.build(env3, termio.dump(f)), cfg, {}, info)
            finally:
                pop_env()
            res.count("conversions")
            res.count("nontrivial" if info.get("k", 0) > 0 else "trivial")
            res.outcome("ack-fresh-env:%s" % ("ok" if v is None else "FAIL:" + v[0]))
            if v is not None:
                res.violation(part["name"], "ack:fresh-environment:%s" % v[0], "%s: %s" % (part["name"], v[1]),
                              {"part": part["name"], "kind": "ack", "term": termio.dump(f), "cfg": _cfg_json(cfg)})
            return
        v = ack_verdict(env, f, cfg, cmemo, info)
        if v is None and prev[0] is not None:
            # the same Ackermannizer object used for the previous formula of the enumeration first
            # (neighbours share applications): the result for f must still satisfy the property
            v2 = ack_verdict(env, f, cfg, cmemo, {}, warm=prev[0])
            res.count("conversions")
            if v2 is not None:
                res.outcome("ack:FAIL-reused:%s" % v2[0])
                res.violation(part["name"], "ack:reused-instance:%s" % v2[0],
                              "%s: after converting %s with the same Ackermannizer object: %s"
                              % (part["name"], _short(prev[0]), v2[1]),
                              {"part": part["name"], "kind": "ack", "term": termio.dump(f), "warm": termio.dump(prev[0]),
                               "cfg": _cfg_json(cfg)})
        prev[0] = f
        res.count("conversions")
        res.count("assignments", info.get("evals", 0))
        if info.get("undecided"):
            res.count("undecided")
        if info.get("hint_miss"):
            res.count("hint_missed", info["hint_miss"])
        napps = info.get("apps", 0)
        if v is None:
            res.outcome("ack:apps=%s:fresh=%s" % (min(napps, 6), min(info.get("k", 0), 6)))
            if info.get("k", 0) > 0:
                res.count("nontrivial")
                if not res.samples:
                    res.sample({"part": part["name"], "kind": "ack", "term": termio.dump(f),
                                "ackermannized": termio.dump(rw.Ackermannizer(env).do_ackermannization(f))},
                               limit=1)
            return
        res.outcome("ack:FAIL:%s" % v[0])
        if napps:
            res.count("nontrivial")
        sub, r = minimise_ack(env, f, cfg, cmemo)
        if r is None:
            sub, r = f, v
        res.violation(part["name"], ack_sig(sub, r), "%s: %s" % (part["name"], r[1]),
                      {"part": part["name"], "kind": "ack", "term": termio.dump(sub),
                       "found_in": termio.dump(f), "cfg": _cfg_json(cfg)})
    return check


def _dom_json(dom):
    return [[termio._js(s), list(v)] for s, v in (dom or {}).items()]


def _dom_from_json(j):
    return {termio.norm_sort(s): tuple(v) for s, v in j}


def _cfg_json(cfg):
    return {k: (_dom_json(v) if isinstance(v, dict) else v) for k, v in cfg.items()}


def _cfg_from_json(j):
    return {k: (_dom_from_json(v) if isinstance(v, list) else v) for k, v in j.items()}


# ---------------------------------------------------------------------------------------
# profiles

def _bool_ops(p, tern=True):
    p.op("not", [BOOL], BOOL, lambda m, a: m.Not(a))
    p.op("and", [BOOL, BOOL], BOOL, lambda m, a, b: m.And(a, b))
    p.op("or", [BOOL, BOOL], BOOL, lambda m, a, b: m.Or(a, b))
    p.op("implies", [BOOL, BOOL], BOOL, lambda m, a, b: m.Implies(a, b))
    p.op("iff", [BOOL, BOOL], BOOL, lambda m, a, b: m.Iff(a, b))
    if tern:
        p.op("and3", [BOOL, BOOL, BOOL], BOOL, lambda m, a, b, c: m.And(a, b, c))
        p.op("or3", [BOOL, BOOL, BOOL], BOOL, lambda m, a, b, c: m.Or(a, b, c))
        p.op("bite", [BOOL, BOOL, BOOL], BOOL, lambda m, a, b, c: m.Ite(a, b, c))


def skeleton_profile(alphabet, consts=(True, False), natoms=3):
    """Boolean skeletons over the atoms of `alphabet` (<= 3) and the Boolean constants"""
    def mk(env):
        p = Profile("cnf-" + alphabet, env)
        m = p.m
        if alphabet == "bool":
            atoms = [p.sym(n, BOOL) for n in "abc"]
        elif alphabet == "freshnames":
            # user symbols named like the definition variables the converters generate
            atoms = [p.sym(n, BOOL) for n in ("FV0", "FV1", "FV2")]
        elif alphabet == "lia":
            x, y = p.sym("x", INT), p.sym("y", INT)
            atoms = [m.LE(x, y), m.LT(y, x), m.Equals(x, m.Int(0))]
        elif alphabet == "bv":
            u, v = p.sym("u", B2), p.sym("v", B2)
            atoms = [m.BVULT(u, v), m.Equals(u, v), m.BVSLE(v, u)]
        elif alphabet == "mixed":
            x, y, a = p.sym("x", INT), p.sym("y", INT), p.sym("a", BOOL)
            u = p.sym("u", B1)
            atoms = [a, m.LE(m.Ite(a, x, y), m.Int(0)), m.Equals(u, m.BV(1, 1))]
        elif alphabet == "uf":
            x, y = p.sym("x", INT), p.sym("y", INT)
            q = p.sym("q", ("Fun", BOOL, (INT,)))
            atoms = [m.Function(q, [x]), m.Function(q, [y]), m.Equals(x, y)]
        elif alphabet == "arr":
            x, a = p.sym("x", INT), p.sym("a", BOOL)
            arr = p.sym("A", ("Array", INT, BOOL))
            atoms = [m.Select(arr, x), a, m.Select(arr, m.Int(0))]
        else:
            raise ValueError(alphabet)
        p.leaf(BOOL, *atoms[:natoms])
        p.leaf(BOOL, *[m.Bool(c) for c in consts])
        _bool_ops(p)
        return p
    return mk


def ack_profile(variant):
    def mk(env):
        p = Profile("ack-" + variant, env)
        m = p.m
        x, y = p.sym("x", INT), p.sym("y", INT)
        f = p.sym("f", ("Fun", INT, (INT,)))
        g = p.sym("g", ("Fun", INT, (INT,)))
        pr = p.sym("p", ("Fun", BOOL, (INT, INT)))
        one = m.Int(1)
        F = lambda m, a: m.Function(f, [a])
        Gf = lambda m, a: m.Function(g, [a])
        INC = lambda m, a: m.Plus(a, one)
        PR = lambda m, a, b: m.Function(pr, [a, b])
        EQ = lambda m, a, b: m.Equals(a, b)
        if variant == "freshnames":
            # the symbols are named like the constants the Ackermannizer generates
            k0, k1 = p.sym("ack0", INT), p.sym("ack1", INT)
            p.leaf(INT, k0, k1)
            p.op("f", [INT], INT, F)
            p.op("inc", [INT], INT, INC)
            p.op("eq", [INT, INT], BOOL, EQ)
            p.op("p", [INT, INT], BOOL, PR)
        elif variant == "chain":
            # unary chains f/g/+1 over x, y; atoms t1 = t2 and p(t1, t2)
            p.leaf(INT, x, y)
            p.op("f", [INT], INT, F)
            p.op("g", [INT], INT, Gf)
            p.op("inc", [INT], INT, INC)
            p.op("eq", [INT, INT], BOOL, EQ)
            p.op("p", [INT, INT], BOOL, PR)
        elif variant == "bool":
            # Boolean structure over atoms built from a small pool of (nested) applications
            fx, fy, gx = F(m, x), F(m, y), Gf(m, x)
            T = [x, y, fx, fy, F(m, INC(m, gx)), F(m, fx)]
            atoms = [EQ(m, T[i], T[j]) for i in range(len(T)) for j in range(i + 1, len(T))]
            atoms += [PR(m, fx, y), PR(m, y, fx), PR(m, x, x), PR(m, fx, fx)]
            p.leaf(BOOL, *atoms)
            p.leaf(BOOL, p.sym("a", BOOL))
            _bool_ops(p, tern=False)
        elif variant == "boolarg":
            # Boolean arguments: h(Bool)->Int, r(Bool, Int)->Bool, applications as Boolean arguments
            a = p.sym("a", BOOL)
            h = p.sym("h", ("Fun", INT, (BOOL,)))
            r = p.sym("r", ("Fun", BOOL, (BOOL, INT)))
            p.leaf(INT, x, y)
            p.leaf(BOOL, a, m.TRUE())
            p.op("h", [BOOL], INT, lambda m, b: m.Function(h, [b]))
            p.op("r", [BOOL, INT], BOOL, lambda m, b, t: m.Function(r, [b, t]))
            p.op("f", [INT], INT, F)
            p.op("eq", [INT, INT], BOOL, EQ)
            p.op("not", [BOOL], BOOL, lambda m, b: m.Not(b))
            p.op("and", [BOOL, BOOL], BOOL, lambda m, b, c: m.And(b, c))
        elif variant == "ite":
            # applications under and over term-level ITE
            a = p.sym("a", BOOL)
            p.leaf(INT, x, y)
            p.leaf(BOOL, a)
            p.op("f", [INT], INT, F)
            p.op("g", [INT], INT, Gf)
            p.op("ite", [BOOL, INT, INT], INT, lambda m, c, s, t: m.Ite(c, s, t))
            p.op("eq", [INT, INT], BOOL, EQ)
            p.op("p", [INT, INT], BOOL, PR)
        elif variant == "arr":
            # applications inside array literals (default element and stored value), stores and reads
            AR = ("Array", INT, INT)
            arr = p.sym("A", AR)
            it = mk_type(env, INT)
            p.leaf(INT, x, y)
            p.leaf(AR, arr)
            p.op("f", [INT], INT, F)
            p.op("konst", [INT], AR, lambda m, t: m.Array(it, t))
            p.op("lit", [INT, INT], AR, lambda m, d, v: m.Array(it, d, {one: v}))
            p.op("store", [AR, INT, INT], AR, lambda m, a, i, v: m.Store(a, i, v))
            p.op("select", [AR, INT], INT, lambda m, a, i: m.Select(a, i))
            p.op("eq", [INT, INT], BOOL, EQ)
        elif variant == "arrfin":
            # a function over arrays with a finite index sort, applied to literals that are different nodes but the
            # same array (K(1) and K(0)[0:=1][1:=1]): atoms over the applications, Boolean structure above
            AR = ("Array", B1, INT)
            it = mk_type(env, B1)
            h = p.sym("h", ("Fun", INT, (AR,)))
            arr = p.sym("A", AR)
            z, o = m.BV(0, 1), m.BV(1, 1)
            L1 = m.Array(it, one)
            L2 = m.Array(it, m.Int(0), {z: one, o: one})
            L3 = m.Array(it, m.Int(0), {z: one})
            H = lambda t: m.Function(h, [t])
            atoms = [EQ(m, H(L1), x), EQ(m, H(L2), x), EQ(m, H(L3), x), EQ(m, H(arr), x), EQ(m, H(L1), H(L2)),
                     EQ(m, H(m.Store(arr, z, one)), y), EQ(m, arr, L2)]
            p.leaf(BOOL, *atoms)
            _bool_ops(p, tern=False)
        elif variant == "bv":
            # finite sorts: every assignment of the fresh constants is enumerated exactly
            u, v = p.sym("u", B1), p.sym("v", B1)
            fb = p.sym("fb", ("Fun", B1, (B1,)))
            qb = p.sym("qb", ("Fun", BOOL, (B1, B1)))
            p.leaf(B1, u, v)
            p.op("fb", [B1], B1, lambda m, a: m.Function(fb, [a]))
            p.op("bvnot", [B1], B1, lambda m, a: m.BVNot(a))
            p.op("bveq", [B1, B1], BOOL, EQ)
            p.op("qb", [B1, B1], BOOL, lambda m, a, b: m.Function(qb, [a, b]))
        else:
            raise ValueError(variant)
        return p
    return mk


def _names(*ns):
    return lambda o: o.name in ns


ALPHABETS = ("bool", "lia", "bv", "mixed", "uf", "arr")
# cnf() is literally CNFizer(env).convert_as_formula: the deep parts call it through cnf() only
DEEP_APIS = ("cnf", "cnf_as_set", "PolarityCNFizer.convert_as_formula")
_BIN = ("not", "and", "or", "implies", "iff")
_TERN = ("and3", "or3", "bite")


def parts(ctx):
    q = ctx.quick
    cfg = ACK_QUICK if q else ACK_THOROUGH
    ps = []
    A = ps.append

    def cnf(name, alphabet, depth, shards, **kw):
        prof = skeleton_profile(alphabet, consts=kw.pop("consts", (True, False)), natoms=kw.pop("natoms", 3))
        A(dict(name=name, kind="cnf", profile=prof, depth=depth, shards=shards, **kw))

    def ack(name, variant, depth, shards, **kw):
        A(dict(name=name, kind="ack", profile=ack_profile(variant), depth=depth, shards=shards, cfg=cfg, **kw))

    # ---- CNF, depth 1: every operator over three atoms and both constants, every alphabet
    for al in ALPHABETS:
        cnf("cnf-%s-d1" % al, al, 1, 2)
    # ---- CNF, depth 2 over Boolean symbols
    if q:
        cnf("cnf-bool-d2-bin", "bool", 2, 16, consts=(), mid_ops=_names(*_BIN), top_ops=_names(*_BIN))
        cnf("cnf-bool-d2-const", "bool", 2, 16, natoms=1, mid_ops=_names(*_BIN), top_ops=_names(*_BIN))
        cnf("cnf-bool-d2-tern-top", "bool", 2, 8, natoms=2, consts=(False,), mid_ops=_names(*_BIN),
            top_ops=_names(*_TERN), max_new=1)
        cnf("cnf-bool-d2-tern-mid", "bool", 2, 8, natoms=2, consts=(), mid_ops=_names("not", *_TERN),
            top_ops=_names(*_BIN))
    else:
        cnf("cnf-bool-d2-bin", "bool", 2, 64, mid_ops=_names(*_BIN), top_ops=_names(*_BIN))
        cnf("cnf-bool-d2-tern-top", "bool", 2, 32, mid_ops=_names(*_BIN), top_ops=_names(*_TERN), max_new=1)
        cnf("cnf-bool-d2-tern-mid", "bool", 2, 32, natoms=2, consts=(False,), mid_ops=_names("not", *_TERN),
            top_ops=_names(*_BIN))
    cnf("cnf-freshnames-d2", "freshnames", 2, 8, consts=(), apis=("CNFizer@fresh-env", "PolarityCNFizer@fresh-env"),
        mid_ops=_names("not", "and", "or", "iff"), top_ops=_names("and", "or", "iff", "implies"))
    cnf("cnf-bool-d2-ite", "bool", 2, 16, natoms=2, consts=(), mid_ops=_names("not", "iff", "bite"),
        top_ops=_names("not", "and", "iff", "bite"))
    # ---- CNF, depth 3 (shared sub-formulas, IFF/ITE in both polarities), two atoms
    cnf("cnf-bool-d3", "bool", 3, 32, natoms=2, consts=(), apis=DEEP_APIS,
        mid_ops=_names("not", "and", "iff"), top_ops=_names("not", "or", "iff") if q else _names(*_BIN),
        max_new=1)
    if not q:
        cnf("cnf-bool-d3-iff-full", "bool", 3, 32, natoms=2, consts=(), apis=DEEP_APIS,
            mid_ops=_names("not", "iff"), top_ops=_names(*_BIN))
        cnf("cnf-bool-d3-ite", "bool", 3, 32, natoms=2, consts=(), apis=DEEP_APIS,
            mid_ops=_names("not", "or"), top_ops=_names("bite", "iff", "not"), max_new=1)
        cnf("cnf-bool-d3-const", "bool", 3, 64, natoms=1, consts=(False,), apis=DEEP_APIS,
            mid_ops=_names("not", "and", "implies"), top_ops=_names(*_BIN), max_new=1)
        cnf("cnf-bool-d4", "bool", 4, 64, natoms=1, consts=(), apis=DEEP_APIS, mid_ops=_names("not", "iff"),
            top_ops=_names("not", "and", "iff", "bite"), max_new=1)
        cnf("cnf-bool-d4-implies", "bool", 4, 64, natoms=2, consts=(), apis=DEEP_APIS, mid_ops=_names("implies"),
            top_ops=_names("not", "iff"), max_new=1)
    # ---- CNF, depth 2 over theory atoms
    for al in ALPHABETS[1:]:
        cnf("cnf-%s-d2" % al, al, 2, 8 if q else 32, consts=() if q else (True, False),
            mid_ops=_names("not", "and", "iff") if q else _names("not", "and", "or", "iff"), top_ops=_names(*_BIN))
        cnf("cnf-%s-d2-ite" % al, al, 2, 4, consts=(), mid_ops=_names("not", "and", "iff"),
            top_ops=_names("bite"), max_new=1)
    # ---- beyond the small sizes: connectives with five arguments, some of them compound
    A(dict(name="cnf-nary5-d1", kind="cnf", profile=lambda e: P5.nary5mix_profile(e, compound=True, natoms=5 if q else None),
           depth=1, shards=16))
    # ---- Ackermannization
    ack("ack-chain-d1", "chain", 2, 2, mid_ops=_names("f", "g", "inc"), top_ops=_names("eq", "p"))
    ack("ack-chain-d2", "chain", 3, 16, mid_ops=_names("f", "g", "inc"), top_ops=_names("eq", "p"))
    ack("ack-chain-d3", "chain", 4, 32, mid_ops=_names("f", "g", "inc"), top_ops=_names("eq", "p"), max_new=1)
    ack("ack-freshnames-d2", "freshnames", 3, 8, mid_ops=_names("f", "inc"), top_ops=_names("eq", "p"), fresh_env=True)
    ack("ack-bool-d1", "bool", 1, 16, top_ops=_names("not", "and", "implies", "iff") if q else None)
    ack("ack-boolarg-d3", "boolarg", 3, 16, top_ops=_names("eq", "r", "and"), max_new=1 if q else None)
    ack("ack-ite-d3", "ite", 3, 16, mid_ops=_names("f", "g", "ite"), top_ops=_names("eq", "p"),
        max_new=1 if q else None)
    ack("ack-arr-d4", "arr", 4, 16, mid_ops=_names("f", "konst", "select") if q else _names("f", "konst", "lit", "select", "store"),
        top_ops=_names("eq"), max_new=1)
    if not q:
        ack("ack-arr-lit-d4", "arr", 4, 64, mid_ops=_names("f", "lit", "select"), top_ops=_names("eq"), max_new=1)
    ack("ack-arrfin-d2", "arrfin", 2, 16, mid_ops=_names("not"), top_ops=_names("and", "or", "implies", "iff", "not"))
    ack("ack-bv-d3", "bv", 4, 16, mid_ops=_names("fb", "bvnot"), top_ops=_names("bveq", "qb"))
    return ps


def run(ctx):
    ctx.level = "exploration"
    ctx.rule = ("CNF: all (operator, argument tuple) applications of each skeleton part up to its depth over <= 3 "
                "atoms and the Boolean constants, each converted by cnf, cnf_as_set, CNFizer.convert_as_formula and "
                "PolarityCNFizer.convert_as_formula and evaluated over every interpretation of the input's symbols x "
                "every assignment of the fresh symbols (bit-parallel); non-trivial = the conversion introduced at "
                "least one fresh symbol.  Ackermannization: all atoms/formulas of each UF part; every behaviour of "
                "the functions on the evaluated argument tuples x every assignment of the other symbols (A) and "
                "every assignment of the other symbols and fresh constants (B); non-trivial = at least one "
                "application was replaced")
    ctx.assumptions = ["reference semantics mc/core/refsem.py; And/Or/Not/Implies/Iff/Ite above the atoms are evaluated "
                       "bit-parallel by this module",
                       "fresh symbols = symbols of the output that are not symbols of the input",
                       "value pools: CNF Int -1..1, all BV values; Ackermann (quick) symbols and function results "
                       "{0,1}, fresh constants {0,1,2} ({0,1} from 5 constants on); thorough one value more",
                       "Ackermann direction (A): an Int-sorted fresh constant is searched among the values of the "
                       "input's applications and the pools; get_term_to_const_dict() is only a hint for witnesses",
                       "quantifier-free inputs only (CNFizer documents quantifiers as unsupported)"]
    ps = parts(ctx)
    ctx.coverage["parts"] = [{"name": p["name"], "depth": p["depth"]} for p in ps]
    ctx.coverage["apis"] = list(CNF_APIS) + ["Ackermannizer.do_ackermannization"]
    sweep(ctx, ps, make)
    _balance_samples(ctx)
    c = ctx.res.counters
    if c.get("undecided"):
        ctx.exhaustive = False
        ctx.cap_note = "%d cases exceeded the assignment cap and were not fully decided" % c["undecided"]


def _balance_samples(ctx):
    """evidence samples: at most three Ackermann cases from the workers plus three CNF cases of the
    enumerated space (and(a, or(b, c)), not(ite(a, b, c)), iff(a, x <= y)) converted here"""
    ack = [x for x in ctx.res.samples if x.get("kind") == "ack"][:3]
    cnfs = [x for x in ctx.res.samples if x.get("kind") == "cnf"][:3]
    if len(cnfs) < 3 and not getattr(ctx, "parts", None):
        env = Environment()
        push_env(env)
        try:
            m = env.formula_manager
            a, b, c = [m.Symbol(n) for n in "abc"]
            x, y = m.Symbol("x", env.type_manager.INT()), m.Symbol("y", env.type_manager.INT())
            for f in (m.And(a, m.Or(b, c)), m.Not(m.Ite(a, b, c)), m.Iff(a, m.LE(x, y))):
                try:
                    cnfs.append({"kind": "cnf", "term": termio.dump(f),
                                 "polarity_cnf": termio.dump(rw.PolarityCNFizer(env).convert_as_formula(f))})
                except Exception:
                    pass
        finally:
            pop_env()
    ctx.res.samples[:] = cnfs[:3] + ack


def replay(rec):
    case = rec["case"]
    env = Environment()
    push_env(env)
    try:
        f = termio.build(env, case["term"])
        t = termio.short(case["term"])
        if case.get("kind") == "ack":
            cfg = _cfg_from_json(case["cfg"]) if "cfg" in case else ACK_QUICK
            warm = termio.build(env, case["warm"]) if "warm" in case else None
            v = ack_verdict(env, f, cfg, {}, warm=warm)
            if v is None:
                return True, "do_ackermannization(%s) has the advertised form and preserves models" % t
            return False, "%s: %s" % (v[0], v[1])
        sh = Shared(_dom_from_json(case["dom"]) if "dom" in case else CNF_DOM)
        why = cnf_failures(env, sh, f)
        if not why:
            return True, "all CNF conversions of %s have the advertised form and preserve models" % t
        return False, "; ".join("%s: %s" % (v[0], v[1]) for _, v in sorted(why.items()))
    finally:
        pop_env()
