"""C15 - a failing call leaves no trace: later calls behave as if it never happened.

Histories  prefix . failing call . probes  over the universe of mc/core/histworld.py.  The
failing call ranges over natural failures (ill-typed construction, type-breaking
substitution at every position, foreign keys, symbol redefinition, wrong arity, non-constant
array index, malformed SMT-LIB / HR text cut at every token, model evaluation of a
non-constant, solver calls refused by the solver) and over *injected* failures: the k-th
callback invocation of a long-lived walker raises, for every k.  Oracle: the same prefix and
probes on an untouched twin (no failing call) must give the same observations, and no
long-lived walker may keep work-stack entries.
"""
import itertools
from io import StringIO
from pysmt.environment import Environment, push_env, pop_env
from ..core.runner import Result
from ..core import histworld as H
from ..core.termio import INT, REAL, BOOL, mk_type

ALL = ["F%d" % i for i in range(1, 18)] + ["F21"]


class InjectedInterrupt(KeyboardInterrupt):
    """an interruption that is not an Exception (Ctrl-C, SystemExit style) landing inside a callback"""


class Injected(Exception):
    pass


# ---- natural failing calls ------------------------------------------------------------------

def _ill_calls():
    C = {}
    C["And(x,a)"] = lambda w: w.m.And(w.S["x"], w.S["a"])
    C["Plus(x,r)"] = lambda w: w.m.Plus(w.S["x"], w.S["r"])
    C["BVAdd(u,bv3)"] = lambda w: w.m.BVAdd(w.S["u"], w.m.BV(1, 3))
    C["Equals(a,b)"] = lambda w: w.m.Equals(w.S["a"], w.S["b"])
    C["Ite(x,a,b)"] = lambda w: w.m.Ite(w.S["x"], w.S["a"], w.S["b"])
    C["f(a)"] = lambda w: w.m.Function(w.S["f"], [w.S["a"]])
    C["f(x,y)"] = lambda w: w.m.Function(w.S["f"], [w.S["x"], w.S["y"]])
    C["LE(F6,r)"] = lambda w: w.m.LE(w.F["F6"], w.S["r"])
    C["And(F3,F6)"] = lambda w: w.m.And(w.F["F3"], w.F["F6"])
    C["Not(F6)"] = lambda w: w.m.Not(w.F["F6"])
    C["ForAll([x],F6)"] = lambda w: w.m.ForAll([w.S["x"]], w.F["F6"])
    C["Symbol(x,REAL)"] = lambda w: w.m.Symbol("x", mk_type(w.env, REAL))
    C["Array(INT,0,{x:1})"] = lambda w: w.m.Array(mk_type(w.env, INT), w.m.Int(0), {w.S["x"]: w.m.Int(1)})
    C["Int('1')"] = lambda w: w.m.Int("1")
    C["BV(9,2)"] = lambda w: w.m.BV(9, 2)
    C["model(x)"] = lambda w: __import__("pysmt.solvers.eager", fromlist=["EagerModel"]).EagerModel({}, w.env).get_value(
        w.S["x"], model_completion=False)
    C["model(F8)"] = lambda w: __import__("pysmt.solvers.eager", fromlist=["EagerModel"]).EagerModel(
        {w.S["x"]: w.m.Int(1)}, w.env).get_value(w.F["F8"])
    C["cnf(F4)"] = lambda w: __import__("pysmt.rewritings", fromlist=["cnf"]).cnf(w.F["F4"], w.env)
    C["get_symbol(zz)"] = lambda w: w.m.get_symbol("zz")
    C["BVULT(x,y)"] = lambda w: w.m.BVULT(w.S["x"], w.S["y"])
    C["BVSLE(a,u)"] = lambda w: w.m.BVSLE(w.S["a"], w.S["u"])
    C["Select(x,y)"] = lambda w: w.m.Select(w.S["x"], w.S["y"])
    C["StrLength(x)"] = lambda w: w.m.StrLength(w.S["x"])
    C["Store(A,a,x)"] = lambda w: w.m.Store(w.S["A"], w.S["a"], w.S["x"])
    # nodes without arguments (create_node is the public route for node types the manager has no constructor for)
    import pysmt.operators as _op
    C["create_node(EQUALS,())"] = lambda w: w.m.create_node(node_type=_op.EQUALS, args=())
    C["create_node(ITE,())"] = lambda w: w.m.create_node(node_type=_op.ITE, args=())
    C["create_node(BV_ADD,())"] = lambda w: w.m.create_node(node_type=_op.BV_ADD, args=(), payload=(2,))
    return C


ILL = _ill_calls()
BAD_VALUE = {BOOL: "x", INT: "a", REAL: "a", ("BV", 2): "x"}     # a symbol of a different sort

SMT_TEXTS = {
    "s1": "(declare-fun a () Bool) (declare-fun x () Int) (define-fun g ((z Int)) Int (+ z 1)) "
          "(assert (let ((w (g x))) (forall ((q Int)) (=> a (< q w)))))",
    "s2": "(declare-fun u () (_ BitVec 2)) (push 1) (assert (bvult u (bvadd u #b01))) (pop 1) (assert (= u #b10))",
    # w, k are bound by let / define-fun in the other texts: here they are free (a leaked binding would show)
    "s4": "(declare-fun x () Int) (declare-fun s () String) (assert (and (> x w) (= s k)))",
    "s5": "(declare-fun s () String) (assert (= s w))",
    "s3": "(set-logic QF_LRA) (declare-fun r () Real) (define-fun k () Real 2) (assert (let ((w (+ r k))) (> w 3)))",
}
HR_TEXTS = {"h1": "(a & (x + 1 <= y)) | (! b)", "h2": "(x * 2 = y) -> (a <-> b)"}


def _tokens(text):
    import re
    return re.findall(r"\(|\)|[^\s()]+", text)


def failing_events(names, quick):
    evs = [("ill", k) for k in ILL]
    for n in names:
        evs.append(("subst_foreign", n))
    # type-breaking substitution of each universe symbol in each formula
    for n in names:
        for sym in ("a", "b", "x", "y", "r", "u"):
            evs.append(("subst_bad", n, sym))
    # the same with a map of five entries (four good ones and a type-breaking one), on the formulas with a quantifier
    for n in ("F4", "F21", "F9"):
        for sym in ("a", "x", "y"):
            evs.append(("subst_bad4", n, sym))
    for t in SMT_TEXTS:
        toks = _tokens(SMT_TEXTS[t])
        for cut in range(1, len(toks)):
            evs.append(("parse_smt_cut", t, cut))
        for pos in range(0, len(toks), 1 if not quick else 2):
            evs.append(("parse_smt_bad", t, pos))
    for t in HR_TEXTS:
        toks = HR_TEXTS[t].split()
        for cut in range(1, len(toks)):
            evs.append(("parse_hr_cut", t, cut))
    for n in ("F9", "F13"):
        for k in range(1, 12):
            evs.append(("dagprint_fail", n, k))
    return evs


WALKERS = ("simplifier", "substituter", "fvo", "ao", "qfo", "typeso", "theoryo", "sizeo", "nnf", "prenex", "cnf")


class _Sink(object):
    """a text stream whose k-th write can be made to fail (a full disk, a closed pipe)"""

    def __init__(self):
        self.buf = []
        self.fail_at = None
        self.n = 0

    def reset(self):
        self.buf = []
        self.fail_at = None
        self.n = 0

    def write(self, s):
        self.n += 1
        if self.fail_at is not None and self.n == self.fail_at:
            raise IOError("injected write failure")
        self.buf.append(s)

    def text(self):
        return "".join(self.buf)


class World(H.World):
    def __init__(self):
        H.World.__init__(self)
        from pysmt.smtlib.parser import SmtLibParser
        from pysmt.parsing import HRParser
        self.smt_parser = SmtLibParser(self.env)
        self.hr_parser = HRParser(self.env)
        from pysmt.smtlib.printers import SmtDagPrinter
        self.sink = _Sink()
        self.dag_printer = SmtDagPrinter(self.sink)

    def call(self, ev):
        k = ev[0]
        if k == "ill_again":
            return ILL[ev[1]](self)
        if k == "dagprint":
            # the long-lived DAG printer object prints into its (switchable) stream
            self.sink.reset()
            self.dag_printer.printer(self.F[ev[1]])
            return self.sink.text()
        if k == "parse":     # probes use the long-lived parser objects
            return self.smt_parser.get_script(StringIO(H.PARSE_TEXTS[ev[1]])).get_last_formula(self.m)
        if k == "parse_hr":
            return self.hr_parser.parse(HR_TEXTS[ev[1]])
        if k == "parse_smt_full":
            return self.smt_parser.get_script(StringIO(SMT_TEXTS[ev[1]])).get_last_formula(self.m)
        return H.World.call(self, ev)

    def walker(self, name):
        env = self.env
        if name in ("simplifier", "substituter", "fvo", "ao", "qfo", "typeso", "theoryo", "sizeo"):
            return getattr(env, name)
        return None

    def walker_call(self, name, f):
        from pysmt.rewritings import NNFizer, PrenexNormalizer, CNFizer
        env = self.env
        if name == "simplifier":
            return env.simplifier, (lambda: env.simplifier.simplify(f))
        if name == "substituter":
            return env.substituter, (lambda: env.substituter.substitute(f, {self.S["x"]: self.S["y"]}))
        if name == "fvo":
            return env.fvo, (lambda: env.fvo.get_free_variables(f))
        if name == "ao":
            return env.ao, (lambda: env.ao.get_atoms(f))
        if name == "qfo":
            return env.qfo, (lambda: env.qfo.is_qf(f))
        if name == "typeso":
            return env.typeso, (lambda: env.typeso.get_types(f))
        if name == "theoryo":
            return env.theoryo, (lambda: env.theoryo.get_theory(f))
        if name == "sizeo":
            return env.sizeo, (lambda: env.sizeo.get_size(f, 1 if False else 0))
        raise ValueError(name)

    def fail(self, ev):
        """performs the failing call; returns True if it raised (as it should)"""
        k = ev[0]
        try:
            if k == "ill":
                ILL[ev[1]](self)
            elif k == "subst_foreign":
                other = Environment()
                key = other.formula_manager.Symbol("x", mk_type(other, INT))
                self.env.substituter.substitute(self.F[ev[1]], {key: self.m.Int(1)})
            elif k == "subst_bad":
                f = self.F[ev[1]]
                sym = self.S[ev[2]]
                bad = self.S[BAD_VALUE[H.UNIVERSE_SYMS[ev[2]]]]
                self.env.substituter.substitute(f, {sym: bad})
            elif k == "subst_bad4":
                f = self.F[ev[1]]
                # five entries whose keys differ from those of the probes' four-entry map (x and y are not keys
                # unless they are the type-breaking one)
                sub = {self.S["r"]: self.m.Real(2), self.S["u"]: self.m.BV(2, 2), self.S["st"]: self.m.String("zz"),
                       self.S["b"]: self.S["a"]}
                sub[self.S[ev[2]]] = self.S[BAD_VALUE[H.UNIVERSE_SYMS[ev[2]]]]
                self.env.substituter.substitute(f, sub)
            elif k == "parse_smt_cut":
                toks = _tokens(SMT_TEXTS[ev[1]])[:ev[2]]
                self.smt_parser.get_script(StringIO(" ".join(toks))).get_last_formula(self.m)
            elif k == "parse_smt_bad":
                toks = _tokens(SMT_TEXTS[ev[1]])
                toks[ev[2]] = ")" if toks[ev[2]] != ")" else "(("
                self.smt_parser.get_script(StringIO(" ".join(toks))).get_last_formula(self.m)
            elif k == "parse_hr_cut":
                self.hr_parser.parse(" ".join(HR_TEXTS[ev[1]].split()[:ev[2]]) + " &")
            elif k == "dagprint_fail":
                self.sink.reset()
                self.sink.fail_at = ev[2]
                try:
                    self.dag_printer.printer(self.F[ev[1]])
                finally:
                    self.sink.fail_at = None
            elif k == "inject":
                _, wname, fname, kth = ev
                walker, thunk = self.walker_call(wname, self.F[fname])
                return inject(walker, thunk, kth)
            else:
                raise ValueError(ev)
        except Injected:
            return True
        except Exception:
            return True
        return False


def inject(walker, thunk, kth):
    """make the kth callback invocation of `walker` raise; returns True if the fault fired"""
    orig = dict(walker.functions)
    count = [0]

    def wrap(fn):
        def wrapped(formula, *a, **kw):
            count[0] += 1
            if count[0] == kth:
                # odd positions: an ordinary error; even positions: an interruption outside Exception
                if kth % 2:
                    raise Injected("injected failure at callback %d" % kth)
                raise InjectedInterrupt("injected interruption at callback %d" % kth)
            return fn(formula, *a, **kw)
        return wrapped
    for nt, fn in orig.items():
        walker.functions[nt] = wrap(fn)
    fired = False
    try:
        thunk()
    except (Injected, InjectedInterrupt):
        fired = True
    except Exception:
        fired = True
    finally:
        walker.functions.clear()
        walker.functions.update(orig)
    return fired


def count_callbacks(wname, fname):
    w = World()
    push_env(w.env)
    try:
        walker, thunk = w.walker_call(wname, w.F[fname])
        orig = dict(walker.functions)
        count = [0]

        def wrap(fn):
            def wrapped(formula, *a, **kw):
                count[0] += 1
                return fn(formula, *a, **kw)
            return wrapped
        for nt, fn in orig.items():
            walker.functions[nt] = wrap(fn)
        try:
            thunk()
        finally:
            walker.functions.clear()
            walker.functions.update(orig)
        return count[0]
    finally:
        pop_env()


def dirty_walkers(w):
    out = []
    env = w.env
    for name in ("simplifier", "substituter", "fvo", "ao", "qfo", "typeso", "theoryo", "sizeo", "stc", "serializer"):
        wk = getattr(env, name, None)
        st = getattr(wk, "stack", None)
        if st:
            out.append("%s.stack has %d entries" % (name, len(st)))
    if getattr(env.substituter, "memoization", None):
        out.append("substituter one-shot memo has %d entries" % len(env.substituter.memoization))
    return out


def probes_for(names, first=None):
    """first: a predicate selecting the probes that are run before all others (a probe can repair what the failing
    call broke, and so hide it from the probes after it)"""
    if first is not None:
        ps = probes_for(names)
        return [p for p in ps if first(p)] + [p for p in ps if not first(p)]
    ps = H.probe_events(names)
    ps += [("parse_hr", t) for t in HR_TEXTS] + [("parse_smt_full", t) for t in SMT_TEXTS]
    ps += [("ill_again", k) for k in ILL]
    ps += [("dagprint", n) for n in ("F2", "F9", "F13")]
    return ps


_TWIN = {}


def _big_subst_first(p):
    # (only one probe can be first: the one on the formula with a quantifier over a key of the map)
    return p[0] == "subst" and p[2] == "4keys" and p[1] == "F4"


def _order_for(failing):
    return _big_subst_first if failing is not None and failing[0] == "subst_bad4" else None


def twin(prefix, names, first=None):
    key = (prefix, tuple(names), first is not None)
    if key not in _TWIN:
        if len(_TWIN) > 300:
            _TWIN.clear()
        w = World()
        push_env(w.env)
        try:
            for ev in prefix:
                try:
                    w.call(ev)
                except Exception:
                    pass
            _TWIN[key] = [w.observe(p) for p in probes_for(names, first)]
        finally:
            pop_env()
    return _TWIN[key]


def run_case(prefix, failing, names):
    """None, 'nofail' (the call did not raise) or (kind, msg, probe)"""
    first = _order_for(failing)
    want = twin(prefix, names, first)
    w = World()
    push_env(w.env)
    try:
        for ev in prefix:
            try:
                w.call(ev)
            except Exception:
                pass
        if not w.fail(failing):
            return "nofail"
        dirty = dirty_walkers(w)
        for p, exp in zip(probes_for(names, first), want):
            got = w.observe(p)
            if got != exp:
                return ("differs", "after %s and the failing call %s the probe %s gives %s; without the failing call %s%s"
                        % (list(prefix), failing, p, _short(got), _short(exp),
                           (" [" + "; ".join(dirty) + "]") if dirty else ""), p)
        if dirty:
            return ("dirty", "after the failing call %s: %s" % (failing, "; ".join(dirty)), ("state",))
        return None
    finally:
        pop_env()


def _short(x, n=140):
    s = repr(x)
    return s if len(s) <= n else s[:n] + "..."


def fail_class(ev):
    k = ev[0]
    if k == "ill":
        return "ill:" + ev[1]
    if k == "inject":
        return "inject:%s" % ev[1]
    if k.startswith("parse_smt"):
        return k
    return k


def probe_class(p):
    return p[0] if p[0] != "size" else "size"


def run_shard(args):
    failing_list, prefixes, names, seed = args
    res = Result()
    for failing in failing_list:
        for prefix in prefixes:
            res.count("evaluations")
            try:
                bad = run_case(prefix, failing, names)
            except Exception as e:
                bad = ("harness", "harness error %r" % (e,), ("harness",))
            if bad == "nofail":
                res.outcome("%s:did-not-fail" % fail_class(failing))
                res.count("did_not_fail")
                continue
            res.count("nontrivial")
            res.outcome("%s:%s" % (failing[0], "ok" if bad is None else bad[0]))
            res.sample({"prefix": [list(e) for e in prefix], "failing": list(failing)}, limit=1)
            if bad:
                # minimise: try without the prefix
                if prefix:
                    b0 = run_case((), failing, names)
                    if b0 not in (None, "nofail") and b0[0] == bad[0]:
                        bad, prefix = b0, ()
                sig = "fault:%s=>%s:%s" % (fail_class(failing), probe_class(bad[2]), bad[0])
                res.violation("fault", sig, bad[1], {"prefix": [list(e) for e in prefix], "failing": list(failing),
                                                     "names": list(names)})
    return res


# ---------------------------------------------------------------------------------------
# a walk that fails on an operator the walker does not know yet, then the operator is registered

DWF_WALKERS = ("simplifier", "fvo", "ao", "qfo", "typeso", "theoryo", "substituter")


def _dwf_world(wname, fail_first):
    """fresh environment; returns the observation of walking (op(x, y) & x) after the handler was registered
    (fail_first: the same walk was attempted, and failed, before the registration)"""
    import pysmt.operators as ops
    from pysmt.type_checker import SimpleTypeChecker
    env = Environment()
    push_env(env)
    try:
        m = env.formula_manager
        idx = _dwf_op()
        env.add_dynamic_walker_function(idx, SimpleTypeChecker, SimpleTypeChecker.walk_bool_to_bool)
        x, y = m.Symbol("x"), m.Symbol("y")
        node = m.create_node(idx, (x, y))
        f = m.And(node, x)
        walker = getattr(env, wname)
        cls = type(walker)
        if wname in ("simplifier", "substituter"):
            handler = (lambda self, formula, args, **kw: m.create_node(idx, tuple(args)))
        elif wname == "fvo":
            handler = cls.walk_simple_args
        elif wname == "ao":
            handler = cls.walk_bool_op
        elif wname == "qfo":
            handler = cls.walk_all
        else:
            handler = cls.walk_combine

        def call():
            if wname == "simplifier":
                return walker.simplify(f)
            if wname == "substituter":
                return walker.substitute(f, {y: m.TRUE()})
            if wname == "fvo":
                return sorted(v.symbol_name() for v in walker.get_free_variables(f))
            if wname == "ao":
                return sorted(str(a) for a in walker.get_atoms(f))
            if wname == "qfo":
                return walker.is_qf(f)
            if wname == "typeso":
                return sorted(str(t) for t in walker.get_types(f))
            return str(walker.get_theory(f))
        first = None
        if fail_first:
            try:
                call()
                first = "did-not-fail"
            except Exception as e:
                first = type(e).__name__
        env.add_dynamic_walker_function(idx, cls, handler)
        try:
            r = call()
            obs = ("ok", str(r).replace("c15op", "op"))
        except Exception as e:
            obs = ("exc", type(e).__name__)
        return first, obs
    finally:
        pop_env()


_DWF_OP = []


def _dwf_op():
    import pysmt.operators as ops
    if not _DWF_OP:
        _DWF_OP.append(ops.new_node_type(node_str="c15op"))
    return _DWF_OP[0]


def run_dwf_shard(wname):
    res = Result()
    res.count("evaluations")
    try:
        first, got = _dwf_world(wname, True)
        _, want = _dwf_world(wname, False)
    except Exception as e:
        res.violation("fault", "harness:dwf", "dynamic-walker scenario for %s raised %r" % (wname, e), {"dwf": wname})
        return res
    if first == "did-not-fail":
        res.outcome("dwf:did-not-fail")
        return res
    res.count("nontrivial")
    res.outcome("dwf:%s" % ("ok" if got == want else "differs"))
    if got != want:
        res.violation("fault", "fault:unsupported-operator=>%s-after-registration:differs" % wname,
                      "%s: a walk over an operator without handler failed (%s); after the handler was registered the "
                      "same walk gives %r, in an environment that never made the failing walk %r"
                      % (wname, first, got, want), {"dwf": wname})
    return res


def run(ctx):
    ctx.level = "fault_enumeration"
    q = ctx.quick
    names = ALL
    fails = failing_events(["F2", "F3", "F4", "F9"] if q else ALL, q)
    # injected failures: every callback position of every long-lived walker on two formulas
    for wname in ("simplifier", "substituter", "fvo", "ao", "qfo", "typeso", "theoryo", "sizeo"):
        for fname in (("F9", "F4") if q else ("F9", "F4", "F5", "F10")):
            n = count_callbacks(wname, fname)
            for k in range(1, n + 1):
                fails.append(("inject", wname, fname, k))
    pre_events = H.query_events(["F3", "F9"] if q else ["F1", "F3", "F4", "F9"])
    prefixes = [()] + [(e,) for e in pre_events if e[0] in ("simplify", "subst", "fv", "atoms", "types", "theory",
                                                              "nnf", "parse", "get_type", "size")][: (12 if q else 60)]
    ctx.rule = ("prefix (length <= 1, %d prefixes) x %d failing calls (ill-typed construction, type-breaking / foreign "
                "substitution at every symbol position, SMT-LIB and HR text cut or corrupted at every token, model "
                "evaluation errors, and an injected failure at every callback position of 8 long-lived walkers) x the "
                "full probe set, compared with a twin that never made the failing call; non-trivial = the call raised"
                % (len(prefixes), len(fails)))
    ctx.assumptions = ["comparison up to commutative order / fresh names (as C14)",
                       "injected failures are installed from outside by wrapping walker.functions and removed again "
                       "before the probes run"]
    shards = []
    chunk = 6
    for i in range(0, len(fails), chunk):
        shards.append((fails[i:i + chunk], prefixes, names, ctx.seed))
    ctx.rng.shuffle(shards)
    ctx.pmap(run_shard, shards)
    ctx.pmap(run_dwf_shard, list(DWF_WALKERS))
    from . import c15_solver
    c15_solver.run(ctx)
    ctx.coverage.update({"failing_calls": len(fails), "prefixes": len(prefixes)})


def replay(rec):
    c = rec["case"]
    if c.get("part") == "solver":
        from . import c15_solver
        return c15_solver.replay(rec)
    if "dwf" in c:
        r = run_dwf_shard(c["dwf"])
        if r.violations:
            return False, r.violations[0]["msg"]
        return True, "the %s walks the newly registered operator as in an untouched environment" % c["dwf"]
    prefix = tuple(tuple(e) for e in c["prefix"])
    failing = tuple(c["failing"])
    bad = run_case(prefix, failing, c.get("names", ALL))
    if bad == "nofail":
        return True, "the call %s does not fail on this tree" % (failing,)
    if bad:
        return False, bad[1]
    return True, "after the failing call %s every probe agrees with the twin" % (failing,)
