"""C14 - results do not depend on what the environment was used for before.

Every history of API calls up to length L over the event alphabet of mc/core/histworld.py
is executed in a fresh Environment; afterwards the full probe set (every query and
transformation on every universe formula) is run and each result is compared - up to the
order of commutative arguments and the names of fresh symbols - with the result of the same
probe sequence in an untouched environment.  A probe that introduces no fresh symbol must
return the very same object when repeated.
"""
import itertools
from pysmt.environment import push_env, pop_env
from ..core.runner import Result
from ..core import histworld as H

ALL = ["F%d" % i for i in range(1, 23)]
_REF = {}


def reference(names, order):
    key = (tuple(names), order)
    if key not in _REF:
        probes = H.probe_events(names)
        if order == "reverse":
            probes = probes[::-1]
        want = []
        for p in probes:
            # every probe in an environment of its own: the probes before it are a history as well
            w = H.World()
            push_env(w.env)
            try:
                want.append(w.observe(p))
            finally:
                pop_env()
        _REF[key] = (probes, want)
    return _REF[key]


def run_history(hist, probe_names, check_same=True):
    """the probe sequence is run in both orders (a probe can mask the history for a later one)"""
    # reverse order for histories of length <= 1 and for histories ending in a constant /
    # fresh-symbol / parse event (the value-keyed caches are where masking matters)
    orders = ("forward", "reverse") if (len(hist) <= 1 or hist[-1][0] in ("const", "fresh", "parse")) else ("forward",)
    for order in orders:
        bad = _run_history(hist, probe_names, check_same and order == "forward", order)
        if bad:
            return bad
    return None


def _run_history(hist, probe_names, check_same, order):
    """returns None or (kind, msg, failing probe)"""
    probes, want = reference(probe_names, order)
    w = H.World()
    push_env(w.env)
    try:
        for ev in hist:
            try:
                w.call(ev)
            except Exception:
                pass        # failing calls are C15's business; here they are just history
        for p, exp in zip(probes, want):
            got = w.observe(p)
            if got != exp:
                return ("differs", "after %s the probe %s gives %s, in a fresh environment %s"
                        % (list(hist), p, _short(got), _short(exp)), p)
        if check_same:
            for p in probes:
                if p[0] in ("simplify", "subst", "nnf", "prenex", "aig", "fv", "atoms", "get_type"):
                    if not w.same_object_twice(p):
                        return ("not-same-object", "after %s repeating %s returns a different object" % (list(hist), p), p)
        return None
    finally:
        pop_env()


def _short(x, n=160):
    s = repr(x)
    return s if len(s) <= n else s[:n] + "..."


def _ab(ev):
    if ev[0] == "const":
        return "const:" + ev[1]
    if ev[0] in ("size",):
        return "size%d" % ev[2]
    if ev[0] == "subst":
        return "subst"
    if ev[0] == "smtlib":
        return "smtlib-%s" % ("dag" if ev[2] else "tree")
    return ev[0]


def minimise(hist, probe_names, bad):
    cur = list(hist)
    changed = True
    while changed and len(cur) > 1:
        changed = False
        for i in range(len(cur)):
            cand = cur[:i] + cur[i + 1:]
            b = run_history(tuple(cand), probe_names)
            if b and b[0] == bad[0] and _ab(b[2]) == _ab(bad[2]):
                cur, bad, changed = cand, b, True
                break
    return cur, bad


def _reduced(events):
    """alphabet of the length-3 histories: three constant spellings instead of nineteen"""
    keep = ("Int(1.0)", "Real(7)", "Real(0.5)")
    return [e for e in events if e[0] != "const" or e[1] in keep]


def run_shard(args):
    first, L, event_names, probe_names, seed = args
    res = Result()
    events = H.query_events(event_names, extra=H.EXTRA_EVENTS) if L <= 2 else _reduced(H.query_events(event_names))
    # second and later positions: the events whose own effect is already covered as a history of length 1
    # and that only read (printing, type query, four of the six size measures) are not repeated
    later = [e for e in events if not (e[0] in ("serialize", "smtlib", "get_type") or (e[0] == "size" and e[2] not in (0, 4)))]
    for l in range(1, L + 1):
        for tail in itertools.product(later, repeat=l - 1):
            hist = (first,) + tail
            res.count("evaluations")
            bad = run_history(hist, probe_names, check_same=(l == 1))
            res.outcome("%s:%s" % (_ab(hist[-1]), "ok" if bad is None else bad[0]))
            if l >= 2:
                res.count("nontrivial")
                res.sample({"history": [list(e) for e in hist]}, limit=1)
            if bad:
                mh, mb = minimise(hist, probe_names, bad)
                sig = "history:%s=>%s:%s" % ("→".join(_ab(e) for e in mh), _ab(mb[2]), mb[0])
                res.violation("history", sig, mb[1], {"history": [list(e) for e in mh], "probes": list(probe_names)})
    return res


# ---------------------------------------------------------------------------------------
# construction order: in a *lazy* world nothing exists until an event mentions it, so "which other formulas
# were previously built" really changes the creation order (node ids) of shared symbols, constants and sub-terms

ORDER_TARGETS = ALL + [n for n, _ in H.ORDER_TABLE]
_OREF = {}


def order_events():
    evs = [("build", n) for n in ORDER_TARGETS]
    # the spellings of one value matter to the value-keyed caches (eager part); here only the creation order does
    evs += [("const", c) for c in ["Int(1)", "Real(0.5)", "String('a')", "BV(1,2)"] + list(H.ORDER_CONSTS)]
    evs.append(("fresh",))
    evs += [("parse", t) for t in H.PARSE_TEXTS]
    return evs


def order_probes(target):
    return [e for e in H.query_events([target]) if len(e) > 1 and e[1] == target and e[0] not in ("theory_mutate", "build")]


def order_reference(target):
    if target not in _OREF:
        w = H.World(lazy=True)
        push_env(w.env)
        try:
            probes = order_probes(target)
            _OREF[target] = (probes, [w.observe(p) for p in probes])
        finally:
            pop_env()
    return _OREF[target]


def run_order(hist, target):
    probes, want = order_reference(target)
    w = H.World(lazy=True)
    push_env(w.env)
    try:
        for ev in hist:
            try:
                w.call(ev)
            except Exception:
                pass
        for p, exp in zip(probes, want):
            got = w.observe(p)
            if got != exp:
                return ("differs", "with %s done before %s exists, the probe %s gives %s; when %s is the first thing "
                        "built in the environment it gives %s" % (list(hist), target, p, _short(got), target, _short(exp)), p)
        return None
    finally:
        pop_env()


def run_order_shard(args):
    first, L, build_only_tail = args
    res = Result()
    events = order_events()
    later = [e for e in events if e[0] == "build"] if build_only_tail else events
    # (the length-3 histories of the thorough tier: the targets whose simplification looks at node ids)
    targets = ORDER_TARGETS if not build_only_tail else ["F3", "F6", "F9", "F14", "F19"] + [n for n, _ in H.ORDER_TABLE]
    for l in range(1 if not build_only_tail else 3, L + 1):
        for tail in itertools.product(later, repeat=l - 1):
            hist = (first,) + tail
            for target in targets:
                res.count("evaluations")
                res.count("order_cases")
                bad = run_order(hist, target)
                res.outcome("order:%s:%s" % (_ab(hist[-1]), "ok" if bad is None else bad[0]))
                if l >= 2:
                    res.count("nontrivial")
                if bad:
                    cur = list(hist)
                    for i in range(len(cur) - 1, -1, -1):
                        cand = cur[:i] + cur[i + 1:]
                        b = run_order(tuple(cand), target) if cand else None
                        if b and _ab(b[2]) == _ab(bad[2]):
                            cur, bad = cand, b
                    sig = "order:%s=>%s(%s):%s" % ("→".join(_ab(e) for e in cur), _ab(bad[2]), target, bad[0])
                    res.violation("order", sig, bad[1], {"order_history": [list(e) for e in cur], "target": target})
    return res


def run(ctx):
    ctx.level = "model_checking"
    q = ctx.quick
    event_names = ["F9", "F11", "F15"] if q else ["F1", "F3", "F4", "F6", "F8", "F9", "F10", "F11", "F13", "F15", "F17"]
    L = 2 if q else (3 if False else 2)
    events = H.query_events(event_names, extra=H.EXTRA_EVENTS)
    ctx.rule = ("all histories of length <= %d over %d API events (build, type, simplify, substitute with 3 maps, "
                "analyses, logic/theory incl. mutation of the returned Theory, six size measures, printing, parsing, "
                "nnf/cnf/prenex/aig, %d constant spellings, FreshSymbol) each followed by the full probe set (%d probes) "
                "compared with a fresh environment; no state merging (a state is a history); non-trivial = length >= 2"
                % (L, len(events), len(H.CONST_SPELLINGS), len(H.probe_events(ALL))))
    ctx.rule += ("; construction order: in a lazy world (symbols and formulas are created on first use) all histories of "
                 "length <= 2 of build / constant / FreshSymbol / parse events before each of %d target formulas exists, "
                 "then every query on the target, compared with an environment in which the target is the first thing built"
                 % len(ORDER_TARGETS))
    ctx.assumptions = ["comparison is up to the order of commutative arguments (AC key) and the numbering of fresh symbols",
                       "exceptions are compared by type"]
    shards = [(e, L, event_names, ALL, ctx.seed) for e in events]
    if not q:
        # thorough: length 3 over a reduced alphabet
        small = ["F9"]
        for e in _reduced(H.query_events(small)):
            shards.append((e, 3, small, ALL, ctx.seed))
    ctx.rng.shuffle(shards)
    ctx.pmap(run_shard, shards)
    # construction order (lazy worlds): all histories of length <= 2 of build / constant / fresh / parse events
    # before each target formula exists [thorough: length 3 with build events in the later positions]
    oshards = [(e, 2, False) for e in order_events()]
    if not q:
        oshards += [(e, 3, True) for e in order_events()]
    ctx.rng.shuffle(oshards)
    ctx.pmap(run_order_shard, oshards)
    ctx.coverage["order_part"] = {"events": len(order_events()), "targets": len(ORDER_TARGETS),
                                  "cases": ctx.res.counters.get("order_cases", 0),
                                  "probes_per_target": len(order_probes("F9"))}
    n = ctx.res.counters.get("evaluations", 0)
    ctx.coverage.update({"states": n, "transitions": n * len(H.probe_events(ALL)),
                         "traces_validated_against_impl": n, "history_length": L, "events": len(events)})


def replay(rec):
    c = rec["case"]
    if "order_history" in c:
        hist = tuple(tuple(e) for e in c["order_history"])
        bad = run_order(hist, c["target"])
        if bad:
            return False, bad[1]
        return True, "with %s done before %s exists every probe agrees with a fresh environment" % (list(hist), c["target"])
    hist = tuple(tuple(e) for e in c["history"])
    bad = run_history(hist, c.get("probes", ALL))
    if bad:
        return False, bad[1]
    return True, "after %s every probe agrees with a fresh environment" % (list(hist),)
