"""C12 - formula analyses (free symbols, atoms, qf-ness, sorts, sizes) are exact.

Every term of every profile up to the part's depth is analysed by the real oracles
(FNode.get_free_variables / get_atoms / size, env.qfo.is_qf, env.typeso.get_types) and the
answers are compared with

 * independent structural definitions written here from the docstrings (explicit stacks):
   - free symbols: top-down traversal carrying the set of bound symbols; the name of an applied
     function is a symbol occurrence;
   - atoms (AtomsOracle docstring: "either a boolean variable or a theory atom"): descend through
     Boolean connectives, quantifiers and Bool-sorted ITE; Boolean constants contribute nothing;
     every other Bool-sorted term reached (Boolean symbol, theory relation, Boolean function
     application, Boolean select) is an atom and is not entered;
   - quantifier-freeness: no FORALL/EXISTS node anywhere in the DAG (also below theory terms);
   - sorts: closure under sort components of a set that must contain the sort of every symbol
     occurrence (free or bound), of every binder, of every constant, the return and parameter sorts
     of every applied function symbol and the index sort carried by every constant-array node
     (lower bound), and may additionally contain the sort of any sub-term (upper bound);
   - the six SizeOracle measures over the structure node/args(): TREE_NODES, DAG_NODES, LEAVES,
     DEPTH, SYMBOLS (distinct SYMBOL nodes among the sub-terms), BOOL_DAG (nodes reachable without
     entering a theory relation; the reading that also stops at Boolean applications/selects is
     accepted as well since "theory atom" is not defined by the SizeOracle comment);
 * two semantic tests on the reference semantics (mc/core/refsem.py):
   (i)  interpretations of the *syntactic* symbol set that differ only on symbols NOT reported
        free give the same value (all of them are enumerated over the finite pools);
   (ii) for a quantifier-free Boolean formula the truth value is a function of the valuation of
        the reported atoms (collected over all interpretations of its symbols).

A failing term is reduced to its smallest failing sub-term (per failure kind) before it is
reported; the signature is  c12:<root operator>:<analysis>-<failure>  (child kinds are left out on
purpose: the analyses are uniform in the children, so one root cause gives one signature; for the
size measures the root operator is further coarsened to its class, see sig_of).
"""
from fractions import Fraction
import pysmt.operators as op
from pysmt.environment import Environment, push_env, pop_env
from pysmt.oracles import SizeOracle
from ..core import profiles as P
from ..core import termio
from ..core.refsem import compile_term, Unconstrained, IllTyped, Unsupported, QDOM
from ..core.termgen import Profile, interps, count_interps
from ..core.termio import INT, REAL, BOOL, sort_of, mk_type
from ..core.sig import subterms_postorder
from ..core.sweep_fast import sweep
from ..core.runner import Result

USORT = ("Sort", "S", ())
QDOMS = [{INT: (0,), REAL: (Fraction(0),), USORT: (0,)},
         {INT: (0, 1), REAL: (Fraction(0), Fraction(1, 2)), USORT: (0, 1)},
         {INT: (-1, 0, 2), REAL: (Fraction(-1), Fraction(0), Fraction(2)), USORT: (0, 1)}]
SEM_TREE_LIMIT = 6000     # semantic tests evaluate the tree unfolding (a binder multiplies its body)
SMALL_DOM = {INT: (-1, 0, 2), REAL: (Fraction(-1), Fraction(0), Fraction(1, 2))}
TINY_DOM = {INT: (0, 1), REAL: (Fraction(0), Fraction(1, 2))}
CAP_QUICK, CAP_THOROUGH = 20000, 200000

# written from the SMT-LIB theory signatures, not from pysmt.operators.RELATIONS
REL = frozenset([op.EQUALS, op.LE, op.LT, op.BV_ULT, op.BV_ULE, op.BV_SLT, op.BV_SLE,
                 op.STR_CONTAINS, op.STR_PREFIXOF, op.STR_SUFFIXOF])
CONN = frozenset([op.AND, op.OR, op.NOT, op.IMPLIES, op.IFF])
QUANT = frozenset([op.FORALL, op.EXISTS])
LEAF_CONST = frozenset([op.BOOL_CONSTANT, op.INT_CONSTANT, op.REAL_CONSTANT, op.STR_CONSTANT,
                        op.BV_CONSTANT])
MEASURES = [("TREE_NODES", SizeOracle.MEASURE_TREE_NODES), ("DAG_NODES", SizeOracle.MEASURE_DAG_NODES),
            ("LEAVES", SizeOracle.MEASURE_LEAVES), ("DEPTH", SizeOracle.MEASURE_DEPTH),
            ("SYMBOLS", SizeOracle.MEASURE_SYMBOLS), ("BOOL_DAG", SizeOracle.MEASURE_BOOL_DAG)]


# ---------------------------------------------------------------------------------------
# independent structural definitions

def ref_free(f):
    """symbols occurring free: top-down, the context is the set of symbols bound above"""
    out, seen, stack = set(), set(), [(f, frozenset())]
    while stack:
        item = stack.pop()
        if item in seen:
            continue
        seen.add(item)
        n, bound = item
        t = n.node_type()
        if t == op.SYMBOL:
            if n not in bound:
                out.add(n)
        elif t in QUANT:
            stack.append((n.arg(0), bound | frozenset(n.quantifier_vars())))
        else:
            if t == op.FUNCTION and n.function_name() not in bound:
                out.add(n.function_name())
            for k in n.args():
                stack.append((k, bound))
    return out


def ref_symbols(nodes):
    """every symbol mentioned in any way: occurrences, applied function names, binders"""
    out = set()
    for n in nodes:
        t = n.node_type()
        if t == op.SYMBOL:
            out.add(n)
        elif t == op.FUNCTION:
            out.add(n.function_name())
        elif t in QUANT:
            out.update(n.quantifier_vars())
    return out


def ref_atoms(f, sort):
    out, seen, stack = set(), set(), [f]
    while stack:
        n = stack.pop()
        if n in seen:
            continue
        seen.add(n)
        t = n.node_type()
        if t == op.BOOL_CONSTANT:
            continue
        if t in CONN or t in QUANT or (t == op.ITE and sort(n) == BOOL):
            stack.extend(n.args())
        else:
            out.add(n)
    return out


def expand_sorts(sorts):
    out, stack = set(), list(sorts)
    while stack:
        s = stack.pop()
        if s in out:
            continue
        out.add(s)
        if isinstance(s, tuple):
            if s[0] == "Array":
                stack.extend([s[1], s[2]])
            elif s[0] == "Sort":
                stack.extend(s[2])
            elif s[0] == "Fun":
                stack.append(s[1])
                stack.extend(s[2])
    return out


def ref_sorts(nodes, sort):
    must, may = set(), set()
    for n in nodes:
        t = n.node_type()
        may.add(sort(n))
        if t == op.SYMBOL:
            must.add(sort_of(n.symbol_type()))
        elif t in LEAF_CONST:
            must.add(sort(n))
        elif t in QUANT:
            for v in n.quantifier_vars():
                must.add(sort_of(v.symbol_type()))
        elif t == op.FUNCTION:
            fs = sort_of(n.function_name().symbol_type())
            if fs[0] == "Fun":
                must.add(fs[1])
                must.update(fs[2])
            else:
                must.add(fs)
        elif t == op.ARRAY_VALUE:
            must.add(sort_of(n.array_value_index_type()))
    must = expand_sorts(must)
    return must, expand_sorts(may) | must


def _is_bool_leaf_atom(n, sort):
    return n.node_type() in (op.FUNCTION, op.ARRAY_SELECT) and sort(n) == BOOL


def ref_sizes(f, nodes, sort):
    """nodes: the sub-terms of f, children first"""
    tree, leaves, depth = {}, {}, {}
    for n in nodes:
        ks = n.args()
        if len(ks) == 0:
            tree[n], leaves[n], depth[n] = 1, 1, 1
        else:
            tree[n] = 1 + sum(tree[k] for k in ks)
            leaves[n] = sum(leaves[k] for k in ks)
            depth[n] = 1 + max(depth[k] for k in ks)
    out = {"TREE_NODES": (tree[f],), "DAG_NODES": (len(nodes),), "LEAVES": (leaves[f],),
           "DEPTH": (depth[f],),
           "SYMBOLS": (sum(1 for n in nodes if n.node_type() == op.SYMBOL),)}
    if tree[f] <= 4000:
        # the same three measures on the formula literally unfolded as a tree (no memo)
        t = l = d = 0
        stack = [(f, 1)]
        while stack:
            n, lev = stack.pop()
            t += 1
            d = max(d, lev)
            ks = n.args()
            if len(ks) == 0:
                l += 1
            for k in ks:
                stack.append((k, lev + 1))
        if (t, l, d) != (tree[f], leaves[f], depth[f]):
            raise AssertionError("oracle self-check: tree unfolding disagrees with the recursion")
    alts = []
    for stop_atoms in (False, True):
        seen, stack = set(), [f]
        while stack:
            n = stack.pop()
            if n in seen:
                continue
            seen.add(n)
            if n.node_type() in REL or (stop_atoms and _is_bool_leaf_atom(n, sort)):
                continue
            stack.extend(n.args())
        alts.append(len(seen))
    out["BOOL_DAG"] = tuple(dict.fromkeys(alts))
    return out


def features(f, nodes, sort, free, sizes):
    fs = []
    bound = set()
    nested = False
    for n in nodes:
        t = n.node_type()
        if t in QUANT:
            bound.update(n.quantifier_vars())
        if not (t in CONN or t in QUANT or (t == op.ITE and sort(n) == BOOL)):
            if any(sort(k) == BOOL for k in n.args()):
                nested = True
    if bound:
        fs.append("q")
        if bound & free:
            fs.append("shadow")
    if any(n.node_type() == op.FUNCTION for n in nodes):
        fs.append("uf")
    if nested:
        fs.append("bool-in-theory")
    if sizes["TREE_NODES"][0] != sizes["DAG_NODES"][0]:
        occ = {}
        for n in nodes:
            for k in n.args():
                if len(k.args()) > 0:
                    occ[k] = occ.get(k, 0) + 1
        if any(c > 1 for c in occ.values()):
            fs.append("shared")
    return fs


# ---------------------------------------------------------------------------------------
# the verdict

def tree_nodes(f):
    t = {}
    for n in subterms_postorder(f):
        t[n] = 1 + sum(t[k] for k in n.args())
    return t[f]


def eval_cost(f, nodes):
    """node visits of one reference evaluation: the tree unfolding, a binder repeating its body once
    per tuple of its (largest) quantification domain"""
    c = {}
    for n in nodes:
        k = 1 + sum(c[a] for a in n.args())
        if n.node_type() in QUANT:
            rep = 1
            for v in n.quantifier_vars():
                t = v.symbol_type()
                rep *= 2 if t.is_bool_type() else (1 << t.width) if t.is_bv_type() else 3
            k = 1 + rep * c[n.arg(0)]
        c[n] = k
    return c[f]


def _show(n):
    """one-line rendering; a large shared DAG is summarised (its tree unfolding is exponential)"""
    if tree_nodes(n) <= 400:
        return termio.short(termio.dump(n))
    return "<%s term with %d DAG nodes>" % (op.op_to_str(n.node_type()), len(subterms_postorder(n)))


def _names(ns):
    return sorted(_show(n) for n in ns)


class Analyser(object):
    def __init__(self, env, part, res=None):
        self.env = env
        self.part = part
        self.res = res if res is not None else Result()
        self.cmemo = {}
        self.cache = {}
        self.dom = part.get("dom")
        self.qdoms = part.get("qdoms") or QDOMS
        self.cap = part.get("cap", CAP_QUICK)

    # -- helpers ------------------------------------------------------------------------
    def _dom_for(self, symbols, nq):
        """the value pools used for this case: the part's, else the standard ones; shrunk when the
        number of interpretations would exceed the cap (counted; None = skip)"""
        for dom in (self.dom, SMALL_DOM, TINY_DOM):
            if count_interps(symbols, dom) * nq <= self.cap:
                return dom
            self.res.count("sem_domain_shrunk")
        return False

    def verdict(self, f, info=None):
        """{failure kind: message}; empty when every analysis of f is exact"""
        res = self.res
        fails = {}
        nodes = subterms_postorder(f)
        typed = True
        try:
            sf, ff = compile_term(f, self.cmemo)
        except (IllTyped, Unsupported):
            typed = False
            sf = ff = None
        cm = self.cmemo

        def sort(n):
            return cm[n][0]

        # ---- free symbols
        free = ref_free(f)
        rep_free = None
        try:
            got = f.get_free_variables()
            rep_free = set(got)
            if any(not x.is_symbol() for x in rep_free):
                fails["free-extra"] = "get_free_variables returned non-symbols %s" % _names(rep_free)
                rep_free = None
            elif rep_free != free:
                if free - rep_free:
                    fails["free-missing"] = "free symbols %s are not reported (reported %s)" \
                        % (_names(free - rep_free), _names(rep_free))
                if rep_free - free:
                    fails["free-extra"] = "symbols %s are reported free but do not occur free (free: %s)" \
                        % (_names(rep_free - free), _names(free))
        except Exception as e:
            fails["free-exception"] = "get_free_variables raised %r" % (e,)
        # ---- quantifier-freeness
        qf = not any(n.node_type() in QUANT for n in nodes)
        try:
            got = self.env.qfo.is_qf(f)
            if bool(got) != qf or not isinstance(got, bool):
                fails["qf-wrong"] = "is_qf returned %r, the formula %s a quantifier" \
                    % (got, "has no" if qf else "contains")
        except Exception as e:
            fails["qf-exception"] = "is_qf raised %r" % (e,)
        # ---- sizes
        sizes = ref_sizes(f, nodes, sort if typed else (lambda n: None))
        for name, measure in MEASURES:
            try:
                got = f.size(measure)
            except Exception as e:
                fails["size-%s-exception" % name] = "size(%s) raised %r" % (name, e)
                continue
            if got not in sizes[name] or isinstance(got, bool):
                fails["size-" + name] = "size(MEASURE_%s) = %r, the definition gives %s" \
                    % (name, got, " or ".join(str(x) for x in sizes[name]))
            elif len(sizes[name]) > 1:
                res.count("bool_dag_reading_%d" % sizes[name].index(got))
        try:
            got = f.size()
            if got != sizes["TREE_NODES"][0]:
                fails["size-TREE_NODES"] = "size() = %r, the definition of the default measure gives %d" \
                    % (got, sizes["TREE_NODES"][0])
        except Exception as e:
            fails["size-TREE_NODES-exception"] = "size() raised %r" % (e,)
        if info is not None:
            info["features"] = features(f, nodes, sort, free, sizes) if typed else ["untyped"]
            info["sort"] = sf
        if not typed:
            res.count("untypable_by_refsem")
            return fails
        # ---- sorts
        must, may = ref_sorts(nodes, sort)
        try:
            tl = self.env.typeso.get_types(f)
            got = [sort_of(t) for t in tl]
            gs = set(got)
            if must - gs:
                fails["types-missing"] = "sorts %s occur in the formula but get_types returned %s" \
                    % (sorted(termio.sort_str(s) for s in must - gs), sorted(termio.sort_str(s) for s in gs))
            if gs - may:
                fails["types-extra"] = "get_types reports %s which is the sort of no sub-term or binder" \
                    % sorted(termio.sort_str(s) for s in gs - may)
            if len(got) != len(gs):
                res.count("types_list_has_duplicates")
            pos = {}
            for i, s in enumerate(got):
                pos.setdefault(s, i)
            if any(c in pos and pos[c] > pos[s] for s in gs for c in expand_sorts([s]) - {s}):
                res.count("types_list_not_simpler_first")
            cl = self.env.typeso.get_types(f, custom_only=True)
            gc = set(sort_of(t) for t in cl)
            want = set(s for s in gs if isinstance(s, tuple) and s[0] == "Sort")
            if gc != want:
                fails["types-custom-only"] = "get_types(custom_only=True) = %s but the custom sorts of " \
                    "get_types() are %s" % (sorted(map(termio.sort_str, gc)), sorted(map(termio.sort_str, want)))
        except Exception as e:
            fails["types-exception"] = "get_types raised %r" % (e,)
        # ---- atoms
        rep_atoms = None
        if sf == BOOL:
            atoms = ref_atoms(f, sort)
            try:
                got = f.get_atoms()
                rep_atoms = set(got)
                if rep_atoms != atoms:
                    if atoms - rep_atoms:
                        fails["atoms-missing"] = "atoms %s are not reported (reported %s)" \
                            % (_names(atoms - rep_atoms), _names(rep_atoms))
                    if rep_atoms - atoms:
                        fails["atoms-extra"] = "%s reported as atoms; the atoms are %s" \
                            % (_names(rep_atoms - atoms), _names(atoms))
            except Exception as e:
                fails["atoms-exception"] = "get_atoms raised %r on a Boolean formula" % (e,)
        else:
            try:
                f.get_atoms()
                res.count("atoms_of_theory_term:returned")
            except Exception:
                res.count("atoms_of_theory_term:raised")
        if sizes["TREE_NODES"][0] > SEM_TREE_LIMIT or eval_cost(f, nodes) > SEM_TREE_LIMIT:
            res.count("sem_skipped:one evaluation visits more than %d nodes" % SEM_TREE_LIMIT)
            return fails
        # ---- semantic test (i): the value depends only on the symbols reported free
        if rep_free is not None:
            syms = ref_symbols(nodes)
            S = {s.symbol_name(): sort_of(s.symbol_type()) for s in syms | rep_free}
            fixed = {s.symbol_name(): S[s.symbol_name()] for s in rep_free}
            others = {k: v for k, v in S.items() if k not in fixed}
            if not others:
                res.count("sem_free:vacuous(all symbols reported free)")
            else:
                qd = self.qdoms if not qf else None
                dom = self._dom_for(S, len(qd) if qd else 1)
                if dom is False:
                    res.count("sem_capped")
                else:
                    r = self._sem_free(ff, fixed, others, dom, qd)
                    if r:
                        fails["sem-free"] = r
        # ---- semantic test (ii): the truth value is a function of the atoms' valuation
        if sf == BOOL and qf and rep_atoms is not None:
            if rep_atoms == {f}:
                res.count("sem_atoms:trivial(formula is its own atom)")
            else:
                try:
                    r = self._sem_atoms(f, ff, rep_atoms, nodes)
                except (IllTyped, Unsupported) as e:
                    r = None
                    res.count("sem_atoms:unsupported")
                if r:
                    fails["sem-atoms"] = r
        return fails

    def _sem_free(self, ff, fixed, others, dom, qdoms):
        res = self.res
        res.count("sem_free:run")
        try:
            for I0 in interps(fixed, dom, qdoms):
                first = True
                base = baseJ = None
                for J in interps(others, dom):
                    I = dict(I0)
                    I.update(J)
                    res.count("interpretations")
                    try:
                        v = ff(I)
                    except Unconstrained:
                        continue
                    if first:
                        first, base, baseJ = False, v, J
                    elif v != base:
                        I0s = {k: v_ for k, v_ in I0.items()}
                        return ("the value depends on symbols not reported free: with %r fixed, %r gives %r "
                                "but %r gives %r" % (I0s, baseJ, base, J, v))
        except Unsupported:
            res.count("sem_free:unsupported")
        except KeyError as e:
            return "evaluation needs symbol %s which is neither reported free nor bound" % (e,)
        return None

    def _sem_atoms(self, f, ff, atoms, nodes):
        res = self.res
        al = sorted(atoms, key=lambda a: a.node_id())
        afs = []
        syms = ref_symbols(nodes)
        for a in al:
            sa, fa = compile_term(a, self.cmemo)
            if sa != BOOL:
                return "reported atom %s is not Boolean" % _show(a)
            afs.append(fa)
            syms |= ref_symbols(subterms_postorder(a))
        S = {s.symbol_name(): sort_of(s.symbol_type()) for s in syms}
        dom = self._dom_for(S, 1)
        if dom is False:
            res.count("sem_capped")
            return None
        res.count("sem_atoms:run")
        table = {}
        for I in interps(S, dom):
            res.count("interpretations")
            try:
                v = ff(I)
                key = tuple(g(I) for g in afs)
            except Unconstrained:
                continue
            prev = table.get(key)
            if prev is None:
                table[key] = (v, I)
            elif prev[0] != v:
                return ("the truth value is not a function of the reported atoms %s: they evaluate to %r "
                        "both under %r (formula %r) and under %r (formula %r)"
                        % (_names(al), key, prev[1], prev[0], I, v))
        if len(table) > 1:
            res.count("sem_atoms:distinct_valuations", len(table))
        return None

    # -- reporting ----------------------------------------------------------------------
    def cached(self, n):
        r = self.cache.get(n)
        if r is None:
            if len(self.cache) > 100000:
                self.cache.clear()
            r = self.cache[n] = self.verdict(n)
        return r

    def minimise(self, f, kind):
        for n in subterms_postorder(f):
            r = self.cached(n)
            if kind in r:
                return n, r[kind]
        return f, None


def node_class(n):
    t = n.node_type()
    if t == op.SYMBOL:
        return "symbol"
    if t in LEAF_CONST:
        return "constant"
    if t in QUANT:
        return "quantifier"
    if t == op.FUNCTION:
        return "application"
    if t == op.ARRAY_VALUE:
        return "array-value"
    if t in REL:
        return "relation"
    if t in CONN:
        return "connective"
    if t == op.ITE:
        return "ite"
    return "theory-op"


def sig_of(n, kind):
    """free/atoms/qf/types/semantic failures: the root operator of the smallest failing sub-term (the
    oracles dispatch on it); size measures are operator-agnostic, so only the class of the root is kept
    (a wrong measure would otherwise give one signature per operator of the alphabet)"""
    if kind.startswith("size-"):
        return "c12:%s:%s" % (node_class(n), kind)
    return "c12:%s:%s" % (op.op_to_str(n.node_type()), kind)


def make(env, profile, res, part):
    an = Analyser(env, part, res)
    reported = set()

    def check(f, how=None):
        """how: JSON description of how f is built when it is too large to be dumped as a tree"""
        info = {}
        fails = an.verdict(f, info)
        fs = info.get("features") or []
        if fs:
            res.count("nontrivial")
        res.outcome("%s:%s" % ("formula" if info.get("sort") == BOOL else "term", "+".join(fs) or "plain"))
        if fs and len(res.samples) < 2:
            case = {"part": part["name"], "features": fs, "free": _names(ref_free(f))}
            case.update(how if how is not None else {"term": termio.dump(f)})
            res.sample(case, limit=2)
        if not fails and part.get("foreign") and not how:
            # the copy of f in a companion environment that is never pushed: its analyses go through the
            # oracles of the environment on top of the stack (this one), next to this one's own formulas
            env2 = getattr(env, "_c12_other_env", None)
            if env2 is None or len(env2.formula_manager.formulae) > 200000:
                env2 = env._c12_other_env = Environment()
            try:
                f2 = env2.formula_manager.normalize(f)
                fails2 = an.verdict(f2, {})
            except Exception as e:
                fails2 = {"exception": "analysing the copy raised %r" % (e,)}
            res.count("foreign_copies")
            if fails2:
                k0 = sorted(fails2)[0]
                key = ("foreign", k0)
                if key in reported:
                    res.count("violations_same_subterm")
                    return
                reported.add(key)
                res.violation(part["name"], "foreign-environment:%s" % k0,
                              "%s: the copy of %s in an environment that is not on top of the stack: %s"
                              % (part["name"], _show(f), fails2[k0]),
                              {"part": part["name"], "kind": "foreign:" + k0, "term": termio.dump(f)})
            return
        if not fails:
            return
        an.cache[f] = fails
        for kind in sorted(fails):
            sub, msg = an.minimise(f, kind)
            if msg is None:
                sub, msg = f, fails[kind]
            if (sub, kind) in reported:
                res.count("violations_same_subterm")
                continue
            reported.add((sub, kind))
            case = {"part": part["name"], "kind": kind}
            if tree_nodes(sub) <= SEM_TREE_LIMIT:
                case["term"] = termio.dump(sub)
                if how is None and sub is not f:
                    case["found_in"] = termio.dump(f)
            elif how is not None:
                case.update(how)
            else:
                case["term"] = termio.dump(f)
            res.violation(part["name"], sig_of(sub, kind),
                          "%s: %s: %s" % (part["name"], _show(sub), msg), case)
    return check


# ---------------------------------------------------------------------------------------
# own profiles for the mixed shapes

def mix_profile(env, quant=True):
    """Boolean terms inside theory terms, function symbols over Bool / Int / a custom sort S, Boolean
    selects, constant arrays with Int and with custom index sort, quantifiers (incl. over S and
    shadowing a symbol that is free in the other conjunct)"""
    p = Profile("mix", env)
    m = p.m
    AIB, ASI = ("Array", INT, BOOL), ("Array", USORT, INT)
    a, b = p.sym("a", BOOL), p.sym("b", BOOL)
    x, y = p.sym("x", INT), p.sym("y", INT)
    s = p.sym("s", USORT)
    M = p.sym("M", AIB)
    fb = p.sym("fb", ("Fun", BOOL, (BOOL,)))
    fi = p.sym("fi", ("Fun", INT, (BOOL,)))
    pr = p.sym("pr", ("Fun", BOOL, (INT,)))
    g = p.sym("g", ("Fun", INT, (USORT,)))
    h = p.sym("h", ("Fun", USORT, (INT,)))
    p.leaf(BOOL, a, b, m.TRUE())
    p.leaf(INT, x, y, m.Int(0))
    p.leaf(USORT, s)
    p.leaf(AIB, M, m.Array(mk_type(env, INT), m.FALSE()))
    p.leaf(ASI, m.Array(mk_type(env, USORT), m.Int(0)))
    # custom sorts T, U that occur only inside array sorts (no symbol, signature or binder of sort T / U)
    AIT = ("Array", INT, ("Sort", "T", ()))
    AIAU = ("Array", INT, ("Array", ("Sort", "U", ()), INT))
    p.leaf(AIT, p.sym("N1", AIT), p.sym("N2", AIT))
    p.leaf(AIAU, p.sym("K1", AIAU), p.sym("K2", AIAU))
    # a declared sort that merely shares its name with a built-in one, used next to the built-in
    UI = ("Sort", "Int", ())
    p.leaf(UI, p.sym("ui", UI), p.sym("uj", UI))
    p.op("eqI", [UI, UI], BOOL, lambda m, a, b: m.Equals(a, b))
    p.op("eqT", [AIT, AIT], BOOL, lambda m, a, b: m.Equals(a, b))
    p.op("eqU", [AIAU, AIAU], BOOL, lambda m, a, b: m.Equals(a, b))
    p.op("not", [BOOL], BOOL, lambda m, a: m.Not(a))
    p.op("and", [BOOL, BOOL], BOOL, lambda m, a, b: m.And(a, b))
    p.op("iff", [BOOL, BOOL], BOOL, lambda m, a, b: m.Iff(a, b))
    p.op("bite", [BOOL, BOOL, BOOL], BOOL, lambda m, c, a, b: m.Ite(c, a, b))
    p.op("ite", [BOOL, INT, INT], INT, lambda m, c, a, b: m.Ite(c, a, b))
    p.op("fb", [BOOL], BOOL, lambda m, a: m.Function(fb, [a]))
    p.op("fi", [BOOL], INT, lambda m, a: m.Function(fi, [a]))
    p.op("pr", [INT], BOOL, lambda m, a: m.Function(pr, [a]))
    p.op("g", [USORT], INT, lambda m, a: m.Function(g, [a]))
    p.op("h", [INT], USORT, lambda m, a: m.Function(h, [a]))
    p.op("select", [AIB, INT], BOOL, lambda m, a, i: m.Select(a, i))
    p.op("store", [AIB, INT, BOOL], AIB, lambda m, a, i, v: m.Store(a, i, v))
    p.op("selectS", [ASI, USORT], INT, lambda m, a, i: m.Select(a, i))
    p.op("eq", [INT, INT], BOOL, lambda m, a, b: m.Equals(a, b))
    p.op("le", [INT, INT], BOOL, lambda m, a, b: m.LE(a, b))
    p.op("eqS", [USORT, USORT], BOOL, lambda m, a, b: m.Equals(a, b))
    p.op("plus", [INT, INT], INT, lambda m, a, b: m.Plus(a, b))
    if quant:
        for q, Q in (("forall", m.ForAll), ("exists", m.Exists)):
            for nm, vs in (("a", [a]), ("x", [x]), ("ax", [a, x]), ("s", [s]), ("y", [y])):
                p.op("%s_%s" % (q, nm), [BOOL], BOOL, (lambda Q, vs: lambda m, f: Q(vs, f))(Q, vs))
        # a binder next to a free occurrence of the same symbol, one level
        p.op("shadow_x", [BOOL, BOOL], BOOL, lambda m, f, g_: m.And(m.ForAll([x], f), g_))
        p.op("shadow_a", [BOOL, BOOL], BOOL, lambda m, f, g_: m.Or(m.Exists([a], f), g_))
        p.op("renest_x", [BOOL], BOOL, lambda m, f: m.ForAll([x], m.Exists([x, y], f)))
    return p


def boolth_profile(env, wide=False):
    """Boolean structure over arithmetic atoms whose terms contain Boolean conditions:
    depth 3 reaches and(ite(a,x,0) <= x, a), ite(x <= 0, x, 0) <= x, iff(le(..), not(a)) ..."""
    p = Profile("boolth", env)
    m = p.m
    a, b = p.sym("a", BOOL), p.sym("b", BOOL)
    x, y = p.sym("x", INT), p.sym("y", INT)
    p.leaf(BOOL, a, b)
    p.leaf(INT, x, m.Int(0))
    if wide:
        p.leaf(INT, y)
    P.add_bool_ops(p, nary3=False, ite=True)
    p.op("le", [INT, INT], BOOL, lambda m, a, b: m.LE(a, b))
    p.op("eq", [INT, INT], BOOL, lambda m, a, b: m.Equals(a, b))
    p.op("ite", [BOOL, INT, INT], INT, lambda m, c, a, b: m.Ite(c, a, b))
    return p


def shadow_profile(env):
    """few leaves, binders over every symbol: depth 3 reaches and(forall x. x<=y, x<=0),
    forall x. exists x. ..., binders whose variable does not occur, binders over a used u"""
    p = Profile("shadow", env)
    m = p.m
    B1 = ("BV", 1)
    a = p.sym("a", BOOL)
    x, y = p.sym("x", INT), p.sym("y", INT)
    u = p.sym("u", B1)
    p.leaf(BOOL, a)
    p.leaf(INT, x, y, m.Int(0))
    p.leaf(B1, u, m.BV(0, 1))
    p.op("not", [BOOL], BOOL, lambda m, a: m.Not(a))
    p.op("and", [BOOL, BOOL], BOOL, lambda m, a, b: m.And(a, b))
    p.op("or", [BOOL, BOOL], BOOL, lambda m, a, b: m.Or(a, b))
    p.op("le", [INT, INT], BOOL, lambda m, a, b: m.LE(a, b))
    p.op("bveq1", [B1, B1], BOOL, lambda m, a, b: m.Equals(a, b))
    for q, Q in (("forall", m.ForAll), ("exists", m.Exists)):
        for nm, vs in (("a", [a]), ("x", [x]), ("xy", [x, y]), ("u", [u]), ("ax", [a, x])):
            p.op("%s_%s" % (q, nm), [BOOL], BOOL, (lambda Q, vs: lambda m, f: Q(vs, f))(Q, vs))
    return p


def _names_in(*ns):
    return lambda o: o.name in ns


def _binary_or_less(o):
    return len(o.args) <= 2


def _not_named(*ns):
    return lambda o: o.name not in ns


_QOPS = lambda o: "_" in o.name and o.name.split("_")[0] in ("forall", "exists")   # noqa: E731


def parts(ctx):
    q = ctx.quick
    cap = CAP_QUICK if q else CAP_THOROUGH
    ps = []

    def A(**kw):
        kw.setdefault("cap", cap)
        ps.append(kw)
    B2 = ("not", "and", "or", "implies", "iff")
    # ---- Boolean
    A(name="bool-d2", profile=lambda e: P.bool_profile(e, 3, consts=(True,)), depth=2, shards=16,
      mid_ops=_names_in(*B2), top_ops=_names_in(*(B2 + ("bite",))), max_new=2 if q else None)
    if not q:
        A(name="bool-d3", profile=lambda e: P.bool_profile(e, 2, consts=()), depth=3, shards=64,
          mid_ops=_names_in("not", "and", "implies"), top_ops=_names_in(*(B2 + ("bite",))), max_new=1)
    # ---- arithmetic
    A(name="lia-d2", profile=lambda e: P.lia_profile(e, consts=(0, 1), big=True), depth=2, shards=16,
      mid_ops=_binary_or_less, top_ops=_binary_or_less)
    A(name="lia-ite-d2", profile=lambda e: P.lia_profile(e, consts=(0, 1), big=False, pow_=False),
      depth=2, shards=32, mid_ops=_binary_or_less, top_ops=_names_in("ite"))
    A(name="lra-d2", profile=lambda e: P.lra_profile(e, consts=(Fraction(0), Fraction(1, 2))), depth=2,
      shards=16, mid_ops=_binary_or_less, top_ops=_binary_or_less)
    A(name="lira-d2", profile=P.lira_profile, depth=2, shards=16, mid_ops=_binary_or_less,
      top_ops=_binary_or_less, max_new=1 if q else None)
    # ---- bit-vectors
    A(name="bv1-2-d2", profile=lambda e: P.bv_profile(e, (1, 2), consts=(0, 3), nsyms=1), depth=2,
      shards=16 if q else 64, mid_ops=_binary_or_less, top_ops=_binary_or_less, max_new=1 if q else None)
    A(name="bv3-d1", profile=lambda e: P.bv_profile(e, (3,)), depth=1, shards=4)
    # ---- strings
    A(name="str-d2", profile=lambda e: P.str_profile(e, strs=("", "ab"), ints=(0, 1)), depth=2, shards=16,
      max_new=1)
    # ---- arrays (Boolean selects, constant arrays, stores)
    for nm, i, e_ in (("int-int", INT, INT), ("bv1-bool", ("BV", 1), BOOL), ("int-bool", INT, BOOL),
                      ("real-bv2", REAL, ("BV", 2))):
        A(name="arr-%s-d2" % nm, profile=(lambda i, e_: lambda e: P.arr_profile(e, i, e_))(i, e_),
          depth=2, shards=8, mid_ops=_not_named("arrite"), top_ops=_not_named("store"), max_new=1)
        A(name="arr-%s-d2-tern" % nm, profile=(lambda i, e_: lambda e: P.arr_profile(e, i, e_))(i, e_),
          depth=2, shards=4, mid_ops=_names_in("select", "store"), top_ops=_names_in("store", "arrite"),
          max_new=1)
    # ---- uninterpreted functions
    A(name="nary5mix-d1", profile=lambda e: P.nary5mix_profile(e, natoms=5 if q else None), depth=1, shards=32, dom={INT: (0, 1)})
    A(name="uf-d2", profile=P.uf_profile, depth=2, shards=16, dom={INT: (0, 1, 2)})
    if not q:
        A(name="uf-d3", profile=P.uf_profile, depth=3, shards=96, dom={INT: (0, 1)},
          mid_ops=_not_named("plus"), top_ops=_binary_or_less, max_new=1)
    # ---- quantifiers
    A(name="quant-d2", profile=P.quant_profile, depth=2, shards=32, dom={INT: (-1, 0, 2)})
    A(name="shadow-d3", profile=shadow_profile, depth=3, shards=32 if q else 64, dom={INT: (0, 1)},
      mid_ops=_names_in("and", "le", "bveq1", "forall_x", "exists_xy", "forall_a", "exists_u", "exists_ax")
      if q else _not_named("or"), max_new=1)
    if not q:
        A(name="quant-d3", profile=P.quant_profile, depth=3, shards=96, dom={INT: (0, 1)},
          mid_ops=_names_in("and", "not", "le", "bveq1", "bvult2", "forall_a", "exists_u", "forall_x",
                            "exists_ab", "forall_w", "exists_au", "forall_ux"),
          top_ops=(lambda o: _QOPS(o) or o.name in ("not", "and", "implies")), max_new=1)
    # ---- mixed shapes (own profiles)
    A(name="mix-d2", profile=mix_profile, depth=2, shards=32, dom={INT: (0, 1)}, foreign=True,
      top_ops=_not_named("bite", "ite", "store"))
    A(name="mix-d2-tern", profile=mix_profile, depth=2, shards=64, dom={INT: (0, 1)},
      top_ops=_names_in("bite", "ite", "store"), max_new=2)
    A(name="mix-d3", profile=mix_profile, depth=3, shards=32 if q else 96, dom={INT: (0, 1)},
      mid_ops=_names_in("fb", "fi", "pr", "g", "select", "eq", "forall_x", "exists_a")
      if q else _names_in("and", "fb", "fi", "pr", "g", "h", "select", "selectS", "eq", "le", "eqS",
                          "forall_x", "exists_a", "forall_s", "exists_y"),
      top_ops=_not_named("bite", "ite", "store"), max_new=1)
    A(name="boolth-d3", profile=(lambda e: boolth_profile(e, wide=not q)), depth=3, shards=32 if q else 96,
      mid_ops=_names_in("ite", "le", "and", "not") if q else _names_in("ite", "le", "eq", "and", "not", "iff"),
      top_ops=_names_in("not", "and", "iff", "le") if q else _not_named("eq", "ite", "bite"), max_new=1)
    return ps


# ---------------------------------------------------------------------------------------
# shared sub-DAG chains (not a grammar sweep: one family x one depth per case)

def _chain_families(env):
    m = env.formula_manager
    tm = env.type_manager
    a, b = m.Symbol("a", tm.BOOL()), m.Symbol("b", tm.BOOL())
    x, y = m.Symbol("x", tm.INT()), m.Symbol("y", tm.INT())
    f = m.Symbol("f", tm.FunctionType(tm.INT(), [tm.INT(), tm.INT()]))
    p = m.Symbol("p", tm.FunctionType(tm.BOOL(), [tm.BOOL(), tm.BOOL()]))
    return [
        ("and", a, lambda t, i: m.And(t, t)),
        ("and-or", a, lambda t, i: m.And(m.Or(t, b), m.Or(b, t))),
        ("iff-not", a, lambda t, i: m.Iff(t, m.Not(t))),
        ("bite", a, lambda t, i: m.Ite(b, t, t)),
        ("quant", a, lambda t, i: m.And(m.ForAll([a], t), m.Exists([b], t))),
        ("pred", a, lambda t, i: m.Function(p, [t, t])),
        ("plus", x, lambda t, i: m.Plus(t, t)),
        ("ite", x, lambda t, i: m.Ite(m.LE(t, y), t, y)),
        ("uf", x, lambda t, i: m.Function(f, [t, t])),
        ("le-and", m.LE(x, y), lambda t, i: m.And(t, m.LE(m.Plus(x, m.Int(i)), y), t)),
    ]


def run_chain_shard(args):
    fam_idx, depths, cap = args
    res = Result()
    env = Environment()
    push_env(env)
    try:
        name, t, step = _chain_families(env)[fam_idx]
        part = {"name": "dag-chain-" + name, "cap": cap, "dom": TINY_DOM}
        check = make(env, None, res, part)
        for i in range(1, max(depths) + 1):
            t = step(t, i)
            if i in depths:
                res.count("evaluations")
                check(t, {"chain": fam_idx, "chain_name": name, "depth": i})
    finally:
        pop_env()
    return res


def run(ctx):
    ctx.level = "exploration"
    ctx.rule = ("all (operator, argument tuple) applications of each profile up to the part's depth (hash-"
                "consing de-duplicates structurally equal terms within a shard), plus chains of shared "
                "sub-DAGs of every listed depth; each term is analysed by the five oracles and compared with "
                "independent structural definitions; a case is non-trivial when it has a binder, a binder "
                "shadowing a free symbol, a function application, a Boolean term below a theory operator or "
                "a shared sub-DAG; semantic test (i) enumerates every pair of interpretations of the "
                "syntactic symbol set that agree on the reported free symbols, (ii) every interpretation "
                "of a quantifier-free Boolean formula grouped by the valuation of the reported atoms")
    ctx.assumptions = ["reference semantics mc/core/refsem.py (SMT-LIB 2.6 theory definitions)",
                       "structure of a formula = node + args() (the name of an applied function and the "
                       "binders of a quantifier are payload, not nodes)",
                       "sorts: reported set must lie between the closure of the leaf/binder/signature/"
                       "constant-array-index sorts and the closure of all sub-term sorts",
                       "BOOL_DAG: 'theory atom' read as theory relation, or as any non-connective Boolean term",
                       "semantic tests are run when one reference evaluation visits at most %d nodes (tree "
                       "unfolding, a binder repeating its body per domain tuple); larger shared DAGs (chains "
                       "deeper than about 11) get the structural comparisons only (counted)" % SEM_TREE_LIMIT,
                       "Int/Real/custom-sort quantifiers range over the explicit finite domains "
                       "{0},{0,1},{-1,0,2}; value pools as in C01 (shrunk per case to stay under the cap of "
                       "%d interpretations; shrinks are counted)" % (CAP_QUICK if ctx.quick else CAP_THOROUGH)]
    ps = parts(ctx)
    ctx.coverage["parts"] = [{"name": p["name"], "depth": p["depth"]} for p in ps] + \
                            [{"name": "dag-chains", "depth": 12 if ctx.quick else 40}]
    sweep(ctx, ps, make)
    if not getattr(ctx, "parts", None) or "dag-chains" in ctx.parts:
        env = Environment()
        nfam = len(_chain_families(env))
        depths = tuple(range(1, 13)) if ctx.quick else tuple(range(1, 41))
        ctx.pmap(run_chain_shard, [(i, depths, CAP_QUICK if ctx.quick else CAP_THOROUGH)
                                   for i in range(nfam)])
    if ctx.res.counters.get("sem_capped"):
        ctx.exhaustive = False
        ctx.cap_note = ("%d semantic tests skipped: more interpretations than the cap even over the "
                        "smallest pools (structural comparisons still done)" % ctx.res.counters["sem_capped"])


def replay(rec):
    env = Environment()
    push_env(env)
    try:
        case = rec["case"]
        if "term" in case:
            f = termio.build(env, case["term"])
            shown = termio.short(case["term"])
        else:
            _, f, step = _chain_families(env)[case["chain"]]
            for i in range(1, case["depth"] + 1):
                f = step(f, i)
            shown = "chain %s of depth %d" % (case["chain_name"], case["depth"])
        kind = case.get("kind")
        if str(kind).startswith("foreign:"):
            an = Analyser(env, {"name": "replay", "cap": CAP_THOROUGH, "dom": {INT: (0, 1)}})
            an.verdict(f)
            env2 = Environment()
            fails = an.verdict(env2.formula_manager.normalize(f))
            if fails:
                k = sorted(fails)[0]
                return False, "copy of %s in an environment that is not on top of the stack: %s: %s" % (shown, k, fails[k])
            return True, "all analyses of the copy of %s in another environment are exact" % shown
        fails = {}
        # the structural comparisons do not depend on the pools; the semantic tests are repeated over
        # every pool used by a part
        for dom in ({INT: (0, 1)}, SMALL_DOM, {INT: (0, 1, 2)}, None):
            fails = Analyser(env, {"name": "replay", "cap": CAP_THOROUGH, "dom": dom}).verdict(f)
            if kind in fails:
                return False, "%s: %s: %s" % (shown, kind, fails[kind])
            if fails:
                break
        if fails:
            k = sorted(fails)[0]
            return False, "%s: %s: %s" % (shown, k, fails[k])
        return True, "all analyses of %s are exact" % shown
    finally:
        pop_env()
