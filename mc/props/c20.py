"""C20 - work is linear in DAG size and independent of nesting depth.

Bounded-exhaustive grid (operation x nestable operator x family x size) run on the real
pySMT code under a monitor that is wrapped around it from outside (mc/core/workmon.py):

  family chain    f_{k+1} = op(f_k, leaf_k)        depth n, DAG size ~ n, tree size ~ n
  family diamond  f_{k+1} = op(f_k, f_k)           height n, DAG size ~ n, tree size 2^n

For every case (operator, family, n) a fresh Environment is created, the term is built
through the FormulaManager (construction = type check of every new node), closed into a
Boolean formula F, and every operation of the statement is run once on F.  The oracle
only counts: invocations of walker callbacks per distinct node, walker-machine steps,
create_node calls, parser atoms - never wall-clock time.

  (max)     no callback is invoked twice for the same (walker, node);
  (lin)     callbacks <= C[op] * N + K, machine steps <= S * callbacks-bound, created nodes and
            parser atoms <= R[op] * N + K, where N is the number of distinct nodes of F counted by
            the check's own traversal and the constants are fixed per operation below;
  (double)  for n -> 2n every counter at most doubles (+K);
  (budget)  every operation finishes within a fixed budget of monitored events and of
            Python-level calls (sys.setprofile; small sizes and diamonds of height 60);
  (deep)    every operation succeeds on a chain of depth DEEP under the default recursion
            limit (1000): no RecursionError.
"""
import io
import sys
import traceback

from pysmt.environment import Environment, push_env, pop_env
from ..core import workmon
from ..core.workmon import MON, BudgetExceeded

W = 8            # bit-vector width of the BV families
NLEAF = 3        # leaves of each sort are cycled: flattening simplifications stay bounded
K = 64           # additive slack of every linear bound (leaves, constants, wrappers)

# ---- bounds as data -------------------------------------------------------------------------
COUNT_SIZES = (50, 100, 200)
DIAMOND_HEIGHT = 60
DEEP_THOROUGH = 20000
DEEP_QUICK = 5000
# quick: these operator families run the recursion test at the full depth 20000
DEEP_FULL_QUICK = ("and", "not", "iff-l", "plus", "bvadd", "ite-bv-p1", "ite-int-p2", "store")
# the two set-valued size measures keep one frozenset of all sub-nodes per node (quadratic
# memory): their recursion test is run on a chain of this depth only (see report)
DEEP_SETSIZE = 1000
# operators whose diamond family is also run at the recursion-test depth (memory-copy chains
# mem' = store(mem, dst, select(mem, src)), shared conjunctions, shared BV sums)
DEEP_DIAMONDS = ("store-bv", "store", "and", "bvadd", "ite-bv-p1")

# per operation: C = callbacks per distinct node of F (all walkers together), R = create_node
# calls per distinct node.  Derivation (from the algorithms, see DESIGN C20):
#   plain DAG walker: every node once (1); operations that build a result also type-check each
#   new node once (+1 per created node, at most R per input node)
OPS = [
    # name,            C,  R
    ("freevars",       1,  0),
    ("atoms",          1,  0),
    ("is_qf",          1,  0),
    ("types",          1,  0),
    ("size-tree",      1,  0),
    ("size-dag",       1,  0),
    ("size-leaves",    1,  0),
    ("size-depth",     1,  0),
    ("size-symbols",   1,  0),
    ("size-booldag",   1,  0),
    ("get_logic",      3,  0),   # qfo + theoryo + fvo (walk_times/walk_div ask for free variables)
    ("simplify",       3, 10),   # simplifier 1 + type check of the rebuilt node and of pre-negated
                                 # arguments; walk_and/or pre-negate every argument of a flattened
                                 # child (<= NLEAF+1 after de-duplication): 2*(NLEAF+2) create calls
    ("substitute",     2,  1),   # substituter 1 + type check of the rebuilt node
    ("substitute-mss", 2,  1),
    ("substitute-mid", 2,  1),
    ("nnf",           12, 20),   # both polarities: 2 callbacks; Iff/Ite: 2 negated children + 3 result
                                 # nodes per polarity = 8 new nodes, each type-checked once;
                                 # _get_children runs at push and at compute time: <= 2*2*4 Not() + 6
    ("prenex",        24, 16),   # Iff/Ite are expanded through walk_implies/walk_not/walk_conj_disj into
                                 # <= 12 fresh connectives, each type-checked once and asked once for its
                                 # free variables (fvo callback)
    ("aig",           10, 10),   # Ite -> 8 fresh and/not nodes, each type-checked once
    ("dagprint",       6,  0),   # get_logic (3) + typeso + fvo + printer
    ("reparse",        3,  3),   # second environment: every node created and type-checked once
    ("reparse-interactive", 3, 3),   # the parser flavour SmtLibSolver keeps alive (reads the stream lazily)
    ("reparse-reprint", 9, 3),       # parse the text, then serialise the parsed script again in DAG form
]
OPS_C = {o[0]: o[1] for o in OPS}
OPS_R = {o[0]: o[2] for o in OPS}
STEP_FACTOR = 10      # machine steps per callback bound: <= 2 * (edges per node <= 4) + 2
CALLS_PER_NODE = 4000  # python-level call budget per distinct node of F (fixed step budget;
                       # the largest legitimate value in the grid is 865, prenex of an Iff chain)
CALLS_PER_NODE_DEEP = 1500   # the same budget on the deep chains (stops quadratic work early)
TEXT_PER_NODE = 150    # characters of daggified SMT-LIB text per distinct node
MEM_LIMIT = 3 << 30    # address-space limit of a worker: runaway string building -> MemoryError
EVENTS_PER_NODE = 200  # monitored-event budget per distinct node of F

CLEAN = ("NoLogicAvailableError", "UnsupportedOperatorError", "NotImplementedError",
         "ConvertExpressionError", "PysmtTypeError", "PysmtValueError")


# ---- leaves -----------------------------------------------------------------------------------
class Leaves(object):
    def __init__(self, env):
        from pysmt.typing import BOOL, INT, REAL, STRING, BVType, ArrayType
        m = env.formula_manager
        self.m = m
        self.types = {"bool": BOOL, "int": INT, "real": REAL, "bv": BVType(W), "str": STRING,
                      "arr": ArrayType(INT, INT), "arrbv": ArrayType(BVType(W), BVType(W)),
                      "bvgrow": BVType(W)}
        self.syms = {s: [m.Symbol("%s%d" % (s, i), t) for i in range(NLEAF)]
                     for s, t in self.types.items()}

    def leaf(self, sort, k):
        return self.syms[sort][k % NLEAF]

    def cond(self, sort, f, k):
        """a Boolean condition that contains f"""
        if sort == "bool":
            return f
        return self.m.Equals(f, self.leaf(sort, k + 1))

    def close(self, sort, f):
        """Boolean closure of the family term (the formula every analysis runs on)"""
        m = self.m
        if sort == "bool":
            return f
        if sort in ("int", "real"):
            return m.LE(f, self.leaf(sort, 1))
        if sort == "arr":
            return m.Equals(m.Select(f, self.leaf("int", 0)), self.leaf("int", 1))
        if sort == "arrbv":
            # a bit-vector operator directly on a read of the nested array (its width is asked for)
            return m.Equals(m.BVNot(m.Select(f, self.leaf("bv", 0))), self.leaf("bv", 1))
        return m.Equals(f, self.leaf(sort, 1))


# ---- operators --------------------------------------------------------------------------------
# each entry: name -> (sort, chain_step or None, diamond_step or None); step(L, f, k) -> f_{k+1}
def _operators():
    O = {}

    def binop(name, sort, ctor, positions=(0,), diamond=True, dname=None):
        for p in positions:
            nm = name if len(positions) == 1 else "%s-%s" % (name, "lr"[p])

            def chain(L, f, k, p=p):
                c = getattr(L.m, ctor)
                return c(f, L.leaf(sort, k)) if p == 0 else c(L.leaf(sort, k), f)
            O[nm] = [sort, chain, None]
        if diamond:
            def dia(L, f, k):
                return getattr(L.m, ctor)(f, f)
            O[dname or name if len(positions) == 1 else name + "-l"][2] = dia

    binop("and", "bool", "And")
    binop("or", "bool", "Or")
    O["not"] = ["bool", lambda L, f, k: L.m.Not(L.m.Or(f, L.leaf("bool", k))),
                lambda L, f, k: L.m.Not(L.m.And(f, f))]
    binop("implies", "bool", "Implies", (0, 1))
    binop("iff", "bool", "Iff", (0, 1))
    for s in ("int", "real"):
        sfx = "" if s == "int" else "-real"
        binop("plus" + sfx, s, "Plus")
        binop("minus" + sfx, s, "Minus", (0, 1))
        binop("times" + sfx, s, "Times")
        binop("div" + sfx, s, "Div", (0, 1))
    binop("bvadd", "bv", "BVAdd")
    binop("bvand", "bv", "BVAnd")
    binop("bvxor", "bv", "BVXor")
    O["bvconcat-extract"] = ["bv",
                             lambda L, f, k: L.m.BVExtract(L.m.BVConcat(f, L.leaf("bv", k)), 0, W - 1),
                             lambda L, f, k: L.m.BVExtract(L.m.BVConcat(f, f), 0, W - 1)]
    O["bvextract-concat"] = ["bv",
                             lambda L, f, k: L.m.BVExtract(L.m.BVConcat(L.leaf("bv", k), f), W, 2 * W - 1),
                             None]
    for s in ("bool", "int", "real", "bv", "str", "arr"):       # (arrbv: store-bv only)
        O["ite-%s-p0" % s] = [s, (lambda s: lambda L, f, k: L.m.Ite(L.cond(s, f, k), L.leaf(s, k), L.leaf(s, k + 1)))(s),
                              (lambda s: lambda L, f, k: L.m.Ite(L.cond(s, f, k), f, L.leaf(s, k)))(s)]     # 0+1
        O["ite-%s-p1" % s] = [s, (lambda s: lambda L, f, k: L.m.Ite(L.leaf("bool", k), f, L.leaf(s, k)))(s),
                              (lambda s: lambda L, f, k: L.m.Ite(L.leaf("bool", k), f, f))(s)]              # 1+2
        O["ite-%s-p2" % s] = [s, (lambda s: lambda L, f, k: L.m.Ite(L.leaf("bool", k), L.leaf(s, k), f))(s),
                              (lambda s: lambda L, f, k: L.m.Ite(L.cond(s, f, k), L.leaf(s, k), f))(s)]     # 0+2
    for s in ("bv", "int", "arr"):
        # decision-table shapes: the branch that does not carry the chain is itself an ITE
        O["ite-%s-p2-thenite" % s] = [s, (lambda s: lambda L, f, k: L.m.Ite(
            L.leaf("bool", k), L.m.Ite(L.leaf("bool", k + 1), L.leaf(s, k), L.leaf(s, k + 1)), f))(s), None]
        O["ite-%s-p1-elseite" % s] = [s, (lambda s: lambda L, f, k: L.m.Ite(
            L.leaf("bool", k), f, L.m.Ite(L.leaf("bool", k + 1), L.leaf(s, k), L.leaf(s, k + 1))))(s), None]
    O["store"] = ["arr", lambda L, f, k: L.m.Store(f, L.leaf("int", k), L.leaf("int", k + 1)),
                  lambda L, f, k: L.m.Store(f, L.leaf("int", k), L.m.Select(f, L.leaf("int", k + 1)))]
    # memory-copy chains over an array of bit-vectors: mem' = store(mem, dst, select(mem, src))
    O["store-bv"] = ["arrbv", lambda L, f, k: L.m.Store(f, L.leaf("bv", k), L.leaf("bv", k + 1)),
                     lambda L, f, k: L.m.Store(f, L.leaf("bv", k), L.m.Select(f, L.leaf("bv", k + 1)))]
    O["select-store-v"] = ["arr", lambda L, f, k: L.m.Store(L.leaf("arr", k), L.leaf("int", k),
                                                             L.m.Select(f, L.leaf("int", k + 1))),
                           None]
    O["select-store-i"] = ["arr", lambda L, f, k: L.m.Store(L.leaf("arr", k), L.m.Select(f, L.leaf("int", k)),
                                                             L.leaf("int", k + 1)),
                           lambda L, f, k: L.m.Store(f, L.m.Select(f, L.leaf("int", k)), L.leaf("int", k + 1))]
    # stores at pairwise distinct *constant* indexes, read at yet another constant index (CLOSE below):
    # read-over-write reasoning must not cost one step (or one stack frame) per store
    O["store-const"] = ["arr", lambda L, f, k: L.m.Store(f, L.m.Int(k), L.leaf("int", k)), None]
    O["store-const-samevalue"] = ["arr", lambda L, f, k: L.m.Store(f, L.m.Int(k), L.m.Int(7)), None]
    # a word assembled piece by piece (the width grows with the depth), closed by reading its most significant field:
    # a slice must not be pushed through the concatenations one stack frame (or one rewrite) per level
    O["bvconcat-grow"] = ["bvgrow", lambda L, f, k: L.m.BVConcat(f, L.leaf("bv", k)), None]
    # stores at constant indexes over a constant array (a lookup table / memory image): printed as a store chain over
    # ((as const ...) d) and read back; the reader must not re-copy the cells read so far at every store
    O["store-const-table"] = ["arr", lambda L, f, k: L.m.Store(f, L.m.Int(k), L.leaf("int", k)), None]
    # many constant-index reads of one big array literal (a lookup table with as many cells as the chain is deep)
    # (Iff above the reads: And / Or would be flattened level by level, which is a cost of its own)
    O["select-table"] = ["bool", lambda L, f, k: L.m.Iff(f, L.m.Equals(L.m.Select(L.table, L.m.Int(k)), L.leaf("int", k))), None]
    return O


OPERATORS = _operators()
# own initial term of a family (default: the first leaf of the sort)
def _init_table(L):
    m = L.m
    L.table = m.Array(L.types["int"], m.Int(0), dict((m.Int(i), m.Int(i + 1)) for i in range(L.n)))
    return L.leaf("bool", 0)


INIT = {
    "select-table": _init_table,
    "store-const-table": lambda L: L.m.Array(L.types["int"], L.m.Int(0)),
}
# own Boolean closure of a family (default: Leaves.close)
CLOSE = {
    "bvconcat-grow": lambda L, f, n: L.m.Equals(L.m.BVExtract(f, f.bv_width() - W, f.bv_width() - 1), L.leaf("bv", 1)),
    "store-const-table": lambda L, f, n: L.m.Equals(L.m.Select(f, L.m.Int(n + 7)), L.leaf("int", 1)),
    "store-const": lambda L, f, n: L.m.Equals(L.m.Select(f, L.m.Int(n + 7)), L.leaf("int", 1)),
    "store-const-samevalue": lambda L, f, n: L.m.Equals(L.m.Select(f, L.m.Int(n + 7)), L.m.Int(7)),
}
# operations not run on a family: a set-valued answer that grows with the family (one distinct atom per level) is
# copied at every level - a cost of the answer's size, not of repeated visits (the other families cycle three leaves
# so that such sets stay bounded)
OPS_SKIP = {"select-table": ("atoms",)}
QUICK_SKIP = ("plus-real", "minus-real-l", "minus-real-r", "times-real", "div-real-l", "div-real-r")   # thorough only


# constructor applications put on top of a family term of each sort ("type check at construction")
def tops(L, sort, f):
    m = L.m
    a = L.leaf(sort, 0)
    c = L.leaf("bool", 0)
    out = [("ite-then", lambda: m.Ite(c, f, a)), ("ite-else", lambda: m.Ite(c, a, f)),
           ("equals" if sort != "bool" else "iff", lambda: (m.Equals if sort != "bool" else m.Iff)(f, a))]
    if sort == "bool":
        out += [("not", lambda: m.Not(f)), ("and", lambda: m.And(f, a)), ("or", lambda: m.Or(a, f)),
                ("implies", lambda: m.Implies(f, a)), ("ite-cond", lambda: m.Ite(f, a, a))]
    elif sort in ("int", "real"):
        two = m.Int(2) if sort == "int" else m.Real(2)
        out += [("plus", lambda: m.Plus(f, a)), ("minus", lambda: m.Minus(a, f)), ("times", lambda: m.Times(f, two)),
                ("le", lambda: m.LE(f, a)), ("lt", lambda: m.LT(a, f)), ("div", lambda: m.Div(f, two))]
        if sort == "int":
            out += [("toreal", lambda: m.ToReal(f))]
    elif sort == "bv":
        for nm in ("BVAnd", "BVOr", "BVXor", "BVAdd", "BVSub", "BVMul", "BVUDiv", "BVURem", "BVLShl", "BVLShr",
                   "BVAShr", "BVSDiv", "BVSRem", "BVComp", "BVConcat", "BVULT", "BVULE", "BVSLT", "BVSLE"):
            out += [(nm.lower() + "-l", (lambda nm: lambda: getattr(m, nm)(f, a))(nm)),
                    (nm.lower() + "-r", (lambda nm: lambda: getattr(m, nm)(a, f))(nm))]
        out += [("bvnot", lambda: m.BVNot(f)), ("bvneg", lambda: m.BVNeg(f)),
                ("bvextract", lambda: m.BVExtract(f, 0, 0)), ("bvzext", lambda: m.BVZExt(f, 1)),
                ("bvsext", lambda: m.BVSExt(f, 1)), ("bvrol", lambda: m.BVRol(f, 1)), ("bvror", lambda: m.BVRor(f, 1)),
                ("bvtonatural", lambda: m.BVToNatural(f)), ("bvrepeat", lambda: m.BVRepeat(f, 2))]
    elif sort == "bvgrow":
        out = [("bvnot", lambda: m.BVNot(f)), ("bvneg", lambda: m.BVNeg(f)), ("bvextract-top", lambda: m.BVExtract(f, f.bv_width() - 1, f.bv_width() - 1)),
               ("bvzext", lambda: m.BVZExt(f, 1)), ("bvconcat", lambda: m.BVConcat(f, L.leaf("bv", 0))),
               ("bvtonatural", lambda: m.BVToNatural(f))]
    elif sort == "str":
        out += [("strlength", lambda: m.StrLength(f)), ("strconcat", lambda: m.StrConcat(f, a))]
    elif sort == "arr":
        i = L.leaf("int", 0)
        out += [("select", lambda: m.Select(f, i)), ("store", lambda: m.Store(f, i, i))]
    elif sort == "arrbv":
        i = L.leaf("bv", 0)
        out += [("select", lambda: m.Select(f, i)), ("store", lambda: m.Store(f, i, i)),
                ("bvnot-select", lambda: m.BVNot(m.Select(f, i))), ("bvadd-select", lambda: m.BVAdd(m.Select(f, i), i)),
                ("bvextract-select", lambda: m.BVExtract(m.Select(f, i), 0, 0)),
                ("bvult-select", lambda: m.BVULT(i, m.Select(f, i)))]
    return out


# ---- the check's own measures -----------------------------------------------------------------
def _as_bool(b, t):
    """t if it is Boolean, else an equality over it (so that it can be put below a connective)"""
    m = b.env.formula_manager
    return t if t.get_type().is_bool_type() else m.Equals(t, t)


def dag_nodes(f):
    """number of distinct nodes reachable from f (iterative, independent of pySMT walkers)"""
    seen = set()
    todo = [f]
    while todo:
        x = todo.pop()
        if x in seen:
            continue
        seen.add(x)
        todo.extend(x.args())
    return len(seen)


def tree_size_exceeds(f, bound):
    """own memoised tree size (integers only)"""
    memo = {}
    todo = [(f, False)]
    while todo:
        x, done = todo.pop()
        if x in memo:
            continue
        if done:
            memo[x] = 1 + sum(memo[a] for a in x.args())
        else:
            todo.append((x, True))
            todo.extend((a, False) for a in x.args() if a not in memo)
    return memo[f] > bound


def opclass(opname):
    """operator class of a signature: the sort variant of an arithmetic operator is dropped"""
    return opname.replace("-real", "")


# ---- one case ---------------------------------------------------------------------------------
class Built(object):
    pass


def build(opname, family, n, calls_limit=None):
    """fresh environment (pushed), family term, its closure; counts the construction work"""
    env = Environment()
    push_env(env)
    L = Leaves(env)
    L.n = n
    sort, chain, dia = OPERATORS[opname]
    step = chain if family == "chain" else dia
    b = Built()
    b.env, b.L, b.sort = env, L, sort
    MON.reset()
    if calls_limit:
        MON.start_calls(calls_limit)
    try:
        f = INIT[opname](L) if opname in INIT else L.leaf(sort, 0)
        mid = None
        for k in range(n):
            f = step(L, f, k)
            if k == n // 2:
                mid = f
        b.f, b.mid = f, mid
        b.F = CLOSE[opname](L, f, n) if opname in CLOSE else L.close(sort, f)
    finally:
        if calls_limit:
            MON.stop_calls()
    b.build_counts = MON.snapshot()
    b.N = dag_nodes(b.F)
    return b


def run_op(name, b):
    """runs one operation of the statement on b.F inside b.env; returns a result to keep alive"""
    env, F, L = b.env, b.F, b.L
    if name == "freevars":
        return env.fvo.get_free_variables(F)
    if name == "atoms":
        return env.ao.get_atoms(F)
    if name == "is_qf":
        return env.qfo.is_qf(F)
    if name == "types":
        return env.typeso.get_types(F)
    if name.startswith("size-"):
        from pysmt.oracles import SizeOracle as S
        meas = {"tree": S.MEASURE_TREE_NODES, "dag": S.MEASURE_DAG_NODES, "leaves": S.MEASURE_LEAVES,
                "depth": S.MEASURE_DEPTH, "symbols": S.MEASURE_SYMBOLS, "booldag": S.MEASURE_BOOL_DAG}[name[5:]]
        return env.sizeo.get_size(F, measure=meas)
    if name == "get_logic":
        from pysmt.oracles import get_logic
        return get_logic(F, env)
    if name == "simplify":
        return env.simplifier.simplify(F)
    if name in ("substitute", "substitute-mss"):
        sub = {L.leaf(b.sort, 0): L.leaf(b.sort, 1)}
        if name == "substitute":
            return env.substituter.substitute(F, sub)
        from pysmt.substituter import MSSubstituter
        return MSSubstituter(env).substitute(F, sub)
    if name == "substitute-mid":
        return env.substituter.substitute(F, {b.mid: L.leaf(b.sort, 2)})
    if name == "nnf":
        from pysmt.rewritings import nnf
        return nnf(F, env)
    if name == "prenex":
        from pysmt.rewritings import prenex_normal_form
        return prenex_normal_form(F, env)
    if name == "aig":
        from pysmt.rewritings import aig
        return aig(F, env)
    if name == "dagprint":
        from pysmt.smtlib.script import smtlibscript_from_formula
        buf = io.StringIO()
        smtlibscript_from_formula(F).serialize(buf, daggify=True)
        b.text = buf.getvalue()
        return len(b.text)
    if name == "reparse-reprint":
        from pysmt.smtlib.parser import SmtLibParser
        env2 = Environment()
        script = SmtLibParser(env2).get_script(io.StringIO(b.text))
        out = io.StringIO()
        script.serialize(out, daggify=True)
        b.reprinted = len(out.getvalue())
        b.parsed_nodes = dag_nodes(script.get_last_formula(env2.formula_manager))
        return script
    if name in ("reparse", "reparse-interactive"):
        from pysmt.smtlib.parser import SmtLibParser
        env2 = Environment()
        script = SmtLibParser(env2, interactive=(name == "reparse-interactive")).get_script(io.StringIO(b.text))
        g = script.get_last_formula(env2.formula_manager)
        b.parsed_nodes = dag_nodes(g)
        return g
    raise KeyError(name)


def measure(fn, N, profile, per_node=None):
    """run fn under the monitor; returns (counts, exception-or-None, traceback-tail)"""
    MON.reset()
    MON.limit_events = EVENTS_PER_NODE * N + 10000
    MON.limit_str = TEXT_PER_NODE * N + 1000
    exc = tb = None
    try:
        if profile:
            MON.start_calls((per_node or CALLS_PER_NODE) * N + 100000)
        try:
            keep = fn()       # noqa: F841  (results stay alive until the counters are read)
        finally:
            if profile:
                MON.stop_calls()
    except BudgetExceeded as e:
        exc = e
    except RecursionError as e:
        exc = e
        tb = _tail(e)
    except MemoryError as e:
        exc = e
    except Exception as e:            # noqa: BLE001 - every failure of the operation is an outcome
        exc = e
        tb = _tail(e)
    MON.limit_events = MON.limit_str = None
    return MON.snapshot(), exc, tb


def _tail(e, k=3):
    fr = traceback.extract_tb(e.__traceback__)
    keep = [x for x in fr if "/pysmt/" in x.filename][-k:]
    return " <- ".join("%s:%d %s" % (x.filename.split("/pysmt/")[-1], x.lineno, x.name) for x in reversed(keep))


def case_ops(opname, family, n, ops, res, part, profile, deep):
    """build + construction tops + every operation; returns {op: counts} for (double)"""
    out = {}
    case0 = {"operator": opname, "family": family, "n": n, "deep": bool(deep)}

    def bad(kind, op, msg, extra=None):
        c = dict(case0, op=op)
        if extra:
            c.update(extra)
        res.violation(part, "%s:%s:%s" % (kind, op, opclass(opname)),
                      "%s of %s %s, n=%d: %s" % (op, opname, family, n, msg), c)

    def fresh():
        try:
            lim = ((CALLS_PER_NODE_DEEP if deep else CALLS_PER_NODE) * (n + 10) + 100000) if profile else None
            return build(opname, family, n, lim), None, None
        except BudgetExceeded as e:
            return None, e, None
        except BaseException as e:      # noqa: BLE001
            if isinstance(e, (KeyboardInterrupt, SystemExit)):
                raise
            return None, e, _tail(e)

    # ---- construction (the counters of the previous case are cleared before the budget is armed)
    MON.reset()
    MON.limit_events = 64 * (n + 10) * 8
    b, exc, tb = fresh()
    MON.limit_events = None
    res.count("evaluations")
    if b is None:
        pop_env()
        kind = "recursion" if isinstance(exc, RecursionError) else ("budget" if isinstance(exc, BudgetExceeded) else "exception")
        res.outcome("construct:" + kind)
        bad(kind, "construct", "building the family raised %s: %s [%s]" % (type(exc).__name__, str(exc)[:120], tb))
        return out
    try:
        N = b.N
        bc = b.build_counts
        out["construct"] = bc
        res.outcome("construct:ok")
        if N < n:
            bad("harness", "construct", "family has only %d distinct nodes" % N)
        if family == "diamond" and not tree_size_exceeds(b.f, 2 ** n - 1):
            bad("harness", "construct", "diamond has no sharing")
        made = len(b.env.formula_manager.formulae)
        # every created node is type-checked exactly once, by the memoising checker
        if bc["cb_max"] > 1:
            bad("max", "construct", "type-checker callback invoked %d times for one node (%s)"
                % (bc["cb_max"], MON.cb_max_at and MON.cb_max_at[0]))
        if bc["cb"] > made + K or bc["create"] > 2 * made + K or bc["push"] + bc["compute"] > STEP_FACTOR * (made + K):
            bad("lin", "construct", "%d nodes created but %d type-checker callbacks, %d create_node calls, %d steps"
                % (made, bc["cb"], bc["create"], bc["push"] + bc["compute"]))
        # ---- one more constructor on top of the family term
        for tname, ctor in tops(b.L, b.sort, b.f):
            res.count("evaluations")
            cnt, exc, tb = measure(ctor, N, False)
            lab = "construct-top"
            if exc is None:
                res.outcome(lab + ":ok")
                if cnt["cb"] > 4 or cnt["create"] > 4 or cnt["cb_max"] > 1:
                    bad("lin", "construct", "%s on top of the term: %d callbacks, %d create_node calls"
                        % (tname, cnt["cb"], cnt["create"]), {"top": tname})
            elif isinstance(exc, RecursionError):
                res.outcome(lab + ":recursion")
                bad("recursion", "construct", "%s(<%s %s of depth %d>) raised RecursionError [%s]"
                    % (tname, opname, family, n, tb), {"top": tname})
            elif isinstance(exc, BudgetExceeded):
                res.outcome(lab + ":budget")
                bad("budget", "construct", "%s on top: %s" % (tname, exc), {"top": tname})
            else:
                res.outcome(lab + ":" + type(exc).__name__)
                bad("exception", "construct", "%s on top raised %s: %s" % (tname, type(exc).__name__, str(exc)[:100]),
                    {"top": tname})
        # ---- a refused (ill-typed) construction over the closed formula, caught by the caller, must not make the
        # ---- next construction on top of the term pay for the whole DAG again (the type checker's memo survives)
        m_ = b.env.formula_manager
        for rname, refused in (("Equals(F,F)", lambda: m_.Equals(b.F, b.F)), ("Plus(F,F)", lambda: m_.Plus(b.F, b.F)),
                               ("BVAdd(F,F)", lambda: m_.BVAdd(b.F, b.F)), ("LT(F,1)", lambda: m_.LT(b.F, m_.Int(1)))):
            try:
                refused()
                res.outcome("construct-refused:accepted")
            except RecursionError as e:
                res.outcome("construct-refused:recursion")
                bad("recursion", "construct", "the refused construction %s raised RecursionError [%s]" % (rname, _tail(e)),
                    {"top": rname})
                continue
            except Exception:
                res.outcome("construct-refused:raised")
            for tname, ctor in tops(b.L, b.sort, b.f)[:2]:
                res.count("evaluations")
                # a new node on top (the earlier tops exist already): wrap it once more so that it is new
                cnt, exc, tb = measure(lambda: m_.Not(m_.Iff(_as_bool(b, ctor()), m_.Symbol("after_%s" % rname))), N, False)
                if exc is None:
                    res.outcome("construct-after-refusal:ok")
                    if cnt["cb"] > 12 or cnt["cb_max"] > 1:
                        bad("lin", "construct", "%s on top of the term after the refused %s: %d type-checker callbacks for "
                            "at most 6 new nodes (%d distinct nodes in the term)" % (tname, rname, cnt["cb"], N),
                            {"top": tname, "after": rname})
                else:
                    res.outcome("construct-after-refusal:" + type(exc).__name__)
        # ---- operations
        dirty = False
        for op in ops:
            if op in OPS_SKIP.get(opname, ()):
                res.outcome("%s:skipped-for-family" % op)
                continue
            if op.startswith("reparse") and not getattr(b, "text", None):
                res.outcome("reparse:skipped-no-text")
                continue
            if dirty:
                text = getattr(b, "text", None)
                pop_env()
                b, exc, tb = fresh()
                if b is None:
                    break
                b.text = text
                dirty = False
            res.count("evaluations")
            cnt, exc, tb = measure(lambda: run_op(op, b), N, profile, CALLS_PER_NODE_DEEP if deep else None)
            out[op] = cnt
            if exc is not None:
                dirty = True
                en = type(exc).__name__
                if isinstance(exc, RecursionError):
                    res.outcome(op + ":recursion")
                    bad("recursion", op, "RecursionError under the default recursion limit [%s]" % tb)
                elif isinstance(exc, BudgetExceeded):
                    res.outcome(op + ":budget")
                    bad("budget", op, "%s (N=%d distinct nodes; callbacks=%d steps=%d created=%d)"
                        % (exc, N, cnt["cb"], cnt["push"] + cnt["compute"], cnt["create"]))
                elif en in CLEAN:
                    res.outcome(op + ":clean-" + en)
                else:
                    res.outcome(op + ":" + en)
                    bad("exception", op, "raised %s: %s [%s]" % (en, str(exc)[:100], tb))
                continue
            res.outcome(op + ":ok")
            if cnt["cb"] >= n:
                res.count("nontrivial")
            else:
                res.outcome(op + ":few-callbacks")
            if cnt["cb_max"] > 1:
                bad("max", op, "a callback was invoked %d times for one (walker, node): %s"
                    % (cnt["cb_max"], MON.cb_max_at and MON.cb_max_at[0]))
            cb_bound = OPS_C[op] * N + K
            if cnt["cb"] > cb_bound:
                bad("lin", op, "%d callbacks for N=%d distinct nodes (bound %d*N+%d) %s"
                    % (cnt["cb"], N, OPS_C[op], K, cnt["by"]))
            steps = cnt["push"] + cnt["compute"]
            if steps > STEP_FACTOR * cb_bound:
                bad("lin-steps", op, "%d walker-machine steps for N=%d distinct nodes (bound %d)"
                    % (steps, N, STEP_FACTOR * cb_bound))
            if cnt["create"] > OPS_R[op] * N + K:
                bad("lin-create", op, "%d create_node calls for N=%d distinct nodes (bound %d*N+%d)"
                    % (cnt["create"], N, OPS_R[op], K))
            if op == "dagprint" and len(b.text) > TEXT_PER_NODE * N + 1000:
                bad("lin-text", op, "%d characters of text for N=%d distinct nodes" % (len(b.text), N))
            if op == "reparse-reprint" and b.reprinted > 2 * TEXT_PER_NODE * N + 2000:
                bad("lin-text", op, "%d characters for the re-serialised script, N=%d distinct nodes" % (b.reprinted, N))
            if op.startswith("reparse"):
                if cnt["atoms"] > 6 * N + K or cnt["getexpr"] > 2 * N + K:
                    bad("lin-parse", op, "%d atoms / %d get_expression calls for N=%d" % (cnt["atoms"], cnt["getexpr"], N))
                if b.parsed_nodes < n:
                    bad("harness", op, "re-parsed formula has only %d nodes" % b.parsed_nodes)
        # ---- informational only (tree printing is not in the statement's list of operations):
        #      the TreeWalker-based printers on chains, where tree size = DAG size
        if family == "chain" and ops and not dirty and opname != "select-table":    # (the table is shared by all reads)
            for nm, fn in (("info-hr-serialize", lambda: len(b.F.serialize())),
                           ("info-smt-treeprint", lambda: len(_to_smtlib(b.F)))):
                cnt, exc, tb = measure(fn, N, False)
                res.outcome(nm + (":ok" if exc is None else ":" + type(exc).__name__))
        return out
    finally:
        pop_env()


def _to_smtlib(F):
    from pysmt.smtlib.printers import to_smtlib
    return to_smtlib(F, daggify=False)


def check_doubling(opname, family, per_size, res, part):
    sizes = sorted(per_size)
    for a, c in zip(sizes, sizes[1:]):
        if c != 2 * a:
            continue
        for op in per_size[a]:
            if op not in per_size[c]:
                continue
            x, y = per_size[a][op], per_size[c][op]
            for key in ("cb", "push", "compute", "create", "atoms", "getexpr"):
                if y[key] > 2 * x[key] + K:
                    res.violation(part, "double:%s:%s" % (op, opclass(opname)),
                                  "%s of %s %s: %s grows from %d (n=%d) to %d (n=%d): more than doubled"
                                  % (op, opname, family, key, x[key], a, y[key], c),
                                  {"operator": opname, "family": family, "n": c, "op": op, "double_from": a})
            # python-level calls: deterministic step count; quadratic work shows as a ratio -> 4
            # (measured on the unchanged tree: every linear operation has ratio <= 2.002, the
            #  quadratic ones >= 3.5)
            # loop iterations on their own: a scan that calls nothing is hidden behind the calls of everything else
            if x["calls"] and y.get("jumps", 0) > 2.25 * x.get("jumps", 0) + 2000:
                res.violation(part, "superlinear:%s:%s" % (op, opclass(opname)),
                              "%s of %s %s: loop iterations grow from %d (n=%d) to %d (n=%d): super-linear"
                              % (op, opname, family, x.get("jumps", 0), a, y.get("jumps", 0), c),
                              {"operator": opname, "family": family, "n": c, "op": op, "double_from": a})
            xs, ys = x["calls"] + x.get("jumps", 0), y["calls"] + y.get("jumps", 0)
            if x["calls"] and ys > 2.25 * xs + 2000:
                res.violation(part, "superlinear:%s:%s" % (op, opclass(opname)),
                              "%s of %s %s: python-level calls grow from %d (n=%d) to %d (n=%d): super-linear"
                              % (op, opname, family, xs, a, ys, c),
                              {"operator": opname, "family": family, "n": c, "op": op, "double_from": a})


ALL_OPS = [o[0] for o in OPS]


def _limits():
    import resource
    import warnings
    warnings.simplefilter("ignore")     # SizeOracle.set_function deprecation, non-standard logics
    try:
        soft, hard = resource.getrlimit(resource.RLIMIT_AS)
        if soft == resource.RLIM_INFINITY or soft > MEM_LIMIT:
            resource.setrlimit(resource.RLIMIT_AS, (MEM_LIMIT, hard))
    except (ValueError, OSError):
        pass


def run_shard(shard):
    from ..core.runner import Result
    workmon.install()
    _limits()
    res = Result()
    opname, family, mode, sizes, deep_n = shard
    part = "%s:%s:%s" % (opname, family, mode)
    if mode == "count":
        per = {}
        for n in sizes:
            per[n] = case_ops(opname, family, n, ALL_OPS, res, part, True, False)
        check_doubling(opname, family, per, res, part)
        res.sample({"operator": opname, "family": family, "sizes": list(sizes),
                    "callbacks": {o: [per[n].get(o, {}).get("cb") for n in sizes] for o in ("simplify", "nnf", "reparse")}},
                   limit=1)
    elif mode == "height":
        case_ops(opname, family, sizes[0], ALL_OPS, res, part, True, False)
    elif mode == "deep":
        ops = [o for o in ALL_OPS if o not in ("size-dag", "size-booldag")]
        case_ops(opname, family, deep_n, ops, res, part, True, True)
        case_ops(opname, family, min(deep_n, DEEP_SETSIZE), ["size-dag", "size-booldag"], res, part, True, True)
    return res


def shards(ctx):
    out = []
    for opname in sorted(OPERATORS):
        if ctx.quick and opname in QUICK_SKIP:
            continue
        sort, chain, dia = OPERATORS[opname]
        if chain:
            out.append((opname, "chain", "count", COUNT_SIZES, None))
            deep = DEEP_THOROUGH if (not ctx.quick or opname in DEEP_FULL_QUICK) else DEEP_QUICK
            out.append((opname, "chain", "deep", (), deep))
        if dia:
            out.append((opname, "diamond", "count", COUNT_SIZES, None))
            out.append((opname, "diamond", "height", (DIAMOND_HEIGHT,), None))
            if opname in DEEP_DIAMONDS:
                # deep *and* shared: DAG size ~ n, nesting depth n, tree size 2^n
                out.append((opname, "diamond", "deep", (), DEEP_QUICK if ctx.quick else DEEP_THOROUGH))
    if ctx.parts:
        out = [s for s in out if s[0] in ctx.parts or "%s:%s:%s" % (s[0], s[1], s[2]) in ctx.parts]
    # longest first
    out.sort(key=lambda s: -(s[4] or 0))
    return out


def run(ctx):
    ctx.level = "exploration"
    ctx.rule = ("grid: every nestable operator/argument position of the table OPERATORS x {chain, diamond} x "
                "n in %s (counting, with a Python-call budget), diamonds of height %d (budget), chains of depth "
                "%d (quick: %d except %s) under recursion limit %d; in each case a fresh Environment, the family "
                "term, %d-%d further constructors on top of it and %d operations on its Boolean closure. A case "
                "is non-trivial when the operation invoked at least n walker callbacks"
                % (COUNT_SIZES, DIAMOND_HEIGHT, DEEP_THOROUGH, DEEP_QUICK, ",".join(DEEP_FULL_QUICK),
                   sys.getrecursionlimit(), 5, 50, len(OPS)))
    ctx.assumptions = [
        "work = invocations of walker callbacks (walker.functions entries), DagWalker machine steps, "
        "FormulaManager.create_node calls, parser atom/get_expression calls, counted by wrappers installed from "
        "outside; Python-level calls and loop iterations (sys.monitoring PY_START / backward JUMP events) only as a step "
        "budget (calls) and for the super-linear growth test (calls + loop iterations)",
        "leaves of each sort are cycled over %d symbols" % NLEAF,
        "size-dag and size-booldag run their recursion test at depth %d (they keep a set of all sub-nodes per node)"
        % DEEP_SETSIZE,
        "string operators other than ITE of String sort are outside the property's list",
    ]
    if sys.getrecursionlimit() != 1000:
        ctx.res.violation("harness", "harness:recursionlimit", "recursion limit is %d" % sys.getrecursionlimit(), {})
    sh = shards(ctx)
    ctx.coverage["operators"] = sorted(set(s[0] for s in sh))
    ctx.coverage["operations"] = ["construct"] + ALL_OPS
    ctx.coverage["shards"] = len(sh)
    ctx.pmap(run_shard, sh)
    collapse(ctx.res, set(opclass(s[0]) for s in sh))


def collapse(res, ran):
    """one root cause -> one signature: a (failure kind, operation) that fails for at least five
    operator classes does not depend on the operator; its signature gets the class `any`"""
    by = {}
    for v in res.violations:
        kind, op, cls = (v["sig"].split(":", 2) + ["", ""])[:3]
        by.setdefault((kind, op), set()).add(cls)
    for v in res.violations:
        kind, op, cls = (v["sig"].split(":", 2) + ["", ""])[:3]
        if kind != "harness" and len(by[(kind, op)]) >= 5:
            v["sig"] = "%s:%s:any" % (kind, op)
            v["msg"] += " [same failure for %d of %d operator classes]" % (len(by[(kind, op)]), len(ran))


def replay(rec):
    from ..core.runner import Result
    workmon.install()
    _limits()
    c = rec["case"]
    res = Result()
    opname, family, n = c["operator"], c["family"], c["n"]
    ops = ALL_OPS if c.get("op") in (None, "construct") else [c["op"]]
    if str(c.get("op")).startswith("reparse"):
        ops = ["dagprint", c.get("op")]
    if c.get("double_from"):
        per = {m: case_ops(opname, family, m, ops, res, "replay", True, False) for m in (c["double_from"], n)}
        check_doubling(opname, family, per, res, "replay")
    else:
        if c.get("op") == "construct":
            ops = []
        case_ops(opname, family, n, ops, res, "replay", True, c.get("deep"))
    want = ":".join(rec.get("sig", "").split(":")[:2])
    hits = [v for v in res.violations if v["sig"].startswith(want + ":")] or res.violations
    if hits:
        return False, hits[0]["msg"]
    return True, "%s %s n=%d: all counters within the bounds" % (opname, family, n)
