"""C19 - the portfolio answer is independent of the race and never blocks forever.

Stateless model checking of the real Portfolio._solve/_run_solver under a controlled
scheduler (mc/core/sched.py): for every configuration (caller script x member behaviour
vector x exit_on_exception) *every* schedule of the parent and its member processes is
executed (optionally under a preemption bound) and the outcome of each schedule is checked.
"""
import itertools
from pysmt.environment import Environment, push_env, pop_env
from pysmt.solvers.solver import Solver
from pysmt.solvers.options import SolverOptions
from pysmt.solvers.eager import EagerModel
from pysmt.exceptions import SolverReturnedUnknownResultError
from pysmt.logics import QF_BOOL
from ..core import sched
from ..core.runner import Result
from ..core.refsem import compile_term, free_symbols, value_to_const
from ..core.termgen import sort_values

BEHAVIOURS = ("first", "last", "unknown", "raise", "exit")
# further member behaviours used by dedicated configurations:
#   raise-init  the member cannot even be constructed (the executable rejects the logic, ...)
#   raise-add   the member refuses the formula when it is asserted
#   raise-on-c  answers (first model) unless the symbol c occurs in its assertions, then it raises
#   raise-exitfail  the query raises and releasing the solver afterwards raises too (dead external process)
#   raise-answer    the query fails with the library's own UnknownSolverAnswerError (as a text solver's does)
EXTRA_BEHAVIOURS = ("raise-init", "raise-add", "raise-on-c", "raise-exitfail", "raise-answer")
ANSWERING = ("first", "last", "raise-on-c")


class _Opt(SolverOptions):
    def __call__(self, solver):
        pass


class MemberSolver(Solver):
    """a member: decides by brute force; 'first'/'last' pick different models so that the
    identity of the winner is observable through the model"""
    LOGICS = [QF_BOOL]
    OptionsClass = _Opt
    BEHAVIOUR = "first"

    def __init__(self, environment, logic, **options):
        Solver.__init__(self, environment, logic, **options)
        if self.BEHAVIOUR == "raise-init":
            raise RuntimeError("member cannot be started")
        self.fs = []
        self.model = None

    def add_assertion(self, formula, named=None):
        if self.BEHAVIOUR == "raise-add":
            raise RuntimeError("member refuses the formula")
        self.fs.append(formula)

    def solve(self, assumptions=None):
        b = self.BEHAVIOUR
        if b == "by-seed":
            # one solver registered once, used several times with different options (the documented
            # multi-seed portfolio): the behaviour is selected by the random_seed option
            b = BEHAVIOURS[self.options.random_seed]
        if b == "raise-on-c":
            if any("c" in free_symbols(f) for f in self.fs):
                raise RuntimeError("member failed")
            b = "first"
        if b == "raise-answer":
            from pysmt.exceptions import UnknownSolverAnswerError
            raise UnknownSolverAnswerError("Solver returned: garbage")
        if b in ("raise", "raise-exitfail"):
            self._failed = True
            raise RuntimeError("member failed")
        if b == "unknown":
            raise SolverReturnedUnknownResultError()
        if b == "exit":
            raise sched.Killed()        # the process dies without reporting anything
        syms = {}
        fns = []
        for f in self.fs:
            syms.update(free_symbols(f))
            fns.append(compile_term(f)[1])
        names = sorted(syms)
        pools = [sort_values(syms[n]) for n in names]
        models = []
        for vals in itertools.product(*pools):
            I = dict(zip(names, vals))
            if all(g(I) for g in fns):
                models.append((names, syms, I))
        if not models:
            self.model = None
            return False
        self.model = models[0] if b == "first" else models[-1]
        self._picked = b
        return True

    def get_model(self):
        names, syms, I = self.model
        env = self.environment
        m = env.formula_manager
        from ..core.termio import mk_type
        return EagerModel({m.Symbol(n, mk_type(env, syms[n])): value_to_const(env, syms[n], I[n]) for n in names},
                          environment=env)

    def get_value(self, item):
        return self.get_model().get_value(item)

    def _exit(self):
        if self.BEHAVIOUR == "raise-exitfail" and getattr(self, "_failed", False):
            raise BrokenPipeError("the solver process is gone")


def member_class(beh):
    return type("Member_" + beh, (MemberSolver,), {"BEHAVIOUR": beh})


SCRIPTS = ("solve", "solve+model", "solve+value", "solve-push-solve", "is_sat", "solve-twice", "is_sat-add-solve",
           "push-is_sat-pop-solve", "push-pop0-solve", "is_sat-push-pop-solve", "solve+values12")
# scripts with their own configurations (see configs): assumptions; a failing second query followed by get_model
EXTRA_SCRIPTS = ("solve-assume", "solve-failsolve-model", "failed-is_sat-then-solve")


def make_body(env, names, script, exit_on_exception, unsat):
    """the caller script; returns a JSON-able observation"""
    from pysmt.solvers.portfolio import Portfolio
    m = env.formula_manager
    a, b = m.Symbol("a"), m.Symbol("b")
    base = m.And(a, m.Not(a)) if unsat else m.Or(a, b)

    def holds(formula, val):
        return compile_term(formula)[1](val)

    def body():
        if script == "is_sat":
            return {"verdict": env.factory.is_sat(base, portfolio=names, logic=QF_BOOL)}
        opts = {"solver_options": {"exit_on_exception": True}} if exit_on_exception else {}
        p = Portfolio(names, environment=env, logic=QF_BOOL, **opts)
        try:
            p.add_assertion(base)
            if script == "is_sat-add-solve":
                # a one-shot query (leaves a deferred pop), then a plain assertion, then solve: the
                # assertion must survive
                obs = {"query": p.is_sat(a)}
                p.add_assertion(m.And(m.Not(a), m.Not(b)))
                obs["verdict"] = p.solve()
                obs["n_assertions"] = len(p.assertions)
                return obs
            if script == "push-is_sat-pop-solve":
                # push, assert, a one-shot query (leaves a deferred pop), then the user's own pop at once: the
                # pushed assertion must be gone and the next assertion must count
                p.push()
                p.add_assertion(m.Not(a))
                obs = {"query": p.is_sat(b)}
                p.pop()
                obs["n_assertions"] = len(p.assertions)
                p.add_assertion(a)
                obs["verdict"] = p.solve()
                if obs["verdict"]:
                    model = p.get_model()
                    val = {"a": model.get_py_value(a), "b": model.get_py_value(b)}
                    obs["model_ok"] = bool(holds(m.And(base, a), val))
                return obs
            if script == "is_sat-push-pop-solve":
                # a one-shot query (deferred pop pending) directly followed by the user's push; what is asserted
                # inside that level is gone after the pop
                obs = {"query": p.is_sat(a)}
                p.push()
                p.add_assertion(m.And(m.Not(a), m.Not(b)))
                p.pop()
                obs["n_assertions"] = len(p.assertions)
                obs["verdict"] = p.solve()
                return obs
            if script == "push-pop0-solve":
                # push(0) and pop(0) are legal and change nothing: the pushed assertion still counts
                p.push()
                p.add_assertion(m.And(m.Not(a), m.Not(b)))
                p.push(0)
                p.pop(0)
                obs = {"n_assertions": len(p.assertions), "verdict": p.solve()}
                p.pop()
                obs["verdict2"] = p.solve()
                return obs
            if script == "solve-assume":
                # the query is assertions + assumptions; the assumptions do not persist
                obs = {"verdict": p.solve([m.Not(a), m.Not(b)])}
                obs["verdict2"] = p.solve()
                obs["verdict3"] = p.solve([a])
                if obs["verdict3"]:
                    model = p.get_model()
                    val = {"a": model.get_py_value(a), "b": model.get_py_value(b)}
                    obs["model3_ok"] = bool(holds(m.And(base, a), val))
                return obs
            if script == "failed-is_sat-then-solve":
                # a one-shot query on which every raise-on-c member fails: afterwards the portfolio holds
                # exactly the assertions of before, and answers for them
                try:
                    obs = {"query": p.is_sat(m.And(m.Symbol("c"), m.Not(a), m.Not(b)))}
                except sched.Deadlock:
                    raise
                except Exception:
                    obs = {"query": "raised"}
                obs["n_assertions"] = len(p.assertions)
                obs["verdict"] = p.solve()
                return obs
            if script == "solve-failsolve-model":
                # a successful query, then one on which every raise-on-c member fails, then get_model:
                # there is no model of the failed query - an error, not a block and not the old model
                obs = {"verdict": p.solve()}
                p.add_assertion(m.Or(m.Symbol("c"), a))
                try:
                    obs["verdict2"] = p.solve()
                except sched.Deadlock:
                    raise
                except Exception:
                    obs["verdict2"] = "raised"
                try:
                    model = p.get_model()
                    val = {"a": model.get_py_value(a), "b": model.get_py_value(b), "c": model.get_py_value(m.Symbol("c"))}
                    obs["model"] = "ok" if holds(m.And(base, m.Or(m.Symbol("c"), a)), val) else "wrong"
                except sched.Deadlock:
                    raise
                except Exception:
                    obs["model"] = "raised"
                return obs
            obs = {"verdict": p.solve()}
            if obs["verdict"] and script == "solve+model":
                model = p.get_model()
                val = {"a": model.get_py_value(a), "b": model.get_py_value(b)}
                obs["model_ok"] = bool(holds(base, val))
            elif obs["verdict"] and script == "solve+values12":
                # more values in one call than a pipe buffers (sched.PIPE_CAP): requests and answers must alternate
                terms = [a, b, m.Or(a, b), m.And(a, b), m.Not(a), m.Not(b), m.Iff(a, b), m.Implies(a, b), m.Implies(b, a),
                         m.Or(a, m.Not(b)), m.And(a, m.Not(b)), m.Not(m.And(a, b))]
                vals = p.get_values(terms)
                val = {"a": vals[a].constant_value(), "b": vals[b].constant_value()}
                obs["model_ok"] = bool(holds(base, val)) and all(vals[t].constant_value() == bool(holds(t, val)) for t in terms)
            elif obs["verdict"] and script == "solve+value":
                val = {"a": p.get_value(a).constant_value(), "b": p.get_value(b).constant_value()}
                obs["model_ok"] = bool(holds(base, val))
            elif script == "solve-push-solve":
                # the verdicts of consecutive rounds differ (sat, unsat, sat / unsat, unsat, unsat), so a
                # stale answer of an earlier round is observable
                p.push()
                p.add_assertion(m.And(m.Not(a), m.Not(b)))
                obs["verdict2"] = p.solve()
                if obs["verdict2"]:
                    model = p.get_model()
                    val = {"a": model.get_py_value(a), "b": model.get_py_value(b)}
                    obs["model2_ok"] = bool(holds(m.And(base, m.Not(a), m.Not(b)), val))
                p.pop()
                obs["verdict3"] = p.solve()
                if obs["verdict3"]:
                    model = p.get_model()
                    val = {"a": model.get_py_value(a), "b": model.get_py_value(b)}
                    obs["model3_ok"] = bool(holds(base, val))
            elif script == "is_sat-add-solve":
                pass    # handled below (needs the incremental one-shot query first)
            elif script == "solve-twice":
                obs["verdict2"] = p.solve()
                if obs["verdict2"]:
                    model = p.get_model()
                    val = {"a": model.get_py_value(a), "b": model.get_py_value(b)}
                    obs["model2_ok"] = bool(holds(base, val))
            return obs
        finally:
            try:
                p.exit()
            except sched.Deadlock:
                raise
    return body


def expected(script, unsat, behs=()):
    sat = not unsat
    if script == "solve-assume":
        e = {"verdict": False, "verdict2": sat, "verdict3": sat}
        if sat:
            e["model3_ok"] = True
        return e
    if script == "failed-is_sat-then-solve":
        if all(b == "raise-on-c" for b in behs):
            return {"query": "raised", "n_assertions": 1, "verdict": True}
        return {"query": False, "n_assertions": 1, "verdict": True}
    if script == "solve-failsolve-model":
        if all(b == "raise-on-c" for b in behs):
            return {"verdict": True, "verdict2": "raised", "model": "raised"}
        return {"verdict": True, "verdict2": True, "model": "ok"}
    if script == "is_sat-add-solve":
        return {"query": sat, "verdict": False, "n_assertions": 2}
    if script == "is_sat-push-pop-solve":
        return {"query": sat, "n_assertions": 1, "verdict": sat}
    if script == "push-pop0-solve":
        return {"n_assertions": 2, "verdict": False, "verdict2": sat}
    if script == "push-is_sat-pop-solve":
        e = {"query": sat, "n_assertions": 1, "verdict": sat}
        if sat:
            e["model_ok"] = True
        return e
    e = {"verdict": sat}
    if script in ("solve+model", "solve+value", "solve+values12") and sat:
        e["model_ok"] = True
    if script == "solve-push-solve":
        e["verdict2"] = False   # (a|b) & !a & !b and a & !a & ... are both unsat
        e["verdict3"] = sat
        if sat:
            e["model3_ok"] = True
    if script == "solve-twice":
        e["verdict2"] = sat
        if sat:
            e["model2_ok"] = True
    return e


def member_names(env, behs, same_solver):
    """registers the member solvers; returns the solvers_set argument of Portfolio"""
    if same_solver:
        env.factory._all_solvers["m"] = member_class("by-seed")
        return [("m", {"random_seed": BEHAVIOURS.index(bh)}) for bh in behs]
    names = []
    for i, bh in enumerate(behs):
        nm = "m%d" % i
        env.factory._all_solvers[nm] = member_class(bh)
        names.append(nm)
    return names


def run_config(args):
    behs, script, eoe, unsat, bound, seed = args[:6]
    same_solver = len(args) > 6 and args[6]
    res = Result()
    env = Environment()
    push_env(env)
    try:
        sched.install()
        names = member_names(env, behs, same_solver)
        body = make_body(env, names, script, eoe, unsat)
        some_answer = any(bh in ANSWERING for bh in behs)
        some_error = any(bh in ("raise", "unknown", "raise-init", "raise-add", "raise-exitfail", "raise-answer") for bh in behs)
        want = expected(script, unsat, behs)
        cfg = {"members": list(behs), "script": script, "exit_on_exception": eoe, "unsat": unsat,
               "same_solver": bool(same_solver)}
        cls = ("all-fail" if not some_answer else "some-fail" if len(set(behs) - set(ANSWERING)) else "all-answer")
        outcomes = {}
        first_bad = {}

        def on_schedule(pre, outcome, trace, events, leftover):
            res.count("evaluations")
            kind, obs = outcome
            label = kind if kind != "ok" else "ok:" + ",".join("%s=%s" % kv for kv in sorted(obs.items()))
            outcomes[label] = outcomes.get(label, 0) + 1
            bad = None
            if kind == "DEADLOCK":
                bad = ("deadlock", "the call blocks forever")
            elif some_answer:
                if kind == "exc":
                    if not (eoe and some_error):
                        bad = ("exception", "raised %s although a member answers" % obs)
                elif obs != want:
                    bad = ("wrong", "observed %r, expected %r" % (obs, want))
            else:
                if kind == "ok":
                    bad = ("wrong", "returned %r although every member fails" % (obs,))
            if bad and bad[0] not in first_bad:
                first_bad[bad[0]] = (bad[1], [t[0] for t in trace], events[-12:])
        n, capped = sched.explore(body, preemption_bound=bound, on_schedule=on_schedule,
                                  max_schedules=400000)
        if capped:
            res.count("capped_configs")
        res.count("configs")
        res.count("nontrivial", len(outcomes))
        for lab, c in outcomes.items():
            res.outcome("%s|%s" % (cls, lab.split(":")[0] if lab.startswith("exc") else lab), c)
        res.sample({"config": cfg, "schedules": n, "distinct_outcomes": sorted(outcomes)}, limit=2)
        for kind, (msg, choices, events) in first_bad.items():
            fails = "+".join(sorted(set(b for b in behs if b not in ANSWERING))) or "none"
            sig = "portfolio:%s(%s):%s" % (cls, fails, kind)
            res.violation("portfolio", sig,
                          "members %s, script %s, exit_on_exception=%s, %s: %s; schedule %s; last events %s"
                          % (list(behs), script, eoe, "unsat" if unsat else "sat", msg, choices, events),
                          {"config": cfg, "choices": choices, "bound": bound})
        res.counters["schedules_%d" % len(behs)] = res.counters.get("schedules_%d" % len(behs), 0) + n
    finally:
        pop_env()
    return res


def configs(ctx):
    q = ctx.quick
    out = []
    for n in ((2,) if q else (2, 3)):
        for behs in itertools.product(BEHAVIOURS, repeat=n):
            for script in SCRIPTS:
                for eoe in (False, True):
                    for unsat in (False, True):
                        if script not in ("solve", "is_sat") and unsat and script != "solve-push-solve":
                            continue
                        if script == "is_sat" and eoe:
                            continue
                        if q and eoe and script not in ("solve", "solve+model"):
                            continue
                        if n == 3 and script not in ("solve", "solve+model"):
                            continue
                        two = script in ("solve-push-solve", "solve-twice", "is_sat-add-solve", "push-is_sat-pop-solve", "push-pop0-solve", "is_sat-push-pop-solve")
                        if q and two and (eoe or any(b in ("unknown", "exit") for b in behs)):
                            continue
                        bound = (2 if two else None) if n == 2 else 3
                        if q and script in ("solve-push-solve", "push-is_sat-pop-solve", "push-pop0-solve", "is_sat-push-pop-solve"):
                            bound = 1
                        if script == "solve+values12":
                            bound = 1 if q else 2      # (a dozen request / answer pairs: bounded by preemptions)          # three solves per run: 16 times more schedules than one solve
                        if not q and two:
                            bound = 3 if script == "solve-twice" else 2
                        out.append((behs, script, eoe, unsat, bound, ctx.seed))
    # the same solver used twice with different options (members share their solver name)
    for behs in itertools.product(BEHAVIOURS, repeat=2):
        for script in ("solve", "solve+model"):
            out.append((behs, script, False, False, None, ctx.seed, True))
    # members that fail before their solve starts (construction, assertion), alone and next to others
    for behs in itertools.product(("first", "raise-init", "raise-add", "raise", "raise-exitfail", "raise-answer"), repeat=2):
        if any(b in ("raise-init", "raise-add", "raise-exitfail", "raise-answer") for b in behs):
            for eoe in (False, True):
                out.append((behs, "solve+model", eoe, False, None, ctx.seed))
    # assumptions
    for behs in itertools.product(("first", "last", "raise"), repeat=2):
        for unsat in (False, True):
            out.append((behs, "solve-assume", False, unsat, 1 if q else 2, ctx.seed))
    # a query on which every member fails, after a successful one, then get_model
    for behs in itertools.product(("first", "raise-on-c"), repeat=2):
        out.append((behs, "solve-failsolve-model", False, False, 1 if q else 2, ctx.seed))
        for eoe in (False, True):
            if eoe and not all(b == "raise-on-c" for b in behs):
                continue        # with exit_on_exception the first failure may or may not end the query
            out.append((behs, "failed-is_sat-then-solve", eoe, False, 1 if q else 2, ctx.seed))
    if q:
        # three members under a preemption bound of 2, the most race-prone script
        for behs in itertools.product(("first", "last", "raise", "exit"), repeat=3):
            out.append((behs, "solve+model", False, False, 1, ctx.seed))
    else:
        for behs in itertools.product(("first", "last", "raise"), repeat=4):
            if sum(1 for b in behs if b in ANSWERING) in (0, 1, 2):
                out.append((behs, "solve+model", False, False, 1, ctx.seed))
    return out


def run(ctx):
    ctx.level = "model_checking"
    ctx.rule = ("every schedule (all interleavings at IPC granularity; 3-4 members under the stated preemption "
                "bound) of every configuration: member behaviour vector in {answers with first/last model, unknown, "
                "raises, exits silently}^n x caller script x exit_on_exception x sat/unsat; distinct_nontrivial = "
                "number of distinct (configuration, observed outcome) pairs")
    ctx.assumptions = ["processes are scheduler-controlled threads; kill is synchronous at IPC granularity",
                       "objects crossing queues/pipes are pickled and unpickled",
                       "members decide by brute force, so answering members agree on the verdict"]
    cfgs = configs(ctx)
    ctx.rng.shuffle(cfgs)
    ctx.pmap(run_config, cfgs)
    c = ctx.res.counters
    ctx.coverage.update({"states": c.get("configs", 0), "transitions": c.get("evaluations", 0),
                         "traces_validated_against_impl": c.get("evaluations", 0),
                         "configurations": c.get("configs", 0),
                         "preemption_bounds": {"2 members, one solve": "unbounded",
                                               "2 members, solve-twice": 2 if ctx.quick else 3,
                                               "2 members, solve-push-solve": 1 if ctx.quick else 2,
                                               "3 members": 1 if ctx.quick else 3,
                                               "4 members": None if ctx.quick else 1}})
    if c.get("capped_configs"):
        ctx.exhaustive = False
        ctx.cap_note = "%d configurations hit the 400000-schedule cap" % c["capped_configs"]


def replay(rec):
    case = rec["case"]
    cfg = case["config"]
    env = Environment()
    push_env(env)
    try:
        sched.install()
        names = member_names(env, cfg["members"], cfg.get("same_solver"))
        body = make_body(env, names, cfg["script"], cfg["exit_on_exception"], cfg["unsat"])
        o1 = sched.run_once(body, case["choices"])
        o2 = sched.run_once(body, case["choices"])
        if o1[0] != o2[0]:
            return False, "replay is not deterministic: %r vs %r" % (o1[0], o2[0])
        kind, obs = o1[0]
        some_answer = any(b in ANSWERING for b in cfg["members"])
        some_error = any(b in ("raise", "unknown") for b in cfg["members"])
        want = expected(cfg["script"], cfg["unsat"], cfg["members"])
        if kind == "DEADLOCK":
            return False, "schedule %s of %s: the call blocks forever" % (case["choices"], cfg)
        if some_answer and kind == "exc" and not (cfg["exit_on_exception"] and some_error):
            return False, "schedule %s of %s: raised %s" % (case["choices"], cfg, obs)
        if some_answer and kind == "ok" and obs != want:
            return False, "schedule %s of %s: observed %r expected %r" % (case["choices"], cfg, obs, want)
        if not some_answer and kind == "ok":
            return False, "schedule %s of %s: returned %r although every member fails" % (case["choices"], cfg, obs)
        return True, "schedule %s of %s: outcome %r is acceptable" % (case["choices"], cfg, o1[0])
    finally:
        pop_env()
