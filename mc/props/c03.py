"""C03 - every formula that exists is well-typed; ill-typed applications are rejected.

Part (a): the full matrix  public constructor x argument tuples over a pool with one or two
inhabitants of every sort x arities n-1..n+1 (0..3 for n-ary).  An independent typing
table (RULES below, written from the SMT-LIB signatures and the constructor docstrings)
says WELL(sort) or ILL.  ILL => the call must raise; a returned formula must have the
expected sort, according to both get_type() and the harness' own bottom-up re-derivation.
Part (b): every output of a transformation / parser on pools of well-typed formulas is
re-derived bottom-up and must carry the sort of its input.
"""
from itertools import product
from fractions import Fraction
import pysmt.operators as op
from pysmt.environment import Environment, push_env, pop_env
from ..core import profiles as P
from ..core import termio
from ..core.refsem import compile_term, reftype, IllTyped, Unsupported
from ..core.termio import INT, REAL, BOOL, STRING, sort_of, sort_str, mk_type
from ..core.runner import Result
from ..core import termgen

ILL = None
AII = ("Array", INT, INT)
AB2B = ("Array", ("BV", 2), BOOL)
S0 = ("Sort", "S", ())
FII = ("Fun", INT, (INT,))


def isbv(s):
    return isinstance(s, tuple) and s[0] == "BV"


def isterm(s):
    return not (isinstance(s, tuple) and s[0] == "Fun")


# ---- typing rules: rule(sorts, nodes) -> expected sort or ILL ------------------------------

def r_all(sort_in, sort_out, lo=0, hi=99):
    def r(ss, ns):
        return sort_out if lo <= len(ss) <= hi and all(s == sort_in for s in ss) else ILL
    return r


def r_sig(*sig_out):
    sig, out = tuple(sig_out[:-1]), sig_out[-1]

    def r(ss, ns):
        return out if tuple(ss) == sig else ILL
    return r


def r_arith_nary(lo):
    def r(ss, ns):
        if len(ss) >= lo and ss[0] in (INT, REAL) and all(s == ss[0] for s in ss):
            return ss[0]
        return ILL
    return r


def r_arith_rel(ss, ns):
    return BOOL if len(ss) == 2 and ss[0] in (INT, REAL) and ss[0] == ss[1] else ILL


def r_minus(ss, ns):
    return ss[0] if len(ss) == 2 and ss[0] in (INT, REAL) and ss[0] == ss[1] else ILL


def r_pow(ss, ns):
    if len(ss) == 2 and ss[0] in (INT, REAL) and ss[0] == ss[1] and ns[1].node_type() in (
            op.INT_CONSTANT, op.REAL_CONSTANT):
        return REAL
    return ILL


def r_equals(ss, ns):
    return BOOL if len(ss) == 2 and ss[0] == ss[1] and ss[0] != BOOL and isterm(ss[0]) else ILL


def r_equals_or_iff(ss, ns):
    return BOOL if len(ss) == 2 and ss[0] == ss[1] and isterm(ss[0]) else ILL


def r_ite(ss, ns):
    return ss[1] if len(ss) == 3 and ss[0] == BOOL and ss[1] == ss[2] and isterm(ss[1]) else ILL


def r_toreal(ss, ns):
    return REAL if len(ss) == 1 and ss[0] in (INT, REAL) else ILL


def r_minmax(ss, ns):
    return ss[0] if len(ss) >= 1 and ss[0] in (INT, REAL) and all(s == ss[0] for s in ss) else ILL


def r_alldiff(ss, ns):
    if all(isterm(s) for s in ss) and all(s == ss[0] for s in ss):
        return BOOL
    return ILL


def r_bv_un(ss, ns):
    return ss[0] if len(ss) == 1 and isbv(ss[0]) else ILL


def r_bv_bin(ss, ns):
    return ss[0] if len(ss) == 2 and isbv(ss[0]) and ss[0] == ss[1] else ILL


def r_bv_nary(ss, ns):
    return ss[0] if len(ss) >= 1 and isbv(ss[0]) and all(s == ss[0] for s in ss) else ILL


def r_bv_rel(ss, ns):
    return BOOL if len(ss) == 2 and isbv(ss[0]) and ss[0] == ss[1] else ILL


def r_bv_concat(ss, ns):
    if len(ss) >= 1 and all(isbv(s) for s in ss):
        return ("BV", sum(s[1] for s in ss))
    return ILL


def r_bv_comp(ss, ns):
    return ("BV", 1) if len(ss) == 2 and isbv(ss[0]) and ss[0] == ss[1] else ILL


def r_bv2nat(ss, ns):
    return INT if len(ss) == 1 and isbv(ss[0]) else ILL


def r_select(ss, ns):
    if len(ss) == 2 and isinstance(ss[0], tuple) and ss[0][0] == "Array" and ss[0][1] == ss[1]:
        return ss[0][2]
    return ILL


def r_store(ss, ns):
    if len(ss) == 3 and isinstance(ss[0], tuple) and ss[0][0] == "Array" and ss[0][1] == ss[1] \
            and ss[0][2] == ss[2]:
        return ss[0]
    return ILL


def r_minmaxbv(ss, ns):
    return ss[0] if len(ss) >= 1 and isbv(ss[0]) and all(s == ss[0] for s in ss) else ILL


# name -> (builder(m, *args), arities to try, rule)
def constructors():
    C = {}

    def add(name, fn, arities, rule):
        C[name] = (fn, arities, rule)
    nary = (0, 1, 2, 3)
    add("Not", lambda m, *a: m.Not(*a), (0, 1, 2), r_all(BOOL, BOOL, 1, 1))
    add("And", lambda m, *a: m.And(*a), nary, r_all(BOOL, BOOL))
    add("Or", lambda m, *a: m.Or(*a), nary, r_all(BOOL, BOOL))
    add("And[list]", lambda m, *a: m.And(list(a)), nary, r_all(BOOL, BOOL))
    add("Implies", lambda m, *a: m.Implies(*a), (1, 2, 3), r_all(BOOL, BOOL, 2, 2))
    add("Iff", lambda m, *a: m.Iff(*a), (1, 2, 3), r_all(BOOL, BOOL, 2, 2))
    add("Xor", lambda m, *a: m.Xor(*a), (1, 2, 3), r_all(BOOL, BOOL, 2, 2))
    add("AtMostOne", lambda m, *a: m.AtMostOne(*a), nary, r_all(BOOL, BOOL))
    add("ExactlyOne", lambda m, *a: m.ExactlyOne(*a), nary, r_all(BOOL, BOOL))
    add("AllDifferent", lambda m, *a: m.AllDifferent(*a), nary, r_alldiff)
    add("Ite", lambda m, *a: m.Ite(*a), (2, 3, 4), r_ite)
    add("Equals", lambda m, *a: m.Equals(*a), (1, 2, 3), r_equals)
    add("NotEquals", lambda m, *a: m.NotEquals(*a), (1, 2, 3), r_equals)
    add("EqualsOrIff", lambda m, *a: m.EqualsOrIff(*a), (1, 2, 3), r_equals_or_iff)
    add("Plus", lambda m, *a: m.Plus(*a), nary, r_arith_nary(1))
    add("Times", lambda m, *a: m.Times(*a), nary, r_arith_nary(1))
    add("Plus[list]", lambda m, *a: m.Plus(list(a)), nary, r_arith_nary(1))
    add("Minus", lambda m, *a: m.Minus(*a), (1, 2, 3), r_minus)
    add("Div", lambda m, *a: m.Div(*a), (1, 2, 3), r_minus)
    add("Pow", lambda m, *a: m.Pow(*a), (1, 2, 3), r_pow)
    for nm in ("LE", "LT", "GE", "GT"):
        add(nm, (lambda nm: lambda m, *a: getattr(m, nm)(*a))(nm), (1, 2, 3), r_arith_rel)
    add("ToReal", lambda m, *a: m.ToReal(*a), (0, 1, 2), r_toreal)
    add("Min", lambda m, *a: m.Min(*a), (1, 2, 3), r_minmax)
    add("Max", lambda m, *a: m.Max(*a), (1, 2, 3), r_minmax)
    add("MinBV[u]", lambda m, *a: m.MinBV(False, *a), (1, 2, 3), r_minmaxbv)
    add("MaxBV[s]", lambda m, *a: m.MaxBV(True, *a), (1, 2, 3), r_minmaxbv)
    for nm in ("BVNot", "BVNeg"):
        add(nm, (lambda nm: lambda m, *a: getattr(m, nm)(*a))(nm), (0, 1, 2), r_bv_un)
    for nm in ("BVXor", "BVSub", "BVUDiv", "BVURem", "BVSDiv", "BVSRem", "BVLShl", "BVLShr", "BVAShr",
               "BVNand", "BVNor", "BVXnor", "BVSMod"):
        add(nm, (lambda nm: lambda m, *a: getattr(m, nm)(*a))(nm), (1, 2, 3), r_bv_bin)
    for nm in ("BVAnd", "BVOr", "BVAdd", "BVMul"):
        add(nm, (lambda nm: lambda m, *a: getattr(m, nm)(*a))(nm), (1, 2, 3), r_bv_nary)
    add("BVConcat", lambda m, *a: m.BVConcat(*a), (1, 2, 3), r_bv_concat)
    for nm in ("BVULT", "BVULE", "BVUGT", "BVUGE", "BVSLT", "BVSLE", "BVSGT", "BVSGE"):
        add(nm, (lambda nm: lambda m, *a: getattr(m, nm)(*a))(nm), (1, 2, 3), r_bv_rel)
    add("BVComp", lambda m, *a: m.BVComp(*a), (1, 2, 3), r_bv_comp)
    add("BVToNatural", lambda m, *a: m.BVToNatural(*a), (0, 1, 2), r_bv2nat)
    S, I = STRING, INT
    add("StrLength", lambda m, *a: m.StrLength(*a), (0, 1, 2), r_sig(S, I))
    add("StrConcat", lambda m, *a: m.StrConcat(*a), (1, 2, 3), lambda ss, ns: S if len(ss) >= 1 and all(s == S for s in ss) else ILL)
    add("StrContains", lambda m, *a: m.StrContains(*a), (1, 2, 3), r_sig(S, S, BOOL))
    add("StrIndexOf", lambda m, *a: m.StrIndexOf(*a), (2, 3, 4), r_sig(S, S, I, I))
    add("StrReplace", lambda m, *a: m.StrReplace(*a), (2, 3, 4), r_sig(S, S, S, S))
    add("StrSubstr", lambda m, *a: m.StrSubstr(*a), (2, 3, 4), r_sig(S, I, I, S))
    add("StrPrefixOf", lambda m, *a: m.StrPrefixOf(*a), (1, 2, 3), r_sig(S, S, BOOL))
    add("StrSuffixOf", lambda m, *a: m.StrSuffixOf(*a), (1, 2, 3), r_sig(S, S, BOOL))
    add("StrToInt", lambda m, *a: m.StrToInt(*a), (0, 1, 2), r_sig(S, I))
    add("IntToStr", lambda m, *a: m.IntToStr(*a), (0, 1, 2), r_sig(I, S))
    add("StrCharAt", lambda m, *a: m.StrCharAt(*a), (1, 2, 3), r_sig(S, I, S))
    add("Select", lambda m, *a: m.Select(*a), (1, 2, 3), r_select)
    add("Store", lambda m, *a: m.Store(*a), (2, 3, 4), r_store)
    return C


def pool(env, full):
    """[(sort, node)] one or two inhabitants of every sort"""
    m = env.formula_manager
    out = []

    def sym(n, s):
        out.append((s, m.Symbol(n, mk_type(env, s))))
    sym("pa", BOOL)
    out.append((BOOL, m.TRUE()))
    sym("px", INT)
    out.append((INT, m.Int(2)))
    out.append((INT, m.Int(1)))
    sym("pr", REAL)
    out.append((REAL, m.Real((1, 2))))
    out.append((REAL, m.Real(1)))
    sym("pu1", ("BV", 1))
    sym("pu2", ("BV", 2))
    out.append((("BV", 2), m.BV(2, 2)))
    sym("ps", STRING)
    sym("pA", AII)
    sym("pf", FII)
    # a user-declared sort that merely shares its name with a built-in one is a different sort
    sym("puI", ("Sort", "Int", ()))
    if full:
        sym("puB", ("Sort", "Bool", ()))
        sym("puR", ("Sort", "Real", ()))
        out.append((INT, m.Int(0)))
        out.append((REAL, m.Real(0)))
        sym("pu3", ("BV", 3))
        out.append((STRING, m.String("ab")))
        sym("pB", AB2B)
        out.append((AII, m.Array(mk_type(env, INT), m.Int(0))))
        sym("pc", S0)
        sym("pAA", ("Array", INT, AII))
    return out


def sig_sort(s):
    return sort_str(s)


def check_app(env, res, name, fn, rule, tup):
    m = env.formula_manager
    sorts = [t[0] for t in tup]
    nodes = [t[1] for t in tup]
    want = rule(sorts, nodes)
    res.count("evaluations")
    try:
        g = fn(m, *nodes)
    except Exception as e:
        if want is ILL:
            # the same application attempted again must be refused again
            try:
                g2 = fn(m, *nodes)
            except Exception:
                g2 = None
            if g2 is not None:
                res.outcome("ill:ACCEPTED-on-second-attempt")
                res.violation("ctor", "ctor:%s(%s):accepted-ill-typed-on-retry" % (name, ",".join(sig_sort(s_) for s_ in sorts)),
                              "%s(%s) over sorts (%s) is refused the first time but the second identical call returns %s"
                              % (name, ", ".join(termio.short(termio.dump(n)) for n in nodes),
                                 ", ".join(sig_sort(s_) for s_ in sorts), termio.short(termio.dump(g2))),
                              {"ctor": name, "args": [termio.dump(n) for n in nodes], "retry": True})
                return
            res.outcome("ill:raised")
            res.count("nontrivial")
        else:
            res.outcome("well:raised")   # rejecting a valid application is outside C03
            res.count("welltyped_rejected")
            res.notes.append("well-typed but refused: %s(%s): %r" % (
                name, ", ".join(termio.short(termio.dump(n)) for n in nodes), e))
        return
    case = {"ctor": name, "args": [termio.dump(n) for n in nodes]}
    sig = "ctor:%s(%s)" % (name, ",".join(sig_sort(s) for s in sorts))
    if want is ILL:
        res.outcome("ill:ACCEPTED")
        res.violation("ctor", sig + ":accepted-ill-typed",
                      "%s(%s) over sorts (%s) is ill-typed but returned %s"
                      % (name, ", ".join(termio.short(termio.dump(n)) for n in nodes),
                         ", ".join(sig_sort(s) for s in sorts), termio.short(termio.dump(g))), case)
        return
    res.outcome("well:returned")
    res.count("nontrivial")
    res.sample({"ctor": name, "args": [termio.short(termio.dump(n)) for n in nodes],
                "sort": sig_sort(want)}, limit=3)
    try:
        got = sort_of(g.get_type())
        own = reftype(g)
    except Exception as e:
        res.violation("ctor", sig + ":wrong-type", "%s: result %s cannot be typed: %r"
                      % (sig, termio.short(termio.dump(g)), e), case)
        return
    if got != want or own != want:
        res.violation("ctor", sig + ":wrong-type",
                      "%s returned %s with get_type()=%s, re-derived %s, expected %s"
                      % (sig, termio.short(termio.dump(g)), sig_sort(got), sig_sort(own), sig_sort(want)), case)


def run_ctor_shard(args):
    names, full, seed = args
    res = Result()
    env = Environment()
    push_env(env)
    try:
        C = constructors()
        pl = pool(env, full)
        small = pool(env, False)
        for name in names:
            if name == "%indexed":
                continue
            fn, arities, rule = C[name]
            for k in arities:
                pk = pl if k <= 2 or (full and k == 3) else small
                if k >= 4:
                    pk = [t for t in small if t[1].is_symbol()]
                for tup in product(pk, repeat=k):
                    check_app(env, res, name, fn, rule, tup)
        if "%indexed" in names:
            indexed_cases(env, res, pl)
    finally:
        pop_env()
    return res


def indexed_cases(env, res, pl):
    """constructors with integer parameters / special argument shapes"""
    m = env.formula_manager

    def app(name, fn, want, nodes, extra):
        def rule(ss, ns):
            return want
        check_app(env, res, "%s[%s]" % (name, extra), lambda m, *a: fn(*a), rule, nodes)
    for s, n in pl:
        w = s[1] if isbv(s) else None
        for lo in range(-1, 4):
            for hi in range(-1, 4):
                ok = w is not None and 0 <= lo <= hi < w
                app("BVExtract", lambda x, lo=lo, hi=hi: m.BVExtract(x, lo, hi),
                    ("BV", hi - lo + 1) if ok else ILL, [(s, n)], "%d:%d" % (lo, hi))
        for k in range(-1, 5):
            # pySMT documents rotations only for 0 <= k <= width: larger steps may be refused
            for nm, f in (("BVRol", m.BVRol), ("BVRor", m.BVRor)):
                app(nm, lambda x, k=k, f=f: f(x, k), s if (w is not None and k >= 0) else ILL, [(s, n)], str(k))
            for nm, f in (("BVZExt", m.BVZExt), ("BVSExt", m.BVSExt)):
                app(nm, lambda x, k=k, f=f: f(x, k), ("BV", w + k) if (w is not None and k >= 0) else ILL,
                    [(s, n)], str(k))
            app("BVRepeat", lambda x, k=k: m.BVRepeat(x, k), ("BV", w * k) if (w is not None and k >= 1) else ILL,
                [(s, n)], str(k))
            for nm, f in (("BVLShl", m.BVLShl), ("BVLShr", m.BVLShr)):
                ok = w is not None and 0 <= k < (1 << w)
                app(nm + "/int", lambda x, k=k, f=f: f(x, k), s if ok else ILL, [(s, n)], str(k))
    # quantifiers
    for bs, body in pl:
        for vs, v in pl:
            for Q, qn in ((m.ForAll, "ForAll"), (m.Exists, "Exists")):
                ok = bs == BOOL and v.is_symbol() and isterm(vs)
                app(qn, lambda b, x, Q=Q: Q([x], b), BOOL if ok else ILL, [(bs, body), (vs, v)], "1var")
        app("ForAll", lambda b: m.ForAll([], b), bs if bs == BOOL else ILL, [(bs, body)], "0vars")
    # binder lists of two entries: every entry must be a variable (a symbol that is a term), whatever the other is
    bodies = [(bs, body) for bs, body in pl if bs == BOOL][:2]
    for bs, body in bodies:
        for vs, v in pl:
            for ws, w in pl:
                for Q, qn in ((m.ForAll, "ForAll"), (m.Exists, "Exists")):
                    ok = v.is_symbol() and isterm(vs) and w.is_symbol() and isterm(ws)
                    app(qn, lambda b, x, y, Q=Q: Q([x, y], b), BOOL if ok else ILL, [(bs, body), (vs, v), (ws, w)], "2vars")
    # function application
    fsyms = [(FII, m.Symbol("pf", mk_type(env, FII))),
             (("Fun", BOOL, (INT, ("BV", 2))), m.Symbol("pq", mk_type(env, ("Fun", BOOL, (INT, ("BV", 2))))))]
    for fs, f in fsyms:
        for k in (0, 1, 2, 3):
            for tup in product(pl, repeat=k):
                if k == 3 and not all(t[1].is_symbol() for t in tup):
                    continue
                ss = tuple(t[0] for t in tup)
                want = fs[1] if ss == fs[2] else ILL
                if k == 0:
                    want = fs   # documented: applying to no arguments returns the symbol itself
                app("Function", lambda *a, f=f: m.Function(f, list(a)), want, list(tup), f.symbol_name())
    # applying a non-function symbol
    for s, n in pl:
        if n.is_symbol() and isterm(s):
            app("Function", lambda a, n=n: m.Function(n, [a]), ILL, [(INT, m.Int(1))], "nonfun:" + sig_sort(s))
    # array values
    for ds, d in pl:
        for ks, k in pl:
            for vs, v in pl:
                ok = k.is_constant() and ks in (INT, REAL, BOOL, STRING, ("BV", 2)) and vs == ds and isterm(ds)
                for its in (INT, ("BV", 2)):
                    app("Array", lambda d_, k_, v_, its=its: m.Array(mk_type(env, its), d_, {k_: v_}),
                        ("Array", its, ds) if (ok and ks == its) else ILL, [(ds, d), (ks, k), (vs, v)], sig_sort(its))
    # constants
    for w in (1, 2, 3):
        for v in range(-5, 10):
            okb = 0 <= v < (1 << w)
            oks = -(1 << (w - 1)) <= v < (1 << (w - 1))
            app("BV", lambda v=v, w=w: m.BV(v, w), ("BV", w) if okb else ILL, [], "%d,%d" % (v, w))
            app("SBV", lambda v=v, w=w: m.SBV(v, w), ("BV", w) if oks else ILL, [], "%d,%d" % (v, w))
    for bad in (1.5, "1", None, (1, 2)):
        app("Int", lambda bad=bad: m.Int(bad), ILL, [], repr(bad))
    for bad in ("1", None, "a"):
        app("Real", lambda bad=bad: m.Real(bad), ILL, [], repr(bad))
    for bad in (1, None, "2"):
        app("Bool", lambda bad=bad: m.Bool(bad), ILL, [], repr(bad))
        app("String", lambda bad=bad: m.String(bad) if not isinstance(bad, str) else m.Int("x"), ILL, [], repr(bad))
    for w in (0, -1):
        app("BV", lambda w=w: m.BV(0, w), ILL, [], "width%d" % w)


# ---- part (b): transformations ----------------------------------------------------------

def transformations(env):
    from pysmt.rewritings import (nnf, prenex_normal_form, aig, cnf, conjunctive_partition,
                                  disjunctive_partition, TimesDistributor, Ackermannizer,
                                  propagate_toplevel)
    from pysmt.solvers.qelim import ShannonQuantifierEliminator, SelfSubstitutionQuantifierEliminator
    m = env.formula_manager
    T = []
    T.append(("simplify", None, lambda f: f.simplify()))
    T.append(("nnf", BOOL, lambda f: nnf(f, env)))
    T.append(("prenex", BOOL, lambda f: prenex_normal_form(f, env)))
    T.append(("aig", BOOL, lambda f: aig(f, env)))
    T.append(("cnf", BOOL, lambda f: cnf(f, env)))
    T.append(("conj_part", BOOL, lambda f: m.And(list(conjunctive_partition(f)))))
    T.append(("disj_part", BOOL, lambda f: m.Or(list(disjunctive_partition(f)))))
    T.append(("times_dist", None, lambda f: TimesDistributor(env).walk(f)))
    T.append(("ackermann", BOOL, lambda f: Ackermannizer(env).do_ackermannization(f)))
    T.append(("propagate", BOOL, lambda f: propagate_toplevel(f, env=env)))
    T.append(("normalize", None, lambda f: m.normalize(f)))
    T.append(("hr_roundtrip", None, lambda f: _hr(env, f)))
    T.append(("smtlib_roundtrip", None, lambda f: _smt(env, f)))
    T.append(("qelim_shannon", BOOL, lambda f: ShannonQuantifierEliminator(env).eliminate_quantifiers(f)))
    T.append(("qelim_selfsub", BOOL, lambda f: SelfSubstitutionQuantifierEliminator(env).eliminate_quantifiers(f)))
    return T


def _hr(env, f):
    from pysmt.parsing import HRParser
    return HRParser(env).parse(f.serialize())


def _smt(env, f):
    from io import StringIO
    from pysmt.smtlib.parser import SmtLibParser
    from pysmt.smtlib.script import smtlibscript_from_formula
    m = env.formula_manager
    wrapped = f
    if not f.get_type().is_bool_type():
        # only Boolean terms can be asserted: ship the term as the left side of an equality
        wrapped = m.Equals(f, m.Symbol("rt!%s" % f.get_type(), f.get_type()))
    buf = StringIO()
    smtlibscript_from_formula(wrapped).serialize(buf, daggify=True)
    g = SmtLibParser(env).get_script(StringIO(buf.getvalue())).get_last_formula()
    if wrapped is not f:
        if not g.is_equals():
            raise ValueError("round trip of an equality is not an equality")
        return g.arg(0)
    return g


def _tr_parts(quick):
    return [
        ("bool", lambda e: P.bool_profile(e, 2, nary3=False, consts=(True,)), 2, 6000 if quick else 60000),
        ("lia", lambda e: P.lia_profile(e, consts=(0, 1, -1), big=False), 1, None),
        ("lia2", lambda e: P.lia_profile(e, consts=(0, 2), big=False, nsyms=1, pow_=False), 2,
         2000 if quick else None),
        # powers and divisions of ground non-constant terms (folded only during simplification)
        ("lia-pow", lambda e: P.lia_profile(e, consts=(1, 2), big=False, nsyms=1), 2, None,
         {1: ("plus", "minus", "times", "ite", "pow0", "pow2", "div"),
          2: ("pow0", "pow1", "pow2", "pow-1", "div", "plus", "eq", "le", "ite")}),
        ("lra-pow", lambda e: P.lra_profile(e, consts=(1, Fraction(1, 2)), nsyms=1), 2, None,
         {1: ("plus", "minus", "times", "pow2", "div"),
          2: ("pow0", "pow2", "pow-1", "div", "plus", "eq", "le")}),
        ("lra", lambda e: P.lra_profile(e, consts=(0, 1)), 1, None),
        ("lira", P.lira_profile, 1, None),
        ("bv", lambda e: P.bv_profile(e, (1, 2), nsyms=1), 1, None),
        ("str", lambda e: P.str_profile(e, strs=("", "ab"), ints=(0, 1)), 1, None),
        ("arr", lambda e: P.arr_profile(e, INT, INT), 1, None),
        ("arrbv", lambda e: P.arr_profile(e, ("BV", 2), BOOL), 1, None),
        ("uf", P.uf_profile, 2, 3000 if quick else None),
        ("quant", P.quant_profile, 2, 4000 if quick else 40000),
        # cross-theory terms (children of another theory below every operator)
        ("mixed", lambda e: P.mixed_profile(e, quant=True), 2, 3000 if quick else 30000),
    ]


def run_transform_shard(args):
    pname, idx, nsh, quick = args
    res = Result()
    env = Environment()
    push_env(env)
    try:
        prof = [p for p in _tr_parts(quick) if p[0] == pname][0]
        profile = prof[1](env)
        depth = prof[2]
        obl = None
        if len(prof) > 4:
            obl = {d: [o for o in profile.ops if o.name in names] for d, names in prof[4].items()}
        terms = termgen.flatten(termgen.levels(profile, depth, obl))
        if prof[3] is not None and len(terms) > prof[3]:
            # deterministic thinning of the deepest level: every k-th term (all lower levels kept)
            keep = termgen.flatten(termgen.levels(profile, depth - 1))
            rest = terms[len(keep):]
            step = max(1, len(rest) // (prof[3] - len(keep)) if prof[3] > len(keep) else len(rest))
            terms = keep + rest[::step]
            res.count("thinned_parts")
        T = transformations(env)
        cm = {}
        for i, f in enumerate(terms):
            if i % nsh != idx:
                continue
            try:
                sf = compile_term(f, cm)[0]
            except Exception as e:
                res.violation("pool", "pool:ill-typed", "pool term %s is ill-typed for the harness: %r"
                              % (termio.short(termio.dump(f)), e), {"term": termio.dump(f)})
                continue
            for tn, need, tf in T:
                if need is not None and sf != need:
                    continue
                res.count("evaluations")
                try:
                    g = tf(f)
                except Exception as e:
                    res.outcome("%s:raised" % tn)
                    continue
                if g is not f:
                    res.count("nontrivial")
                res.outcome("%s:%s" % (tn, "changed" if g is not f else "same"))
                bad = None
                try:
                    sg = compile_term(g, {})[0]
                    tg = sort_of(g.get_type())
                    if sg != sf:
                        bad = "sort %s became %s" % (sort_str(sf), sort_str(sg))
                    elif tg != sg:
                        bad = "get_type() says %s, re-derived %s" % (sort_str(tg), sort_str(sg))
                except (IllTyped, Unsupported) as e:
                    bad = "result is not well-typed: %s" % e
                except Exception as e:
                    bad = "get_type raised %r" % (e,)
                if bad:
                    res.violation("transform", "transform:%s:%s:type" % (tn, op.op_to_str(f.node_type())),
                                  "%s(%s) = %s: %s" % (tn, termio.short(termio.dump(f)),
                                                       termio.short(termio.dump(g)), bad),
                                  {"transform": tn, "term": termio.dump(f)})
    finally:
        pop_env()
    return res


def run(ctx):
    ctx.level = "exploration"
    ctx.rule = ("(a) every public constructor x every argument tuple over a pool of one or two inhabitants "
                "per sort x arities n-1..n+1 (0..3 for n-ary) plus indexed/parameterised constructors over "
                "in- and out-of-range parameters; non-trivial = the outcome is decided by the typing table "
                "(ill-typed and refused, or well-typed and returned with its sort re-derived); "
                "(b) every transformation/parser x every pool term; non-trivial = output differs from input")
    ctx.assumptions = ["the typing table in mc/props/c03.py (SMT-LIB signatures + constructor docstrings)",
                       "refusing a well-typed application is outside the statement and only counted"]
    full = not ctx.quick
    C = constructors()
    names = sorted(C)
    shards = [([n], full, ctx.seed) for n in names] + [(["%indexed"], full, ctx.seed)]
    ctx.rng.shuffle(shards)
    ctx.pmap(run_ctor_shard, shards)
    tsh = []
    for p in _tr_parts(ctx.quick):
        for i in range(8):
            tsh.append((p[0], i, 8, ctx.quick))
    ctx.pmap(run_transform_shard, tsh)
    ctx.coverage["constructors"] = len(names)


def replay(rec):
    env = Environment()
    push_env(env)
    try:
        case = rec["case"]
        res = Result()
        if "ctor" in case:
            C = constructors()
            name = case["ctor"]
            if name not in C:
                return True, "indexed case: re-run the quick check to reproduce (%s)" % rec["sig"]
            fn, _, rule = C[name]
            nodes = [termio.build(env, j) for j in case["args"]]
            tup = [(sort_of(n.get_type()) if not n.is_symbol() else sort_of(n.symbol_type()), n) for n in nodes]
            check_app(env, res, name, fn, rule, tup)
        else:
            f = termio.build(env, case["term"])
            for tn, need, tf in transformations(env):
                if tn == case["transform"]:
                    g = tf(f)
                    if reftype(g) != reftype(f):
                        return False, "%s changed the sort of %s" % (tn, termio.short(case["term"]))
        if res.violations:
            return False, res.violations[0]["msg"]
        return True, "case is handled according to the typing table"
    finally:
        pop_env()
