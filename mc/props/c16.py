"""C16 - scripts and incremental solvers track exactly the live assertions.

(a) SmtLibScript: every legal command sequence up to length L over assert / assert-soft
    (two ids, weights) / push 0-2 / pop 0-2 / reset-assertions / check-sat / objectives is
    built twice - through script.add and through the SMT-LIB parser - and
    get_last_formula(return_optimizations=True) is compared with an executable reference
    model of the SMT-LIB assertion stack.  Nothing is merged: the implementation replays the
    command list, so the whole tree of sequences is enumerated.
(b) IncrementalTrackingSolver (driven through the reference BruteSolver, which follows the
    protocol of the concrete solvers): breadth-first search over API histories with state
    merging on (implementation state, native solver state, reference state).
"""
import itertools
from io import StringIO
from pysmt.environment import Environment, push_env, pop_env
from pysmt.smtlib.script import SmtLibScript
import pysmt.smtlib.commands as C
from ..core.runner import Result
from ..core.termio import INT, BOOL, mk_type
from ..core.explorer import bfs, Outcome
from ..core.refsolver import BruteSolver, NativeError

# ---------------------------------------------------------------------------------------
# (a) scripts

# command alphabet (JSON-able tuples)
FULL = [("assert", "a"), ("assert", "b"), ("soft", "A", "a", 1), ("soft", "B", "b", 2), ("soft", "A", "b", 3),
        ("push", 0), ("push", 1), ("push", 2), ("push", 3), ("pop", 0), ("pop", 1), ("pop", 2), ("pop", 3), ("reset",), ("check",),
        ("max", "x", False), ("min", "y", True), ("minmax", ("x", "y"), False), ("maxmin", ("x", "y"), True)]
REDUCED = [("assert", "a"), ("soft", "A", "b", 2), ("push", 1), ("pop", 1), ("reset",)]
MEDIUM = [("assert", "a"), ("assert", "b"), ("soft", "A", "a", 1), ("soft", "B", "b", 2), ("push", 1), ("push", 2),
          ("pop", 1), ("pop", 2), ("reset",), ("max", "x", False)]


def ref_script(seq):
    """reference model: list of levels, each a list of items; None if the sequence is illegal"""
    levels = [[]]
    for c in seq:
        k = c[0]
        if k == "assert":
            levels[-1].append(("a", c[1]))
        elif k == "soft":
            levels[-1].append(("s", c[1], c[2], c[3]))
        elif k in ("max", "min", "minmax", "maxmin"):
            levels[-1].append(("g", k, c[1], c[2]))
        elif k == "push":
            for _ in range(c[1]):
                levels.append([])
        elif k == "pop":
            if c[1] > len(levels) - 1:
                return None
            for _ in range(c[1]):
                levels.pop()
        elif k == "reset":
            levels = [[]]
    items = [i for l in levels for i in l]
    asserts = [i[1] for i in items if i[0] == "a"]
    goals, pos = [], {}
    for i in items:
        if i[0] == "g":
            goals.append((i[1], i[2], i[3]))
        elif i[0] == "s":
            if i[1] not in pos:
                pos[i[1]] = len(goals)
                goals.append(("soft", [(i[2], i[3])]))
            else:
                goals[pos[i[1]]][1].append((i[2], i[3]))
    return asserts, goals


class ScriptWorld(object):
    def __init__(self):
        self.env = Environment()
        m = self.env.formula_manager
        self.m = m
        self.sym = {"a": m.Symbol("a", mk_type(self.env, BOOL)), "b": m.Symbol("b", mk_type(self.env, BOOL)),
                    "x": m.Symbol("x", mk_type(self.env, INT)), "y": m.Symbol("y", mk_type(self.env, INT))}

    def by_add(self, seq):
        m, S = self.m, self.sym
        s = SmtLibScript()
        for c in seq:
            k = c[0]
            if k == "assert":
                s.add(C.ASSERT, [S[c[1]]])
            elif k == "soft":
                s.add(C.ASSERT_SOFT, [S[c[2]], [(":weight", m.Int(c[3])), (":id", c[1])]])
            elif k == "max":
                s.add(C.MAXIMIZE, [S[c[1]], [(":signed", c[2])]])
            elif k == "min":
                s.add(C.MINIMIZE, [S[c[1]], [(":signed", c[2])]])
            elif k == "minmax":
                s.add(C.MINMAX, [[S[t] for t in c[1]], [(":signed", c[2])]])
            elif k == "maxmin":
                s.add(C.MAXMIN, [[S[t] for t in c[1]], [(":signed", c[2])]])
            elif k == "push":
                s.add(C.PUSH, [c[1]])
            elif k == "pop":
                s.add(C.POP, [c[1]])
            elif k == "reset":
                s.add(C.RESET_ASSERTIONS, [])
            elif k == "check":
                s.add(C.CHECK_SAT, [])
        return s

    def text(self, seq):
        out = ["(declare-fun a () Bool)", "(declare-fun b () Bool)", "(declare-fun x () Int)",
               "(declare-fun y () Int)"]
        for c in seq:
            k = c[0]
            if k == "assert":
                out.append("(assert %s)" % c[1])
            elif k == "soft":
                out.append("(assert-soft %s :weight %d :id %s)" % (c[2], c[3], c[1]))
            elif k in ("max", "min"):
                out.append("(%s %s%s)" % ("maximize" if k == "max" else "minimize", c[1],
                                          " :signed" if c[2] else ""))
            elif k in ("minmax", "maxmin"):
                out.append("(%s %s%s)" % (k, " ".join(c[1]), " :signed" if c[2] else ""))
            elif k == "push":
                out.append("(push %d)" % c[1])
            elif k == "pop":
                out.append("(pop %d)" % c[1])
            elif k == "reset":
                out.append("(reset-assertions)")
            elif k == "check":
                out.append("(check-sat)")
        return "\n".join(out)

    def by_parser(self, seq):
        from pysmt.smtlib.parser import SmtLibParser
        return SmtLibParser(self.env).get_script(StringIO(self.text(seq)))

    def compare(self, script, want):
        """None if get_last_formula agrees with the reference, else (kind, msg)"""
        m, S = self.m, self.sym
        asserts, goals = want
        try:
            f, gs = script.get_last_formula(mgr=m, return_optimizations=True)
            f2 = script.get_last_formula(mgr=m)
        except Exception as e:
            return ("exception", "get_last_formula raised %r on a legal script" % (e,))
        wantf = m.And([S[n] for n in asserts])
        if f is not wantf or f2 is not wantf:
            return ("assertions", "reported %s / %s, live assertions are %s" % (f, f2, wantf))
        if len(gs) != len(goals):
            return ("goals", "reported %d goals %r, live goals are %r" % (len(gs), gs, goals))
        for g, w in zip(gs, goals):
            if w[0] == "soft":
                if not g.is_maxsmt_goal():
                    return ("goals", "goal %r should be the soft-clause goal %r" % (g, w))
                got = [(c, wt.constant_value()) for c, wt in g.soft]
                exp = [(S[c], wt) for c, wt in w[1]]
                if len(got) != len(exp) or any(a[0] is not b[0] or a[1] != b[1] for a, b in zip(got, exp)):
                    return ("softclauses", "soft clauses %r, live ones are %r" % (g.soft, w[1]))
                # the objective the goal reports (what an optimizer maximises) is the weighted sum of the live
                # soft clauses: compared under every assignment of the clauses' symbols
                bad = self._objective_differs(g, w[1])
                if bad:
                    return ("objective", bad)
            else:
                kind, t, signed = w
                ok = {"max": g.is_maximization_goal() and not g.is_maxmin_goal() and not g.is_maxsmt_goal(),
                      "min": g.is_minimization_goal() and not g.is_minmax_goal(),
                      "minmax": g.is_minmax_goal(), "maxmin": g.is_maxmin_goal()}[kind]
                if not ok:
                    return ("goals", "goal %r should be %r" % (g, w))
                if kind in ("max", "min"):
                    if g.term() is not S[t]:
                        return ("goals", "goal term %s should be %s" % (g.term(), t))
                else:
                    if [x for x in g.terms] != [S[x] for x in t]:
                        return ("goals", "goal terms %r should be %r" % (g.terms, t))
                if bool(g.signed) != bool(signed):
                    return ("goals", "goal %r signedness should be %r" % (g, signed))
        return None


def _objective_differs(self, g, live):
    from fractions import Fraction
    from ..core.refsem import compile_term
    try:
        t = g.term()
    except Exception as e:
        return "goal.term() raised %r" % (e,)
    if t is None:
        return None if not live else "goal.term() is None although %d soft clauses are live" % len(live)
    fn = compile_term(t, {})[1]
    names = sorted(set(c for c, _ in live) | set(x.symbol_name() for x in t.get_free_variables()))
    for vals in itertools.product((False, True), repeat=len(names)):
        I = dict(zip(names, vals))
        want = sum(Fraction(wt) for c, wt in live if I[c])
        got = fn(I)
        if Fraction(got) != want:
            return "objective %s evaluates to %s under %r, the live soft clauses %r give %s" % (t, got, I, live, want)
    return None


ScriptWorld._objective_differs = _objective_differs


def script_sig(seq, kind):
    """shortest failing pattern: the command kinds with levels, no symbols"""
    def ab(c):
        if c[0] in ("push", "pop"):
            return "%s%d" % (c[0], c[1])
        if c[0] == "soft":
            return "soft" + c[1]
        return c[0]
    return "script:%s:%s" % ("→".join(ab(c) for c in seq), kind)


def minimise_script(world, seq, how):
    """drop commands while the sequence stays legal and still fails in the same way"""
    def fails(s):
        w = ref_script(s)
        if w is None:
            return None
        try:
            sc = world.by_add(s) if how == "add" else world.by_parser(s)
        except Exception as e:
            return ("exception", "building raised %r" % (e,))
        return world.compare(sc, w)
    cur = list(seq)
    r = fails(cur)
    changed = True
    while changed:
        changed = False
        for i in range(len(cur)):
            cand = cur[:i] + cur[i + 1:]
            r2 = fails(cand)
            if r2 and r2[0] == r[0]:
                cur, r, changed = cand, r2, True
                break
    return cur, r


def run_script_shard(args):
    alpha_name, L, prefix, seed = args
    alpha = {"full": FULL, "medium": MEDIUM, "reduced": REDUCED}[alpha_name]
    res = Result()
    world = ScriptWorld()
    push_env(world.env)
    try:
        rest = L - len(prefix)
        for tail in itertools.product(alpha, repeat=rest):
            seq = tuple(prefix) + tail
            # every *prefix-closed* legal sequence of length exactly L (shorter ones are
            # covered by the shards of smaller L)
            want = ref_script(seq)
            if want is None:
                res.count("illegal_skipped")
                continue
            res.count("evaluations")
            if any(c[0] in ("pop", "reset") for c in seq) and any(c[0] == "push" for c in seq):
                res.count("nontrivial")
            res.outcome("asserts=%d goals=%d" % (len(want[0]), len(want[1])))
            if len(seq) >= 3:
                res.sample({"part": "script", "commands": [list(c) for c in seq]}, limit=2)
            for how in ("add", "parser"):
                try:
                    sc = world.by_add(seq) if how == "add" else world.by_parser(seq)
                    bad = world.compare(sc, want)
                except Exception as e:
                    bad = ("exception", "building the script raised %r" % (e,))
                if bad:
                    mseq, mr = minimise_script(world, seq, how)
                    mr = mr or bad
                    res.violation("script", script_sig(mseq, mr[0]),
                                  "script [%s] built by %s: %s" % (" ".join(map(str, mseq)), how, mr[1]),
                                  {"part": "script", "how": how, "commands": [list(c) for c in mseq]})
                    break
    finally:
        pop_env()
    return res


# ---------------------------------------------------------------------------------------
# (b) incremental tracking solver

from pysmt.typing import INT as INT_T  # noqa: E402

FORMS = ("a", "na", "b")
SOLVER_EVENTS = ([("add", f) for f in FORMS] + [("push", 1), ("push", 2), ("push", 3), ("pop", 1), ("pop", 2), ("pop", 3), ("pop", 0),
                 ("push", 0), ("reset",),
                 ("solve",), ("solve_lit", "nb"), ("solve_nonlit", "a|b"), ("is_sat", "b"), ("is_valid", "a"),
                 ("is_unsat", "na"), ("read",), ("is_sat_bad", "type"), ("is_sat_bad", "refused"),
                 ("is_sat_bad", "unknown"), ("add_bad", "refused")])
SOLVER_EVENTS_QUICK = ([("add", "a"), ("add", "na"), ("push", 1), ("push", 2), ("push", 3), ("pop", 1), ("pop", 2), ("pop", 3), ("pop", 0),
                        ("push", 0), ("reset",),
                        ("solve",), ("solve_nonlit", "a|b"), ("is_sat", "b"), ("is_valid", "a"), ("read",), ("is_sat_bad", "type"),
                        ("is_sat_bad", "refused"), ("is_sat_bad", "unknown")])


def _forms(env):
    m = env.formula_manager
    a, b = m.Symbol("a"), m.Symbol("b")
    return {"a": a, "na": m.Not(a), "b": b, "nb": m.Not(b), "a|b": m.Or(a, b)}


def _truth(forms, names):
    """brute-force satisfiability of a conjunction of named formulas over a, b"""
    import itertools as it
    for va, vb in it.product((False, True), repeat=2):
        val = {"a": va, "na": not va, "b": vb, "nb": not vb, "a|b": va or vb}
        if all(val[n] for n in names):
            return True
    return False


def run_solver_history_nomodels(hist):
    return run_solver_history(hist, {"generate_models": False})


_CUR_OPTS = [None]


def run_solver_history(hist, opts=None):
    _CUR_OPTS[0] = opts
    env = Environment()
    push_env(env)
    try:
        F = _forms(env)
        # a second solver object is alive during the whole history (one assertion, one open level): neither object
        # may see the other's assertions or levels, and a new object starts empty
        other = BruteSolver(env, **(opts or {}))
        if list(other.assertions) or other._backtrack_points:
            return Outcome(violation=("solver:new-object:not-empty", "a new solver object reports assertions %r / levels %r"
                                      % (list(other.assertions), list(other._backtrack_points))))
        other.add_assertion(F["b"])
        other.push()
        solver = BruteSolver(env, **(opts or {}))
        m_int = env.formula_manager.Plus(env.formula_manager.Symbol("c16i", INT_T), env.formula_manager.Int(1))
        refused = env.formula_manager.Symbol("c16refused")
        solver.raise_on = set(getattr(solver, "raise_on", ())) | {refused}
        unk = env.formula_manager.Symbol("c16unknown")
        solver.unknown_on = set(getattr(solver, "unknown_on", ())) | {unk}
        levels = [[]]     # reference model: names
        viol = None
        obs = None
        for i, ev in enumerate(hist):
            last = (i == len(hist) - 1)
            k = ev[0]
            live = [n for l in levels for n in l]
            try:
                if k == "add":
                    solver.add_assertion(F[ev[1]])
                    levels[-1].append(ev[1])
                elif k == "push":
                    solver.push(ev[1])
                    for _ in range(ev[1]):
                        levels.append([])
                elif k == "pop":
                    if ev[1] > len(levels) - 1:
                        return Outcome(legal=False)
                    solver.pop(ev[1])
                    for _ in range(ev[1]):
                        levels.pop()
                elif k == "reset":
                    solver.reset_assertions()
                    levels = [[]]
                elif k in ("solve", "solve_lit", "solve_nonlit"):
                    extra = [] if k == "solve" else [ev[1]]
                    r = solver.solve([F[n] for n in extra] if extra else None)
                    want = _truth(F, live + extra)
                    obs = "%s=%s" % (k, r)
                    if r != want:
                        viol = ("verdict", "%s returned %r, brute force says %r" % (k, r, want))
                elif k in ("is_sat", "is_valid", "is_unsat"):
                    r = getattr(solver, k)(F[ev[1]])
                    if k == "is_sat":
                        want = _truth(F, live + [ev[1]])
                    elif k == "is_unsat":
                        want = not _truth(F, live + [ev[1]])
                    else:
                        neg = {"a": "na", "na": "a"}[ev[1]]
                        want = not _truth(F, live + [neg])
                    obs = "%s=%s" % (k, r)
                    if r != want:
                        viol = ("verdict", "%s(%s) returned %r, brute force says %r" % (k, ev[1], r, want))
                elif k in ("is_sat_bad", "add_bad"):
                    # a call the back-end refuses while the formula is being asserted: it raises and the
                    # live assertions (checked below in every state) are those of before
                    # ("unknown": the assertion is accepted and the check gives up)
                    arg = {"type": m_int, "refused": refused, "unknown": unk}[ev[1]]
                    try:
                        if k == "is_sat_bad":
                            solver.is_sat(arg)
                        else:
                            solver.add_assertion(arg)
                    except NativeError:
                        raise
                    except Exception as e:
                        obs = "%s:%s" % (k, type(e).__name__)
                    else:
                        viol = ("accepted", "%s(%s) did not raise" % (k, ev[1]))
                elif k == "read":
                    got = list(solver.assertions)
                    exp = [F[n] for n in live]
                    if got != exp:
                        viol = ("assertions", "assertions %r, live ones are %r" % (got, exp))
            except NativeError as e:
                viol = ("native", "the underlying solver rejected the command stream: %s" % e)
            except Exception as e:
                viol = ("exception", "%s raised %r on a legal history" % (k, e))
            if viol:
                if not last:
                    # a proper prefix already fails: reported where it is the last event
                    return Outcome(legal=False)
                return Outcome(violation=(hist_sig(hist, viol[0]), "history %s: %s" % (list(hist), viol[1])))
        # canonical fingerprint BEFORE the final observation (which clears a pending pop)
        canon = (tuple(id_name(F, x) for x in solver._assertion_stack), tuple(solver._backtrack_points),
                 solver.pending_pop, tuple(tuple(id_name(F, x) for x in l) for l in solver.native.levels),
                 tuple(tuple(l) for l in levels))
        # invariant in every state: the getter reports the live list; the native solver holds it too
        live = [n for l in levels for n in l]
        try:
            got = list(solver.assertions)
            nat = solver.native.live()
            ndepth = solver.native.depth()
        except Exception as e:
            return Outcome(violation=(hist_sig(hist, "exception"), "history %s: reading assertions raised %r" % (list(hist), e)))
        exp = [F[n] for n in live]
        if got != exp:
            return Outcome(violation=(hist_sig(hist, "assertions"),
                                      "history %s: assertions %r but the live ones are %r" % (list(hist), got, exp)))
        try:
            oa = list(other.assertions)
            od = other.native.depth()
        except Exception as e:
            return Outcome(violation=(hist_sig(hist, "other-object"), "history %s: the second solver object raised %r" % (list(hist), e)))
        if oa != [F["b"]] or od != 1:
            return Outcome(violation=(hist_sig(hist, "other-object"),
                                      "history %s on one solver object changed another one: it reports %r at depth %d instead of "
                                      "[b] at depth 1" % (list(hist), oa, od)))
        if nat != exp or ndepth != len(levels) - 1:
            return Outcome(violation=(hist_sig(hist, "native"),
                                      "history %s: the underlying solver holds %r at depth %d, live %r at depth %d"
                                      % (list(hist), nat, ndepth, exp, len(levels) - 1)))
        return Outcome(canon=canon, obs=obs)
    finally:
        pop_env()


def id_name(F, x):
    for n, f in F.items():
        if f is x:
            return n
    return str(x)


def hist_sig(hist, kind):
    # minimise: drop events while the failure kind persists
    cur = list(hist)
    opts = _CUR_OPTS[0]

    def fails(h):
        o = run_solver_history(tuple(h), opts)
        if o.violation and o.violation[0].endswith(":" + kind):
            return True
        return False
    if _MINIMISING[0]:
        return "solver:%s:%s" % ("→".join(_ab(e) for e in cur), kind)
    _MINIMISING[0] = True
    try:
        changed = True
        while changed:
            changed = False
            for i in range(len(cur) - 1):   # keep the last (failing) event
                cand = cur[:i] + cur[i + 1:]
                if fails(cand):
                    cur, changed = cand, True
                    break
    finally:
        _MINIMISING[0] = False
        _CUR_OPTS[0] = opts
    return "solver%s:%s:%s" % ("[nomodels]" if opts else "", "→".join(_ab(e) for e in cur), kind)


_MINIMISING = [False]


def _ab(e):
    if e[0] in ("push", "pop"):
        return "%s%d" % (e[0], e[1])
    return e[0]


def run(ctx):
    ctx.level = "model_checking"
    ctx.rule = ("(a) every legal command sequence of each length up to L over the script alphabet, built "
                "through script.add and through the parser, compared with an executable model of the SMT-LIB "
                "assertion stack (non-trivial: contains a push and a pop/reset); (b) breadth-first search over "
                "solver API histories with states merged on (tracked stack, backtrack points, pending pop, native "
                "solver levels, reference levels); a state is non-trivial when it is new")
    ctx.assumptions = ["reference assertion-stack model in mc/props/c16.py",
                       "BruteSolver (mc/core/refsolver.py) drives a strict native stack the way Z3Solver drives z3"]
    q = ctx.quick
    shards = []
    plan = [("full", 4 if q else 5), ("medium", 5 if q else 6), ("reduced", 8 if q else 10)]
    for alpha_name, L in plan:
        alpha = {"full": FULL, "medium": MEDIUM, "reduced": REDUCED}[alpha_name]
        for l in range(1, L + 1):
            if l <= 2:
                shards.append((alpha_name, l, (), ctx.seed))
            else:
                for pre in itertools.product(alpha, repeat=2):
                    if ref_script(pre) is not None:
                        shards.append((alpha_name, l, pre, ctx.seed))
    ctx.rng.shuffle(shards)
    if not getattr(ctx, "parts", None) or "script" in ctx.parts:
        ctx.pmap(run_script_shard, shards)
    ctx.coverage["script_bounds"] = {a: l for a, l in plan}
    script_evals = ctx.res.counters.get("evaluations", 0)
    if not getattr(ctx, "parts", None) or "solver" in ctx.parts:
        events = SOLVER_EVENTS_QUICK if q else SOLVER_EVENTS
        st = bfs(ctx, "solver", run_solver_history, events, max_depth=6 if q else 7)
        # the same search with a non-default option (no model generation: the deferred pop has no reader)
        st2 = bfs(ctx, "solver-nomodels", run_solver_history_nomodels, events, max_depth=5 if q else 6)
        for k_ in ("states", "transitions", "traces"):
            st[k_] += st2[k_]
        ctx.coverage.update({"states": st["states"], "transitions": st["transitions"],
                             "traces_validated_against_impl": st["traces"] + script_evals,
                             "solver_depth_completed": st["depth_completed"]})
    else:
        ctx.coverage.update({"states": 1, "transitions": 1, "traces_validated_against_impl": script_evals})


def replay(rec):
    case = rec["case"]
    if case.get("part") == "script":
        world = ScriptWorld()
        push_env(world.env)
        try:
            seq = [tuple(tuple(x) if isinstance(x, list) else x for x in c) for c in case["commands"]]
            want = ref_script(seq)
            sc = world.by_add(seq) if case["how"] == "add" else world.by_parser(seq)
            bad = world.compare(sc, want)
            if bad:
                return False, "script %s: %s" % (seq, bad[1])
            return True, "script %s: reported formula and goals are the live ones" % (seq,)
        finally:
            pop_env()
    hist = tuple(tuple(e) for e in case["history"])
    _MINIMISING[0] = True
    try:
        o = run_solver_history(hist, {"generate_models": False} if case.get("part") == "solver-nomodels" else None)
    finally:
        _MINIMISING[0] = False
    if o.violation:
        return False, o.violation[1]
    return True, "history %s: assertions tracked correctly" % (list(hist),)
