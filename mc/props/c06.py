"""C06 - derived constructors and infix operators denote what their names say.

A *case* is one way of calling one named function: a derived constructor of the
FormulaManager (through the manager itself and through pysmt.shortcuts, with both calling
conventions of the polymorphic n-ary ones) or a dunder / method of FNode in an Environment
with infix notation enabled, applied to fresh symbols of given sorts and/or Python literals.
The formula pySMT builds is compiled by the reference semantics (mc/core/refsem.py) and
evaluated under *every* interpretation of the symbols over the finite pools; the value must
equal a direct Python definition of the named function (the table below, written from the
docstrings and the SMT-LIB theory texts, shares nothing with refsem or pySMT).

`must` cases are inside the documented domain of the function: pySMT has to build a formula.
The other cases (literal out of range, reflected form that Python cannot dispatch, operand
sort the operator is not defined for) may be refused with any exception (counted); if they
are accepted and the named function has a meaning for them, the meaning is checked too.
"""
import operator
import warnings
from fractions import Fraction
from itertools import product
from pysmt.environment import Environment, push_env, pop_env
from pysmt.fnode import FNode
import pysmt.shortcuts as SHORTCUTS
from ..core import termio
from ..core.runner import Result, NPROC
from ..core.refsem import compile_term, free_symbols, Unconstrained
from ..core.termgen import interps, sort_values
from ..core.termio import BOOL, INT, REAL, STRING, mk_type, sort_str

# ---------------------------------------------------------------------------------------
# bounds (data)

INT_POOL = (-3, -2, -1, 0, 1, 2, 3)
REAL_POOL = (Fraction(-2), Fraction(-1, 2), Fraction(0), Fraction(1, 3), Fraction(1), Fraction(2))
STR_POOL = ("", "a", "ab")
DOM = {INT: INT_POOL, REAL: REAL_POOL, STRING: STR_POOL}

INT_LITS = (-3, -1, 0, 1, 2)
REAL_LITS = (-1, 0, 2, Fraction(1, 3), Fraction(-1, 2), 0.5, -1.5,
             2.0 ** -30, 0.1)      # floats denote their exact binary value, however small / non-decimal
BOOL_LITS = (False, True)

ABB = ("Array", ("BV", 1), BOOL)       # 4 values, all enumerated
AII = ("Array", INT, INT)
A22 = ("Array", ("BV", 2), ("BV", 2))


def bounds(quick):
    return dict(
        widths=(1, 2, 3) if quick else (1, 2, 3, 4, 5),   # unary/binary/parameterised cases
        nary_widths=(1, 2, 3) if quick else (1, 2, 3, 4),    # Min/MaxBV, n-ary BV operators, AllDifferent
        nary_max=4 if quick else 5,          # AtMostOne/ExactlyOne/AllDifferent/BVAnd/...
        minmax_max=5,
        minmax_high=12 if quick else 17,     # Min/Max over small pools (3 values up to arity 7, then 2)
        minmaxbv_high=(lambda w: {1: 12 if quick else 17, 2: 7 if quick else 9}.get(w, 0)),
        minmaxbv_max=(lambda w: 5 if (quick and w <= 3) or (not quick) else 4),
        concat_widths=(1, 2) if quick else (1, 2, 3),
        concat_max=4,
        sbv_widths=(1, 2, 3, 4) if quick else (1, 2, 3, 4, 5, 6),
    )


class Undefined(Exception):
    """the named function has no value for these arguments (Int/Real division by zero)"""


# ---------------------------------------------------------------------------------------
# own definitions of the named functions on reference values

def BV(w):
    return ("BV", w)


def isbv(s):
    return isinstance(s, tuple) and s[0] == "BV"


def mask(w):
    return (1 << w) - 1


def wrap(v, w):
    return v % (1 << w)


def sgn(v, w):
    """two's complement reading of the unsigned value v of width w"""
    return v - (1 << w) if v & (1 << (w - 1)) else v


def int_div(a, b):
    """SMT-LIB Ints: the q with a = b*q + r and 0 <= r < |b|"""
    if b == 0:
        raise Undefined()
    r = a % abs(b)
    return (a - r) // b


def real_div(a, b):
    if b == 0:
        raise Undefined()
    return Fraction(a) / Fraction(b)


def bv_udiv(a, b, w):
    return mask(w) if b == 0 else a // b


def bv_urem(a, b, w):
    return a if b == 0 else a % b


def bv_sdiv(a, b, w):
    sa, sb = sgn(a, w), sgn(b, w)
    if sb == 0:
        return mask(w) if sa >= 0 else 1
    q = abs(sa) // abs(sb)              # truncation towards zero
    return wrap(-q if (sa < 0) != (sb < 0) else q, w)


def bv_srem(a, b, w):
    sa, sb = sgn(a, w), sgn(b, w)
    if sb == 0:
        return a
    r = abs(sa) % abs(sb)               # sign follows the dividend
    return wrap(-r if sa < 0 else r, w)


def bv_smod(a, b, w):
    sa, sb = sgn(a, w), sgn(b, w)
    if sb == 0:
        return a
    return wrap(sa % sb, w)             # Python %: sign follows the divisor (floor)


def bv_shl(a, k, w):
    return wrap(a << k, w) if k < w else 0


def bv_lshr(a, k, w):
    return a >> k if k < w else 0


def bv_ashr(a, k, w):
    return wrap(sgn(a, w) >> min(k, w), w)


def bv_rol(a, k, w):
    r = 0
    for i in range(w):
        if (a >> i) & 1:
            r |= 1 << ((i + k) % w)
    return r


def bv_ror(a, k, w):
    r = 0
    for i in range(w):
        if (a >> i) & 1:
            r |= 1 << ((i - k) % w)
    return r


def bv_concat(vals, widths):
    r = 0
    for v, w in zip(vals, widths):
        r = (r << w) | v
    return r


def bv_extract(a, lo, hi):
    return (a >> lo) & mask(hi - lo + 1)


def litval(v):
    """reference value of a Python literal"""
    if isinstance(v, float):
        return Fraction(v)
    return v


def norm(sort, v):
    """canonical reference value of sort `sort`; a wrong kind is a bug of this table"""
    if sort == BOOL:
        assert isinstance(v, bool), (sort, v)
        return v
    if sort == INT:
        assert isinstance(v, int) and not isinstance(v, bool), (sort, v)
        return v
    if sort == REAL:
        assert not isinstance(v, bool), (sort, v)
        return Fraction(v)
    if sort == STRING:
        assert isinstance(v, str)
        return v
    if isbv(sort):
        assert isinstance(v, int) and not isinstance(v, bool) and 0 <= v < (1 << sort[1]), (sort, v)
        return v
    return v


# binary operator semantics by operand sort: SEM[name](S) -> (fn(a, b), result sort) or None
def _arith(f):
    def sem(S):
        if S in (INT, REAL):
            return f, S
        if isbv(S):
            w = S[1]
            return (lambda a, b: wrap(f(a, b), w)), S
        return None
    return sem


def _sem_div(S):
    if S == INT:
        return int_div, INT
    if S == REAL:
        return real_div, REAL
    if isbv(S):
        w = S[1]
        return (lambda a, b: bv_udiv(a, b, w)), S
    return None


def _rel(f):
    def sem(S):
        if S in (INT, REAL) or isbv(S):      # BV: unsigned order = order of the values
            return f, BOOL
        return None
    return sem


def _bits(fb, fv):
    def sem(S):
        if S == BOOL:
            return fb, BOOL
        if isbv(S):
            return fv, S
        return None
    return sem


def _bvonly(f, res=None):
    def sem(S):
        if isbv(S):
            w = S[1]
            return (lambda a, b: f(a, b, w)), (S if res is None else res)
        return None
    return sem


def _boolonly(f):
    def sem(S):
        return (f, BOOL) if S == BOOL else None
    return sem


def _eq_sem(neg, allow_bool):
    def sem(S):
        if S == BOOL and not allow_bool:
            return None
        return ((lambda a, b: a != b) if neg else (lambda a, b: a == b)), BOOL
    return sem


SEM = {
    "add": _arith(lambda a, b: a + b),
    "sub": _arith(lambda a, b: a - b),
    "mul": _arith(lambda a, b: a * b),
    "div": _sem_div,
    "lt": _rel(lambda a, b: a < b),
    "le": _rel(lambda a, b: a <= b),
    "gt": _rel(lambda a, b: a > b),
    "ge": _rel(lambda a, b: a >= b),
    "and": _bits(lambda a, b: a and b, lambda a, b: a & b),
    "or": _bits(lambda a, b: a or b, lambda a, b: a | b),
    "xor": _bits(lambda a, b: a != b, lambda a, b: a ^ b),
    "shl": _bvonly(bv_shl),
    "lshr": _bvonly(bv_lshr),
    "ashr": _bvonly(bv_ashr),
    "urem": _bvonly(bv_urem),
    "udiv": _bvonly(bv_udiv),
    "sdiv": _bvonly(bv_sdiv),
    "srem": _bvonly(bv_srem),
    "smod": _bvonly(bv_smod),
    "bvadd": _bvonly(lambda a, b, w: wrap(a + b, w)),
    "bvsub": _bvonly(lambda a, b, w: wrap(a - b, w)),
    "bvmul": _bvonly(lambda a, b, w: wrap(a * b, w)),
    "bvand": _bvonly(lambda a, b, w: a & b),
    "bvor": _bvonly(lambda a, b, w: a | b),
    "bvxor": _bvonly(lambda a, b, w: a ^ b),
    "bvnand": _bvonly(lambda a, b, w: mask(w) ^ (a & b)),
    "bvnor": _bvonly(lambda a, b, w: mask(w) ^ (a | b)),
    "bvxnor": _bvonly(lambda a, b, w: mask(w) ^ (a ^ b)),
    "bvcomp": _bvonly(lambda a, b, w: 1 if a == b else 0, res=BV(1)),
    "ult": _bvonly(lambda a, b, w: a < b, res=BOOL),
    "ule": _bvonly(lambda a, b, w: a <= b, res=BOOL),
    "ugt": _bvonly(lambda a, b, w: a > b, res=BOOL),
    "uge": _bvonly(lambda a, b, w: a >= b, res=BOOL),
    "slt": _bvonly(lambda a, b, w: sgn(a, w) < sgn(b, w), res=BOOL),
    "sle": _bvonly(lambda a, b, w: sgn(a, w) <= sgn(b, w), res=BOOL),
    "sgt": _bvonly(lambda a, b, w: sgn(a, w) > sgn(b, w), res=BOOL),
    "sge": _bvonly(lambda a, b, w: sgn(a, w) >= sgn(b, w), res=BOOL),
    "implies": _boolonly(lambda a, b: (not a) or b),
    "iff": _boolonly(lambda a, b: a == b),
    "band": _boolonly(lambda a, b: a and b),
    "bor": _boolonly(lambda a, b: a or b),
    "bxor": _boolonly(lambda a, b: a != b),
    "equals": _eq_sem(False, False),
    "notequals": _eq_sem(True, False),
    "equals_or_iff": _eq_sem(False, True),
    "arith_ge": lambda S: ((lambda a, b: a >= b), BOOL) if S in (INT, REAL) else None,
    "arith_gt": lambda S: ((lambda a, b: a > b), BOOL) if S in (INT, REAL) else None,
}


# ---------------------------------------------------------------------------------------
# cases

def S(sort):
    return ("s", sort)


def L(v):
    return ("l", v)


def C(shape):
    """a compound / constant *formula* operand (see SHAPES): operators may look at the shape of an operand"""
    return ("c", SHAPES[shape][0], shape)


def _num(m, T, v):
    return m.Int(v) if T == INT else m.Real(v)


def _mk_shapes():
    """name -> (sort, symbol sorts, build(m, syms) -> FNode, ref(*symbol values) -> value)"""
    Sh = {}
    for T, t in ((INT, "i"), (REAL, "r")):
        one = (lambda T: lambda m, v: _num(m, T, v))(T)
        Sh[t + ":x*-1*y"] = (T, (T, T), (lambda one: lambda m, s: m.Times(s[0], one(m, -1), s[1]))(one), lambda x, y: -x * y)
        Sh[t + ":-1*x*y"] = (T, (T, T), (lambda one: lambda m, s: m.Times(one(m, -1), s[0], s[1]))(one), lambda x, y: -x * y)
        Sh[t + ":x*y*-1"] = (T, (T, T), (lambda one: lambda m, s: m.Times(s[0], s[1], one(m, -1)))(one), lambda x, y: -x * y)
        Sh[t + ":-1*x"] = (T, (T,), (lambda one: lambda m, s: m.Times(one(m, -1), s[0]))(one), lambda x: -x)
        Sh[t + ":x*-1"] = (T, (T,), (lambda one: lambda m, s: m.Times(s[0], one(m, -1)))(one), lambda x: -x)
        Sh[t + ":x+1"] = (T, (T,), (lambda one: lambda m, s: m.Plus(s[0], one(m, 1)))(one), lambda x: x + 1)
        Sh[t + ":x-y"] = (T, (T, T), lambda m, s: m.Minus(s[0], s[1]), lambda x, y: x - y)
        Sh[t + ":0-x"] = (T, (T,), (lambda one: lambda m, s: m.Minus(one(m, 0), s[0]))(one), lambda x: -x)
        for v in (-3, -1, 0, 2, 7):
            Sh["%s:const%d" % (t, v)] = (T, (), (lambda one, v: lambda m, s: one(m, v))(one, v),
                                         (lambda v, T: lambda: v if T == INT else Fraction(v))(v, T))
    Sh["b:not"] = (BOOL, (BOOL,), lambda m, s: m.Not(s[0]), lambda a: not a)
    Sh["b:true"] = (BOOL, (), lambda m, s: m.TRUE(), lambda: True)
    Sh["b:false"] = (BOOL, (), lambda m, s: m.FALSE(), lambda: False)
    for w in (1, 2, 3):
        for v in range(1 << w):
            Sh["bv%d:const%d" % (w, v)] = (BV(w), (), (lambda v, w: lambda m, s: m.BV(v, w))(v, w), (lambda v: lambda: v)(v))
        Sh["bv%d:neg" % w] = (BV(w), (BV(w),), lambda m, s: m.BVNeg(s[0]), (lambda w: lambda a: wrap(-a, w))(w))
        Sh["bv%d:not" % w] = (BV(w), (BV(w),), lambda m, s: m.BVNot(s[0]), (lambda w: lambda a: mask(w) ^ a)(w))
    return Sh


SHAPES = _mk_shapes()

class Case(object):
    __slots__ = ("group", "name", "api", "args", "call", "ref", "rs", "must", "key", "cost", "dom")

    def __init__(self, group, name, api, args, call, ref, rs, must, dom=None):
        self.dom = dom or DOM     # value pools of the symbolic arguments (smaller for the high arities)
        self.group, self.name, self.api = group, name, api
        self.args = tuple(args)
        self.call = call          # call(apiobj, *python arguments) -> FNode
        self.ref = ref            # ref(*reference values) -> reference value   (None: no meaning)
        self.rs = rs              # sort of the named function's value          (None: no meaning)
        self.must = must          # inside the documented domain: pySMT has to build it
        self.key = "%s:%s|%s|%s" % (group, name, api, ",".join(_argdesc(a) for a in args))
        c = 1
        for a in self.args:
            if a[0] == "s":
                c *= len(sort_values(a[1], self.dom))
            elif a[0] == "c":
                for ss in SHAPES[a[2]][1]:
                    c *= len(sort_values(ss, self.dom))
        self.cost = c

    def kinds(self):
        out = []
        for a in self.args:
            if a[0] == "c":
                out.append("<%s>" % a[2])
            elif a[0] == "d":
                out.append("same-as-%d" % a[1])
            elif a[0] == "l":
                out.append("lit")
            elif isbv(a[1]):
                out.append("BV")
            elif isinstance(a[1], tuple):
                out.append(a[1][0])
            else:
                out.append(a[1])
        # a run of equal kinds is one kind: the arity is not part of the root cause
        short = []
        for k in out:
            if short and short[-1] in (k, k + ".."):
                short[-1] = k + ".."
            else:
                short.append(k)
        return ",".join(short)

    def sig(self, failure):
        return "%s:%s(%s):%s" % (self.group, self.name.split("[")[0], self.kinds(), failure)


def _argdesc(a):
    if a[0] == "s":
        return sort_str(a[1])
    if a[0] == "c":
        return "<%s>" % a[2]
    if a[0] == "d":
        return "=arg%d" % a[1]
    v = a[1]
    if isinstance(v, (list, tuple)):
        return "[" + ";".join(_argdesc(x) for x in v) + "]"
    return "%s=%r" % (type(v).__name__, v)


def _attr(name):
    return lambda api, *a: getattr(api, name)(*a)


def _attr_list(name, lead=0):
    """second calling convention of the polymorphic n-ary constructors: one list"""
    return lambda api, *a: getattr(api, name)(*(list(a[:lead]) + [list(a[lead:])]))


def ctor_cases(quick):
    B = bounds(quick)
    W = B["widths"]
    out = []
    keys = set()

    def add(name, args, ref, rs, must=True, call=None, apis=("mgr", "shortcuts"), variant="", dom=None):
        for api in apis:
            if api == "shortcuts" and not hasattr(SHORTCUTS, name):
                continue               # not every manager constructor has a shortcut
            c = Case("ctor", name + variant, api, args, call or _attr(name), ref, rs, must, dom)
            if c.key not in keys:      # the 0-ary application is the same case for every sort
                keys.add(c.key)
                out.append(c)

    def binary(name, semname, sorts, must=True):
        for T in sorts:
            sem = SEM[semname](T)
            if sem is None:
                add(name, [S(T), S(T)], None, None, must=False)
            else:
                add(name, [S(T), S(T)], sem[0], sem[1], must=must)

    bvs = [BV(w) for w in W]
    # ---- relations and connectives rewritten into core operators
    binary("GE", "arith_ge", (INT, REAL))
    binary("GT", "arith_gt", (INT, REAL))
    binary("NotEquals", "notequals", [INT, REAL, STRING, ABB] + bvs)
    binary("Xor", "bxor", (BOOL,))
    binary("EqualsOrIff", "equals_or_iff", [BOOL, INT, REAL, STRING, ABB] + bvs)
    for nm, sem in (("BVNand", "bvnand"), ("BVNor", "bvnor"), ("BVXnor", "bvxnor"), ("BVUGT", "ugt"),
                    ("BVUGE", "uge"), ("BVSGT", "sgt"), ("BVSGE", "sge"), ("BVSMod", "smod")):
        binary(nm, sem, bvs)
    # ---- Min / Max
    for T in (INT, REAL):
        for n in range(0, B["minmax_max"] + 1):
            for nm, f in (("Min", min), ("Max", max)):
                ref = (lambda f: lambda *v: f(v))(f)
                add(nm, [S(T)] * n, ref if n else None, T if n else None, must=n > 0)
                if 1 <= n <= 3:
                    add(nm, [S(T)] * n, ref, T, call=_attr_list(nm), variant="[list]")
        # high arities (the encoding is a tree over the argument list: every shape of the split up to
        # the bound), over pools of three / two values: every position can hold the strict extreme
        for n in range(B["minmax_max"] + 1, B["minmax_high"] + 1):
            small = {INT: (-1, 0, 2), REAL: (Fraction(-1, 2), Fraction(0), Fraction(2))} if n <= 7 else \
                    {INT: (-1, 2), REAL: (Fraction(-1, 2), Fraction(2))}
            for nm, f in (("Min", min), ("Max", max)):
                ref = (lambda f: lambda *v: f(v))(f)
                add(nm, [S(T)] * n, ref, T, apis=("mgr",), dom=small)
    for w in B["nary_widths"]:
        for n in list(range(0, B["minmaxbv_max"](w) + 1)) + \
                list(range(B["minmaxbv_max"](w) + 1, B["minmaxbv_high"](w) + 1)):
            for sign in (False, True):
                for nm, f in (("MinBV", min), ("MaxBV", max)):
                    if sign:
                        ref = (lambda f, w: lambda s, *v: f(v, key=lambda x: sgn(x, w)))(f, w)
                    else:
                        ref = (lambda f: lambda s, *v: f(v))(f)
                    add(nm, [L(sign)] + [S(BV(w))] * n, ref if n else None, BV(w) if n else None, must=n > 0)
                    if 1 <= n <= 3:
                        add(nm, [L(sign)] + [S(BV(w))] * n, ref, BV(w), call=_attr_list(nm, 1),
                            variant="[list]")
    # ---- Min / Max over constant *formulas* (a constructor may fold constants) and mixed with symbols
    for T, t in ((INT, "i"), (REAL, "r")):
        cs = ["%s:const%d" % (t, v) for v in (-1, 0, 2)]
        for nm, f in (("Min", min), ("Max", max)):
            ref = (lambda f: lambda *v: f(v))(f)
            for a in cs:
                add(nm, [C(a), S(T)], ref, T, apis=("mgr",))
                add(nm, [S(T), C(a)], ref, T, apis=("mgr",))
                for b in cs:
                    add(nm, [C(a), C(b)], ref, T, apis=("mgr",))
                    add(nm, [C(a), S(T), C(b)], ref, T, apis=("mgr",))
    for w in (1, 2, 3):
        if w not in B["nary_widths"]:
            continue
        cs = ["bv%d:const%d" % (w, v) for v in range(1 << w)]
        for sign in (False, True):
            for nm, f in (("MinBV", min), ("MaxBV", max)):
                if sign:
                    ref = (lambda f, w: lambda s, *v: f(v, key=lambda x: sgn(x, w)))(f, w)
                else:
                    ref = (lambda f: lambda s, *v: f(v))(f)
                for a in cs:
                    add(nm, [L(sign), C(a), S(BV(w))], ref, BV(w), apis=("mgr",))
                    add(nm, [L(sign), S(BV(w)), C(a)], ref, BV(w), apis=("mgr",))
                    for b in cs:
                        add(nm, [L(sign), C(a), C(b)], ref, BV(w), apis=("mgr",))
                        if w <= 2:
                            for c in cs:
                                add(nm, [L(sign), C(a), C(b), C(c)], ref, BV(w), apis=("mgr",))
    # ---- cardinality
    for n in range(0, B["nary_max"] + 1):
        add("AtMostOne", [S(BOOL)] * n, lambda *v: sum(1 for x in v if x) <= 1, BOOL)
        add("ExactlyOne", [S(BOOL)] * n, lambda *v: sum(1 for x in v if x) == 1, BOOL)
        if n <= 3:
            add("AtMostOne", [S(BOOL)] * n, lambda *v: sum(1 for x in v if x) <= 1, BOOL,
                call=_attr_list("AtMostOne"), variant="[list]")
            add("ExactlyOne", [S(BOOL)] * n, lambda *v: sum(1 for x in v if x) == 1, BOOL,
                call=_attr_list("ExactlyOne"), variant="[list]")
        for T in [BOOL, INT, REAL, STRING, ABB] + bvs:
            if n >= 4 and (T in (STRING, ABB) or (isbv(T) and T[1] > 3)):
                continue
            if n >= 3 and isbv(T) and T[1] not in B["nary_widths"]:
                continue
            if n > 4 and T != BOOL and not (isbv(T) and T[1] <= 2):
                continue
            add("AllDifferent", [S(T)] * n, lambda *v: len(set(v)) == len(v), BOOL)
            if n <= 3:
                add("AllDifferent", [S(T)] * n, lambda *v: len(set(v)) == len(v), BOOL,
                    call=_attr_list("AllDifferent"), variant="[list]")
    # ---- core n-ary constructors: the degenerate arities are rewritten (And() = TRUE, And(a) = a)
    for n in range(0, 4):
        add("And", [S(BOOL)] * n, lambda *v: all(v), BOOL)
        add("Or", [S(BOOL)] * n, lambda *v: any(v), BOOL)
        add("And", [S(BOOL)] * n, lambda *v: all(v), BOOL, call=_attr_list("And"), variant="[list]")
        add("Or", [S(BOOL)] * n, lambda *v: any(v), BOOL, call=_attr_list("Or"), variant="[list]")
        for T in (INT, REAL):
            def prod(*v):
                r = 1
                for x in v:
                    r = r * x
                return r
            add("Plus", [S(T)] * n, (lambda *v: sum(v)) if n else None, T if n else None, must=n > 0)
            add("Times", [S(T)] * n, prod if n else None, T if n else None, must=n > 0)
    # ---- Abs
    for T in (INT, REAL):
        add("Abs", [S(T)], lambda a: a if a >= 0 else -a, T, apis=("shortcuts",))
    add("Abs", [S(BOOL)], None, None, must=False, apis=("shortcuts",))
    add("Abs", [S(BV(2))], None, None, must=False, apis=("shortcuts",))
    # ---- constants
    for w in B["sbv_widths"]:
        lo, hi = -(1 << (w - 1)), (1 << (w - 1)) - 1
        for v in range(lo - 2, hi + 3):
            ok = lo <= v <= hi
            add("SBV", [L(v), L(w)], (lambda v, w: lambda a, b: wrap(v, w))(v, w) if ok else None,
                BV(w) if ok else None, must=ok)
        add("BVOne", [L(w)], lambda a: 1, BV(w))
        add("BVZero", [L(w)], lambda a: 0, BV(w))
    for s in ("0", "1", "10", "101", "#b0", "#b011"):
        bits = s[2:] if s.startswith("#b") else s
        add("SBV", [L(s)], (lambda bits: lambda a: int(bits, 2))(bits), BV(len(bits)))
    add("SBV", [L(1)], None, None, must=False)        # no width
    add("SBV", [L("12"), L(2)], None, None, must=False)
    # ---- repeat, n-ary BV operators, concat, extract defaults
    for w in W:
        for cnt in (-1, 0, 1, 2, 3):
            ok = cnt >= 1
            add("BVRepeat", [S(BV(w)), L(cnt)],
                (lambda w, cnt: lambda a, c: bv_concat([a] * cnt, [w] * cnt))(w, cnt) if ok else None,
                BV(w * cnt) if ok else None, must=ok)
        add("BVRepeat", [S(BV(w))], lambda a: a, BV(w), variant="[default]")
        for n in range(0, B["nary_max"] + 1 if w in B["nary_widths"] else 3):
            for nm, f in (("BVAnd", lambda a, b: a & b), ("BVOr", lambda a, b: a | b),
                          ("BVAdd", lambda a, b: a + b), ("BVMul", lambda a, b: a * b)):
                def ref(*v, f=f, w=w):
                    r = v[0]
                    for x in v[1:]:
                        r = wrap(f(r, x), w)
                    return r
                add(nm, [S(BV(w))] * n, ref if n else None, BV(w) if n else None, must=n > 0)
                if 1 <= n <= 3:
                    add(nm, [S(BV(w))] * n, ref, BV(w), call=_attr_list(nm), variant="[list]")
        for lo in range(0, w + 1):
            ok = lo < w
            add("BVExtract", [S(BV(w)), L(lo)], (lambda lo, w: lambda a, s: bv_extract(a, lo, w - 1))(lo, w) if ok else None,
                BV(w - lo) if ok else None, must=ok, variant="[start]")
            for hi in range(0, w + 1):
                ok = lo <= hi < w
                add("BVExtract", [S(BV(w)), L(lo), L(hi)],
                    (lambda lo, hi: lambda a, s, e: bv_extract(a, lo, hi))(lo, hi) if ok else None,
                    BV(hi - lo + 1) if ok else None, must=ok)
        add("BVExtract", [S(BV(w))], lambda a: a, BV(w), variant="[default]")
        # ---- shifts by a Python integer
        for k in range(-1, (1 << w) + 2):
            must = 0 <= k < (1 << w)
            for nm, f in (("BVLShl", bv_shl), ("BVLShr", bv_lshr), ("BVAShr", bv_ashr)):
                add(nm, [S(BV(w)), L(k)], (lambda f, w: lambda a, k: f(a, k, w))(f, w) if k >= 0 else None,
                    BV(w) if k >= 0 else None, must=must, variant="[int]")
    cw = B["concat_widths"]
    for n in range(0, B["concat_max"] + 1):
        for ws in product(cw, repeat=n):
            if sum(ws) > 9:
                continue
            ok = n >= 2
            ref = (lambda ws: lambda *v: bv_concat(v, ws))(ws)
            add("BVConcat", [S(BV(x)) for x in ws], ref if ok else None, BV(sum(ws)) if ok else None, must=ok)
            if 2 <= n <= 3:
                add("BVConcat", [S(BV(x)) for x in ws], ref, BV(sum(ws)), call=_attr_list("BVConcat"),
                    variant="[list]")
    return out


# Python spellings of the binary infix operators
PYOPS = [
    ("__add__", operator.add, "add", "__radd__"),
    ("__sub__", operator.sub, "sub", "__rsub__"),
    ("__mul__", operator.mul, "mul", "__rmul__"),
    ("__truediv__", operator.truediv, "div", None),
    ("__lt__", operator.lt, "lt", "__gt__"),
    ("__le__", operator.le, "le", "__ge__"),
    ("__gt__", operator.gt, "gt", "__lt__"),
    ("__ge__", operator.ge, "ge", "__le__"),
    ("__and__", operator.and_, "and", "__rand__"),
    ("__or__", operator.or_, "or", "__ror__"),
    ("__xor__", operator.xor, "xor", "__rxor__"),
    ("__lshift__", operator.lshift, "shl", None),
    ("__rshift__", operator.rshift, "lshr", None),
    ("__mod__", operator.mod, "urem", None),
]
# methods that promote a literal right operand through _apply_infix
METHODS = [
    ("Implies", "implies"), ("Iff", "iff"), ("And", "band"), ("Or", "bor"),
    ("Equals", "equals"), ("NotEquals", "notequals"),
    ("BVAnd", "bvand"), ("BVAdd", "bvadd"), ("BVAShr", "ashr"), ("BVComp", "bvcomp"),
    ("BVLShl", "shl"), ("BVLShr", "lshr"), ("BVMul", "bvmul"), ("BVNand", "bvnand"),
    ("BVNor", "bvnor"), ("BVOr", "bvor"), ("BVSDiv", "sdiv"), ("BVSGE", "sge"), ("BVSGT", "sgt"),
    ("BVSLE", "sle"), ("BVSLT", "slt"), ("BVSub", "bvsub"), ("BVSMod", "smod"), ("BVSRem", "srem"),
    ("BVUDiv", "udiv"), ("BVUGE", "uge"), ("BVUGT", "ugt"), ("BVULE", "ule"), ("BVULT", "ult"),
    ("BVURem", "urem"), ("BVXor", "bvxor"), ("BVXnor", "bvxnor"),
]


def literals(Srt):
    """(literal, inside the domain of the sort?)"""
    if Srt == BOOL:
        return [(v, True) for v in BOOL_LITS]
    if Srt == INT:
        return [(v, True) for v in INT_LITS]
    if Srt == REAL:
        return [(v, True) for v in REAL_LITS]
    if isbv(Srt):
        w = Srt[1]
        return [(-1, False)] + [(v, True) for v in range(1 << w)] + [(1 << w, False)]
    return [(1, False)]


def infix_cases(quick):
    B = bounds(quick)
    W = B["widths"]
    bvs = [BV(w) for w in W]
    scalar = [BOOL, INT, REAL] + bvs
    out = []

    def add(name, args, call, ref, rs, must):
        out.append(Case("infix", name, "fnode", args, call, ref, rs, must))

    # ---- Python operators
    for dn, pyop, semname, rdn in PYOPS:
        call = (lambda pyop: lambda api, a, b: pyop(a, b))(pyop)
        # reflected spelling `literal op x`: Python dispatches to x.<rdn>(literal)
        for T in scalar:
            sem = SEM[semname](T)
            f, rs = sem if sem else (None, None)
            add(dn, [S(T), S(T)], call, f, rs, sem is not None)
            for v, ok in literals(T):
                add(dn, [S(T), L(v)], call, f if ok else None, rs if ok else None, sem is not None and ok)
                # `v op x`
                add(dn + "[reflected]", [L(v), S(T)], call, f if ok else None, rs if ok else None,
                    sem is not None and ok and rdn is not None)
            if rdn is not None and rdn.startswith("__r"):
                # the reflected dunder called with a formula: x.__rsub__(y) denotes y - x
                rcall = (lambda rdn: lambda api, a, b: getattr(a, rdn)(b))(rdn)
                rf = (lambda f: (lambda a, b: f(b, a)))(f) if f else None
                add(rdn, [S(T), S(T)], rcall, rf, rs, sem is not None)
    # compound / constant formula operands: an operator may look at the shape of its operand
    for T, t in ((INT, "i"), (REAL, "r")):
        shapes = [k for k in SHAPES if k.startswith(t + ":")]
        for dn, pyop, semname, rdn in PYOPS:
            sem = SEM[semname](T)
            if not sem:
                continue
            f, rs = sem
            call = (lambda pyop: lambda api, a, b: pyop(a, b))(pyop)
            consts = [k for k in shapes if ":const" in k]
            for c1 in consts:
                # both operands constant formulas: a constructor may fold them (7 div -3, -3 div 2, ...)
                for c2 in consts:
                    add(dn, [C(c1), C(c2)], call, f, rs, True)
            for sh in shapes:
                add(dn, [C(sh), S(T)], call, f, rs, True)
                add(dn, [S(T), C(sh)], call, f, rs, True)
                if rdn is not None:
                    for v, ok in literals(T)[:3]:
                        if ok:
                            add(dn + "[reflected]", [L(v), C(sh)], call, f, rs, True)
        for sh in shapes:
            add("__neg__", [C(sh)], lambda api, a: -a, lambda a: -a, T, True)
    for sh in ("b:not", "b:true", "b:false"):
        add("__invert__", [C(sh)], lambda api, a: ~a, lambda a: not a, BOOL, True)
    for w in W:
        if w > 3:
            continue
        for sh in [k for k in SHAPES if k.startswith("bv%d:" % w)]:
            add("__neg__", [C(sh)], lambda api, a: -a, (lambda w: lambda a: wrap(-a, w))(w), BV(w), True)
            add("__invert__", [C(sh)], lambda api, a: ~a, (lambda w: lambda a: mask(w) ^ a)(w), BV(w), True)
    # legacy spelling of division
    for T in scalar:
        sem = SEM["div"](T)
        f, rs = sem if sem else (None, None)
        call = lambda api, a, b: a.__div__(b)
        add("__div__", [S(T), S(T)], call, f, rs, sem is not None)
        for v, ok in literals(T):
            add("__div__", [S(T), L(v)], call, f if ok else None, rs if ok else None, sem is not None and ok)
    # ---- unary
    for T in scalar:
        if T in (INT, REAL):
            add("__neg__", [S(T)], lambda api, a: -a, lambda a: -a, T, True)
        elif isbv(T):
            add("__neg__", [S(T)], lambda api, a: -a, (lambda w: lambda a: wrap(-a, w))(T[1]), T, True)
            add("__invert__", [S(T)], lambda api, a: ~a, (lambda w: lambda a: mask(w) ^ a)(T[1]), T, True)
        else:
            add("__neg__", [S(T)], lambda api, a: -a, None, None, False)
            add("__invert__", [S(T)], lambda api, a: ~a, lambda a: not a, BOOL, True)
    for T in (INT, REAL):
        add("__invert__", [S(T)], lambda api, a: ~a, None, None, False)
    # ---- x[i], x[i:j], x[:j], x[i:]
    for T in scalar:
        w = T[1] if isbv(T) else 2
        for i in range(-1, w + 1):
            ok = isbv(T) and 0 <= i < w
            add("__getitem__", [S(T), L(i)], lambda api, a, i: a[i],
                (lambda i: lambda a, _: bv_extract(a, i, i))(i) if ok else None, BV(1) if ok else None, ok)
            ok2 = isbv(T) and 0 <= i < w
            add("__getitem__[:j]", [S(T), L(i)], lambda api, a, j: a[:j],
                (lambda i: lambda a, _: bv_extract(a, 0, i))(i) if ok2 else None, BV(i + 1) if ok2 else None, ok2)
            add("__getitem__[i:]", [S(T), L(i)], lambda api, a, i: a[i:],
                (lambda i, w: lambda a, _: bv_extract(a, i, w - 1))(i, w) if ok2 else None,
                BV(w - i) if ok2 else None, ok2)
            for j in range(-1, w + 1):
                ok3 = isbv(T) and 0 <= i <= j < w
                add("__getitem__[i:j]", [S(T), L(i), L(j)], lambda api, a, i, j: a[i:j],
                    (lambda i, j: lambda a, _, __: bv_extract(a, i, j))(i, j) if ok3 else None,
                    BV(j - i + 1) if ok3 else None, ok3)
    # ---- methods with literal promotion
    for mn, semname in METHODS:
        call = (lambda mn: lambda api, a, b: getattr(a, mn)(b))(mn)
        sorts = list(scalar)
        for T in sorts:
            sem = SEM[semname](T)
            f, rs = sem if sem else (None, None)
            add(mn, [S(T), S(T)], call, f, rs, sem is not None)
            for v, ok in literals(T):
                add(mn, [S(T), L(v)], call, f if ok else None, rs if ok else None, sem is not None and ok)
    for mn, semname in (("Equals", "equals"), ("NotEquals", "notequals")):
        call = (lambda mn: lambda api, a, b: getattr(a, mn)(b))(mn)
        for T in (STRING, ABB, AII):
            f, rs = SEM[semname](T)
            add(mn, [S(T), S(T)], call, f, rs, True)
        add(mn, [S(STRING), L("a")], call, None, None, False)
    # BVConcat: operands of different widths; a literal takes the width of the receiver
    for w1 in W:
        for w2 in W:
            add("BVConcat", [S(BV(w1)), S(BV(w2))], lambda api, a, b: a.BVConcat(b),
                (lambda w1, w2: lambda a, b: bv_concat([a, b], [w1, w2]))(w1, w2), BV(w1 + w2), True)
        for v, ok in literals(BV(w1)):
            add("BVConcat", [S(BV(w1)), L(v)], lambda api, a, b: a.BVConcat(b),
                (lambda w1: lambda a, b: bv_concat([a, b], [w1, w1]))(w1) if ok else None,
                BV(2 * w1) if ok else None, ok)
    # ---- Ite
    for T in scalar + [STRING, ABB]:
        add("Ite", [S(BOOL), S(T), S(T)], lambda api, c, a, b: c.Ite(a, b), lambda c, a, b: a if c else b, T, True)
    add("Ite", [S(BOOL), L(1), L(2)], lambda api, c, a, b: c.Ite(a, b), None, None, False)
    add("Ite", [S(BOOL), S(INT), L(2)], lambda api, c, a, b: c.Ite(a, b), None, None, False)
    add("Ite", [S(INT), S(INT), S(INT)], lambda api, c, a, b: c.Ite(a, b), None, None, False)
    # ---- methods with integer parameters
    for w in W:
        T = BV(w)
        for lo in range(-1, w + 1):
            for hi in range(-1, w + 1):
                ok = 0 <= lo <= hi < w
                add("BVExtract", [S(T), L(lo), L(hi)], lambda api, a, s, e: a.BVExtract(s, e),
                    (lambda lo, hi: lambda a, s, e: bv_extract(a, lo, hi))(lo, hi) if ok else None,
                    BV(hi - lo + 1) if ok else None, ok)
        for cnt in (-1, 0, 1, 2, 3):
            ok = cnt >= 1
            add("BVRepeat", [S(T), L(cnt)], lambda api, a, c: a.BVRepeat(c),
                (lambda w, cnt: lambda a, c: bv_concat([a] * cnt, [w] * cnt))(w, cnt) if ok else None,
                BV(w * cnt) if ok else None, ok)
        for k in range(-1, 2 * w + 2):
            # SMT-LIB defines rotate by recursion on the index: any k >= 0 (k mod w positions)
            for mn, f in (("BVRol", bv_rol), ("BVRor", bv_ror)):
                add(mn, [S(T), L(k)], (lambda mn: lambda api, a, k: getattr(a, mn)(k))(mn),
                    (lambda f, w: lambda a, k: f(a, k, w))(f, w) if k >= 0 else None,
                    T if k >= 0 else None, 0 <= k < w)
        for k in (-1, 0, 1, 2):
            ok = k >= 0
            add("BVZExt", [S(T), L(k)], lambda api, a, k: a.BVZExt(k), (lambda a, k: a) if ok else None,
                BV(w + k) if ok else None, ok)
            add("BVSExt", [S(T), L(k)], lambda api, a, k: a.BVSExt(k),
                (lambda w: lambda a, k: wrap(sgn(a, w), w + k))(w) if ok else None, BV(w + k) if ok else None, ok)
    # ---- arrays
    for A in (AII, ABB, A22):
        I_, E_ = A[1], A[2]
        add("Select", [S(A), S(I_)], lambda api, a, i: a.Select(i), lambda a, i: a.get(i), E_, True)
        add("Store", [S(A), S(I_), S(E_)], lambda api, a, i, v: a.Store(i, v), lambda a, i, v: a.put(i, v), A, True)
    add("Select", [S(AII), L(1)], lambda api, a, i: a.Select(i), None, None, False)
    add("Store", [S(AII), L(1), L(2)], lambda api, a, i, v: a.Store(i, v), None, None, False)
    # ---- call
    F1 = ("Fun", INT, (INT,))
    F2 = ("Fun", BOOL, (BOOL, BV(2)))
    F3 = ("Fun", REAL, (REAL, INT))
    call = lambda api, f, *a: f(*a)
    ref = lambda f, *a: f(*a)
    add("__call__", [S(F1), S(INT)], call, ref, INT, True)
    for v in INT_LITS:
        add("__call__", [S(F1), L(v)], call, ref, INT, True)
    add("__call__", [S(F2), S(BOOL), S(BV(2))], call, ref, BOOL, True)
    for b in BOOL_LITS:
        for v in range(4):
            add("__call__", [S(F2), L(b), L(v)], call, ref, BOOL, True)
        add("__call__", [S(F2), L(b), S(BV(2))], call, ref, BOOL, True)
        add("__call__", [S(F2), L(b), L(4)], call, None, None, False)
    add("__call__", [S(F3), S(REAL), S(INT)], call, ref, REAL, True)
    for r in REAL_LITS:
        add("__call__", [S(F3), L(r), S(INT)], call, ref, REAL, True)
        add("__call__", [S(F3), L(r), L(2)], call, ref, REAL, True)
    add("__call__", [S(F1)], call, None, None, False)
    add("__call__", [S(F1), S(INT), S(INT)], call, None, None, False)
    add("__call__", [S(INT), S(INT)], call, None, None, False)
    return out


_CACHE = {}


def repeated_argument_cases(cases):
    """the same formula at two argument positions: for every case with two or more symbolic arguments of
    one sort, the variants  f(x, .., x)  (first = last) and, from three arguments on,  f(x, x, ..)"""
    out = []
    for c in cases:
        if c.dom is not DOM or c.ref is None:
            continue
        pos = [i for i, a in enumerate(c.args) if a[0] == "s"]
        for i, j in ((0, -1), (0, 1)):
            if len(pos) < 2 or (j == 1 and len(pos) < 3):
                continue
            pi, pj = pos[i], pos[j]
            if c.args[pi][1] != c.args[pj][1]:
                continue
            args = list(c.args)
            args[pj] = ("d", pi)
            out.append(Case(c.group, c.name, c.api, args, c.call, c.ref, c.rs, c.must))
    return out


def all_cases(quick):
    if quick not in _CACHE:
        cs = ctor_cases(quick) + infix_cases(quick)
        cs = cs + repeated_argument_cases(cs)
        seen = {}
        for c in cs:
            assert c.key not in seen, "duplicate case key %s" % c.key
            seen[c.key] = c
        _CACHE[quick] = cs
    return _CACHE[quick]


# ---------------------------------------------------------------------------------------
# running one case

def _show(v):
    if isinstance(v, Fraction):
        return str(v)
    return repr(v)


def run_case(case, res, seed=0):
    """build the formula in a fresh Environment with infix notation on, compare it with the
    reference definition under every interpretation; returns None or (failure, message)"""
    env = Environment()
    env.enable_infix_notation = True
    push_env(env)
    try:
        return _run_case(env, case, res, seed)
    finally:
        pop_env()


def _run_case(env, case, res, seed):
    m = env.formula_manager
    api = SHORTCUTS if case.api == "shortcuts" else m
    prefix = "xyz"[seed % 3]
    pyargs, symsorts, names = [], {}, []
    for i, a in enumerate(case.args):
        if a[0] == "s":
            nm = "%s%d" % (prefix, i)
            pyargs.append(m.Symbol(nm, mk_type(env, a[1])))
            symsorts[nm] = a[1]
            names.append(nm)
        elif a[0] == "d":
            pyargs.append(pyargs[a[1]])
            names.append(names[a[1]])
        elif a[0] == "c":
            _, ssorts, build, _ = SHAPES[a[2]]
            nms = ["%s%d_%d" % (prefix, i, j) for j in range(len(ssorts))]
            for nm, ss in zip(nms, ssorts):
                symsorts[nm] = ss
            pyargs.append(build(m, [m.Symbol(nm, mk_type(env, ss)) for nm, ss in zip(nms, ssorts)]))
            names.append(tuple(nms))
        else:
            pyargs.append(a[1])
            names.append(None)
    res.count("evaluations")
    label = case.name.split("[")[0]
    try:
        with warnings.catch_warnings():
            warnings.simplefilter("ignore")
            f = case.call(api, *pyargs)
    except Exception as e:
        if case.must:
            res.outcome(label + ":REFUSED")
            return ("refused", "%s raised %s: %s although the arguments are inside its domain"
                    % (case.key, type(e).__name__, e))
        res.outcome(label + ":refused-outside-domain")
        res.count("refused_outside_domain")
        return None
    if not isinstance(f, FNode):
        res.outcome(label + ":NOT-A-FORMULA")
        return ("not-a-formula", "%s returned %r" % (case.key, f))
    try:
        fs, fn = compile_term(f)
        dumped = termio.dump(f)
        shown = termio.short(dumped)
        extra = set(free_symbols(f)) - set(symsorts)
    except Exception as e:
        res.outcome(label + ":ILL-FORMED")
        return ("ill-formed", "%s built a term without meaning in the reference semantics: %s: %s"
                % (case.key, type(e).__name__, e))
    if extra:
        return ("symbol", "%s built %s which mentions %s" % (case.key, shown, sorted(extra)), dumped)
    if case.rs is None:
        # accepted although the table gives it no meaning: nothing to compare with
        res.outcome(label + ":accepted-outside-domain")
        res.count("accepted_outside_domain")
        return None
    if fs != case.rs:
        res.outcome(label + ":WRONG-SORT")
        return ("sort", "%s built %s of sort %s, the named function has sort %s"
                % (case.key, shown, sort_str(fs), sort_str(case.rs)), dumped)
    n_def = n_undef = 0
    bad = None
    for I in interps(symsorts, case.dom):
        vals = [SHAPES[a[2]][3](*[I[n_] for n_ in nm]) if isinstance(nm, tuple) else
                (I[nm] if nm is not None else litval(a[1])) for nm, a in zip(names, case.args)]
        try:
            want = norm(case.rs, case.ref(*vals))
        except Undefined:
            n_undef += 1
            continue
        n_def += 1
        try:
            got = fn(I)
        except Unconstrained:
            bad = ("divides-by-zero", "%s built %s which divides by zero under %s where the named function is %s"
                   % (case.key, shown, _showI(I), _show(want)))
            break
        if type(got) is not type(want) or got != want:
            bad = ("value", "%s built %s: under %s its value is %s but the named function gives %s"
                   % (case.key, shown, _showI(I), _show(got), _show(want)))
            break
    res.count("interpretations", n_def + n_undef)
    res.count("interpretations_undefined", n_undef)
    if bad:
        res.outcome(label + ":WRONG")
        return bad + (dumped,)
    if n_def == 0:
        res.outcome(label + ":vacuous-all-undefined")
        res.count("vacuous")
    else:
        res.count("nontrivial")
        res.outcome(label + (":checked" if case.must else ":checked-optional"))
        res.sample({"case": case.key, "formula": shown, "interpretations": n_def}, limit=2)
    return None


def _showI(I):
    return "{%s}" % ", ".join("%s=%s" % (k, _show(v)) for k, v in sorted(I.items()))


def run_shard(arg):
    quick, idxs, seed = arg
    cs = all_cases(quick)
    res = Result()
    for i in idxs:
        c = cs[i]
        r = run_case(c, res, seed)
        if r is not None:
            # the key identifies the table row (replay re-runs exactly that row); the rest is for the reader
            res.violation(c.group, c.sig(r[0]), r[1],
                          {"key": c.key, "quick": quick, "function": c.name, "api": c.api,
                           "args": [_argdesc(a) for a in c.args], "built": r[2] if len(r) > 2 else None})
    return res


def make_shards(cases, want, n):
    """longest-processing-time packing of the selected case indices into n shards"""
    idx = sorted((i for i in range(len(cases)) if want(cases[i])), key=lambda i: (-cases[i].cost, i))
    bins = [[0, []] for _ in range(n)]
    for i in idx:
        b = min(bins, key=lambda b: b[0])
        b[0] += cases[i].cost + 40       # 40: fixed cost of a case (fresh environment, build, compile)
        b[1].append(i)
    return [b[1] for b in bins if b[1]]


def run(ctx):
    ctx.level = "exploration"
    ctx.rule = ("every row of the case table in mc/props/c06.py = (named constructor or FNode dunder/method, "
                "calling convention, argument sorts and Python literals/parameters); the formula pySMT builds "
                "for fresh symbols is evaluated by the reference semantics under every interpretation of the "
                "symbols (all BV values of the width, all Bool tuples, Int -3..3, six Reals, 3 strings, small "
                "arrays/function tables) and compared with the table's own definition of the named function; "
                "a case is non-trivial when the formula was built and the named function is defined for at "
                "least one interpretation")
    ctx.assumptions = ["reference semantics mc/core/refsem.py for the core operators",
                       "own definitions of the named functions (SMT-LIB 2.6 FixedSizeBitVectors/Ints/Reals/Core, "
                       "docstrings) in mc/props/c06.py",
                       "Int '/' is SMT-LIB div; x[i:j] is the inclusive extract of bits i..j (BVExtract docstring)",
                       "a literal operand of a BV receiver denotes the constant of the receiver's width",
                       "cases outside a function's documented domain may be refused with any exception (counted)"]
    cs = all_cases(ctx.quick)
    parts = getattr(ctx, "parts", None)
    want = (lambda c: True) if not parts else (lambda c: c.group in parts or c.name in parts)
    shards = [(ctx.quick, s, ctx.seed) for s in make_shards(cs, want, 4 * NPROC)]
    ctx.rng.shuffle(shards)
    ctx.pmap(run_shard, shards)
    sel = [c for c in cs if want(c)]
    B = bounds(ctx.quick)
    ctx.coverage["cases"] = len(sel)
    ctx.coverage["named_functions"] = len(set((c.group, c.name.split("[")[0]) for c in sel))
    ctx.coverage["must_build_cases"] = sum(1 for c in sel if c.must)
    ctx.coverage["bounds"] = {"bv_widths": list(B["widths"]), "nary_max": B["nary_max"],
                              "minmax_max": B["minmax_max"], "int_pool": list(INT_POOL),
                              "real_pool": [str(x) for x in REAL_POOL], "nary_bv_widths": list(B["nary_widths"]),
                              "concat_widths": list(B["concat_widths"]), "sbv_widths": list(B["sbv_widths"])}


def replay(rec):
    key = rec["case"]["key"]
    for quick in (bool(rec["case"].get("quick", True)), True, False):
        for c in all_cases(quick):
            if c.key == key:
                r = run_case(c, Result())
                if r is None:
                    return True, "%s denotes the named function (or is refused outside its domain)" % key
                return False, "%s: %s" % (r[0], r[1])
    return False, "unknown case key %s" % key
