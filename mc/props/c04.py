"""C04 - hash-consing: one object per structure, faithful accessors, faithful copies.

Part 1 (histories, level model_checking).  A *universe* of blueprints, grouped in families;
every blueprint has several *spellings* - surface terms over the public constructors
(Real(2) / Real(2.0) / Real(Fraction(2)) / Real((4,2)) / ToReal(Int(2)), GE(a,b) / LE(b,a),
BVAdd(u,v,w) / BVAdd(BVAdd(u,v),w), Array() with different dict orders and with entries equal
to the default, ...).  `norm` computes from the surface term alone - never from a pySMT
object - the structural key (operator, parameters, child keys, payload normal form) that the
documented constructor normalisations prescribe.  An event builds one blueprint by one
spelling, or performs unrelated constructions, type queries or a failing construction.  Every
history up to length d over the alphabet of a family is replayed in a fresh Environment; then
  * for all pairs of formulas built by the history:  obj_i is obj_j  <=>  key_i == key_j;
  * the structure read back through the public accessors equals the key (node_type, args,
    arg, symbol_name/type, constant_value/type, bv_width, extract / rotate / extend
    parameters, quantifier_vars, function_name, array_value_index_type / default / assigned
    map, array_value_get on every index constant of a pool, the exact-operator is_*
    predicates), no structure is held by two objects anywhere below the roots, `f in mgr`.

Part 2 (copies, level exploration).  Every term of the standard profiles up to depth 2
(and of a profile of custom / parametric sorts) is normalised from its environment X into an
empty environment Y1 and into an environment Y2 pre-populated with the same-named symbols,
and between Y1 and Y2 and back: same structure, no FNode shared (payload nodes included),
every type object of the copy is the target's interned one, normalising twice gives the same
object, a native formula normalises to itself, normalising back gives the original object.
"""
import itertools
from fractions import Fraction
import pysmt.operators as op
from pysmt.environment import Environment, push_env, pop_env
from ..core.runner import Result
from ..core import profiles as P
from ..core import sweep, termio, termgen
from ..core.termio import BOOL, INT, REAL, STRING, mk_type, sort_of, sort_str, OPNAME, INDEXED

BV1, BV2, BV3 = ("BV", 1), ("BV", 2), ("BV", 3)
FII = ("Fun", INT, (INT,))
S0 = ("Sort", "S", ())

# =========================================================================================
# surface terms: (constructor[mode], arguments...)    mode: "" star-args / positional,
# "[]" list, "()" tuple, "~" iterator (for the polymorphic n-ary constructors and containers)

NARY = {"And", "Or", "Plus", "Times", "BVAnd", "BVOr", "BVAdd", "BVMul", "BVConcat", "Min", "Max",
        "AtMostOne", "ExactlyOne", "AllDifferent"}
BINOPS = {  # constructor -> key operator (same argument order)
    "Implies": "implies", "Iff": "iff", "Minus": "minus", "Equals": "equals", "LE": "le", "LT": "lt",
    "BVXor": "bvxor", "BVULT": "bvult", "BVULE": "bvule", "BVSub": "bvsub", "BVUDiv": "bvudiv",
    "BVURem": "bvurem", "BVSLT": "bvslt", "BVSLE": "bvsle", "BVComp": "bvcomp", "BVSDiv": "bvsdiv",
    "BVSRem": "bvsrem", "Select": "select"}
SWAPPED = {"GE": "le", "GT": "lt", "BVUGT": "bvult", "BVUGE": "bvule", "BVSGT": "bvslt", "BVSGE": "bvsle"}
SHIFTS = {"BVLShl": "bvshl", "BVLShr": "bvlshr", "BVAShr": "bvashr"}
UNOPS = {"BVNot": "bvnot", "BVNeg": "bvneg", "BVToNatural": "bv2nat"}
NEGATED = {"BVNand": "BVAnd", "BVNor": "BVOr", "BVXnor": "BVXor"}
STEPPED = {"BVRol": "rol", "BVRor": "ror", "BVZExt": "zext", "BVSExt": "sext"}
FOLD = {"BVAnd": "bvand", "BVOr": "bvor", "BVAdd": "bvadd", "BVMul": "bvmul"}


def _split(c):
    for suf in ("[]", "()", "~"):
        if c.endswith(suf):
            return c[:-len(suf)], suf
    return c, ""


def _pack(mode, items):
    if mode == "()":
        return tuple(items)
    if mode == "~":
        return iter(list(items))
    return list(items)


class World(object):
    def __init__(self):
        self.env = Environment()
        self.env.enable_infix_notation = True       # the infix routes u[i:j] / u[i] of the bvp family
        self.m = self.env.formula_manager


def construct(W, t):
    """surface term -> FNode, through the public constructors only (children left to right)"""
    m = W.m
    c, mode = _split(t[0])
    if c == "Symbol":
        return m.Symbol(t[1], mk_type(W.env, t[2])) if len(t) > 2 else m.Symbol(t[1])
    if c == "TRUE":
        return m.TRUE()
    if c == "FALSE":
        return m.FALSE()
    if c in ("Int", "Real", "String", "Bool", "BVOne", "BVZero"):
        return getattr(m, c)(t[1])
    if c in ("BV", "SBV"):
        return getattr(m, c)(*t[1:])
    if c in NARY:
        kids = [construct(W, x) for x in t[1:]]
        fn = getattr(m, c)
        return fn(*kids) if mode == "" else fn(_pack(mode, kids))
    if c in ("ForAll", "Exists"):
        vs = [construct(W, v) for v in t[1]]
        body = construct(W, t[2])
        return getattr(m, c)(_pack(mode, vs), body)
    if c == "Function":
        f = construct(W, t[1])
        return m.Function(f, _pack(mode, [construct(W, x) for x in t[2]]))
    if c == "Array":
        ty = mk_type(W.env, t[1])
        d = construct(W, t[2])
        if len(t) == 3:
            return m.Array(ty, d)
        if t[3] is None:
            return m.Array(ty, d, None)
        assign = {}
        for i, v in t[3]:
            ki = construct(W, i)
            assign[ki] = construct(W, v)
        return m.Array(ty, d, assign)
    if c == "BVExtract":
        kid = construct(W, t[1])
        rest = t[2:]
        if len(rest) == 2 and rest[0] is None:
            return m.BVExtract(kid, end=rest[1])
        return m.BVExtract(kid, *rest)
    if c == "BVSlice":       # infix route: u[start:stop]
        return construct(W, t[1])[slice(t[2], t[3])]
    if c == "BVIndex":       # infix route: u[i]
        return construct(W, t[1])[t[2]]
    if c in STEPPED or c == "BVRepeat":
        return getattr(m, c)(construct(W, t[1]), *t[2:])
    if c in SHIFTS:
        left = construct(W, t[1])
        right = t[2] if isinstance(t[2], int) else construct(W, t[2])
        return getattr(m, c)(left, right)
    return getattr(m, c)(*[construct(W, x) for x in t[1:]])


# ---- the independent normaliser: surface term -> structural key ---------------------------
# keys:  ("sym", name, sort) | ("const", sort, value) | ("op", name, params, kids)
#        | ("q", "forall"|"exists", varkeys, (body,)) | ("app", fkey, kids)
#        | ("arr", index sort, default key, sorted ((index key, value key), ...))

def K(name, *kids, **kw):
    return ("op", name, tuple(kw.get("params", ())), tuple(kids))


def kconst(sort, v):
    return ("const", sort, v)


def kreal(q):
    q = Fraction(q)
    return ("const", REAL, (q.numerator, q.denominator))


def k_not(k):
    if k[0] == "op" and k[1] == "not":
        return k[3][0]          # Not collapses a double negation
    return K("not", k)


def k_nary(name, kids, empty=None):
    if len(kids) == 0:
        return empty
    if len(kids) == 1:
        return kids[0]           # an n-ary constructor applied to one argument is the argument
    return K(name, *kids)


def k_fold(name, kids):
    acc = kids[0]
    for k in kids[1:]:
        acc = K(name, acc, k)    # "a left-associative formula is generated"
    return acc


def ksort(k):
    """sort of a key, by this module's own rules"""
    h = k[0]
    if h == "sym":
        return k[2]
    if h == "const":
        return k[1]
    if h == "q":
        return BOOL
    if h == "app":
        return ksort(k[1])[1]
    if h == "arr":
        return ("Array", k[1], ksort(k[2]))
    n, params, kids = k[1], k[2], k[3]
    if n in ("and", "or", "not", "implies", "iff", "equals", "le", "lt", "bvult", "bvule", "bvslt", "bvsle"):
        return BOOL
    if n == "toreal":
        return REAL
    if n == "bv2nat":
        return INT
    if n == "ite":
        return ksort(kids[1])
    if n == "bvcomp":
        return BV1
    if n == "bvconcat":
        return ("BV", ksort(kids[0])[1] + ksort(kids[1])[1])
    if n == "extract":
        return ("BV", params[1] - params[0] + 1)
    if n in ("zext", "sext"):
        return ("BV", ksort(kids[0])[1] + params[0])
    if n == "select":
        return ksort(kids[0])[2]
    return ksort(kids[0])       # arithmetic, bit-wise, shifts, rotations, store


def norm(t):
    c, _mode = _split(t[0])
    if c == "Symbol":
        return ("sym", t[1], t[2] if len(t) > 2 else BOOL)      # "typename=BOOL" is the default
    if c == "TRUE":
        return kconst(BOOL, True)
    if c == "FALSE":
        return kconst(BOOL, False)
    if c == "Bool":
        return kconst(BOOL, bool(t[1]))
    if c == "Int":
        return kconst(INT, int(t[1]))
    if c == "Real":
        v = t[1]
        return kreal(Fraction(v[0], v[1]) if isinstance(v, tuple) else Fraction(v))   # a float denotes its exact value
    if c == "String":
        return kconst(STRING, t[1])
    if c in ("BV", "SBV"):
        v, w = t[1], (t[2] if len(t) > 2 else None)
        if isinstance(v, str):
            bits = v[2:] if v.startswith("#b") else v
            v, w = int(bits, 2), len(bits)
        elif c == "SBV" and v < 0:
            v += 1 << w                       # two's complement
        return kconst(("BV", w), v)
    if c == "BVOne":
        return kconst(("BV", t[1]), 1)
    if c == "BVZero":
        return kconst(("BV", t[1]), 0)
    if c in ("ForAll", "Exists"):
        body = norm(t[2])
        if len(t[1]) == 0:
            return body
        return ("q", c.lower(), tuple(norm(v) for v in t[1]), (body,))
    if c == "Function":
        f = norm(t[1])
        if len(t[2]) == 0:
            return f                          # "applying a 0-arity function returns the function itself"
        return ("app", f, tuple(norm(x) for x in t[2]))
    if c == "Array":
        d = norm(t[2])
        pairs = {}
        if len(t) > 3 and t[3]:
            for i, v in t[3]:
                pairs[norm(i)] = norm(v)
        live = [(i, v) for i, v in pairs.items() if v != d]   # assignments equal to the default are not represented
        return ("arr", t[1], d, tuple(sorted(live, key=repr)))
    if c == "BVExtract":
        k = norm(t[1])
        rest = t[2:]
        start = rest[0] if len(rest) >= 1 and rest[0] is not None else 0
        end = rest[1] if len(rest) >= 2 else ksort(k)[1] - 1
        return K("extract", k, params=(start, end))
    if c == "BVSlice":
        k = norm(t[1])
        return K("extract", k, params=(0 if t[2] is None else t[2], ksort(k)[1] - 1 if t[3] is None else t[3]))
    if c == "BVIndex":
        return K("extract", norm(t[1]), params=(t[2], t[2]))
    if c in STEPPED:
        return K(STEPPED[c], norm(t[1]), params=(t[2],))
    if c == "BVRepeat":
        k = norm(t[1])
        return k_fold("bvconcat", [k] * (t[2] if len(t) > 2 else 1))
    if c in SHIFTS:
        left = norm(t[1])
        right = kconst(ksort(left), t[2]) if isinstance(t[2], int) else norm(t[2])
        return K(SHIFTS[c], left, right)
    kids = [norm(x) for x in t[1:]]
    if c == "And":
        return k_nary("and", kids, kconst(BOOL, True))
    if c == "Or":
        return k_nary("or", kids, kconst(BOOL, False))
    if c == "Plus":
        return k_nary("plus", kids)
    if c == "Times":
        return k_nary("times", kids)
    if c in FOLD:
        return k_fold(FOLD[c], kids)
    if c == "BVConcat":
        return k_fold("bvconcat", kids)
    if c == "Not":
        return k_not(kids[0])
    if c in BINOPS:
        return K(BINOPS[c], *kids)
    if c in SWAPPED:
        return K(SWAPPED[c], kids[1], kids[0])
    if c in UNOPS:
        return K(UNOPS[c], kids[0])
    if c in NEGATED:
        return K("bvnot", K(FOLD[NEGATED[c]] if NEGATED[c] in FOLD else "bvxor", *kids))
    if c == "Ite":
        return K("ite", *kids)
    if c == "Store":
        return K("store", *kids)
    if c == "NotEquals":
        return k_not(K("equals", *kids))
    if c == "Xor":
        return k_not(K("iff", *kids))
    if c == "EqualsOrIff":
        return K("iff" if ksort(kids[0]) == BOOL else "equals", *kids)
    if c == "Div":
        d = kids[1]
        if d[0] == "const" and d[1] == REAL and d[2][0] != 0:
            return K("times", kids[0], kreal(1 / Fraction(*d[2])))   # division by a constant is a product
        return K("div", *kids)
    if c == "ToReal":
        k = kids[0]
        if ksort(k) == REAL:
            return k
        if k[0] == "const":
            return kreal(k[2])
        return K("toreal", k)
    if c in ("Min", "Max"):
        if len(kids) == 1:
            return kids[0]
        a, b = kids
        return K("ite", K("le", a, b), a, b) if c == "Min" else K("ite", K("le", a, b), b, a)
    if c == "AtMostOne":
        cs = [K("implies", e, k_not(k_nary("or", kids[i + 1:], kconst(BOOL, False)))) for i, e in enumerate(kids[:-1])]
        return k_nary("and", cs, kconst(BOOL, True))
    if c == "ExactlyOne":
        cs = [K("implies", e, k_not(k_nary("or", kids[i + 1:], kconst(BOOL, False)))) for i, e in enumerate(kids[:-1])]
        return k_nary("and", [k_nary("or", kids, kconst(BOOL, False)), k_nary("and", cs, kconst(BOOL, True))])
    if c == "AllDifferent":
        cs = [k_not(K("iff" if ksort(p) == BOOL else "equals", p, q)) for i, p in enumerate(kids) for q in kids[i + 1:]]
        return k_nary("and", cs, kconst(BOOL, True))
    raise ValueError("no normalisation rule for %r" % (t,))


# =========================================================================================
# reading a formula back through the public accessors

NT2NAME = dict(OPNAME)
NT2NAME.update(INDEXED)


def okey(n, memo):
    """structural key of an FNode as its public accessors report it; memo: id -> (node, key)"""
    got = memo.get(id(n))
    if got is not None:
        return got[1]
    t = n.node_type()
    if t == op.SYMBOL:
        k = ("sym", n.symbol_name(), sort_of(n.symbol_type()))
    elif t == op.BOOL_CONSTANT:
        k = ("const", BOOL, n.constant_value())
    elif t == op.INT_CONSTANT:
        k = ("const", INT, n.constant_value())
    elif t == op.REAL_CONSTANT:
        v = n.constant_value()
        k = ("const", REAL, (v.numerator, v.denominator))
    elif t == op.STR_CONSTANT:
        k = ("const", STRING, n.constant_value())
    elif t == op.BV_CONSTANT:
        k = ("const", ("BV", n.bv_width()), n.constant_value())
    elif t in (op.FORALL, op.EXISTS):
        k = ("q", "forall" if t == op.FORALL else "exists", tuple(okey(v, memo) for v in n.quantifier_vars()),
             tuple(okey(a, memo) for a in n.args()))
    elif t == op.FUNCTION:
        k = ("app", okey(n.function_name(), memo), tuple(okey(a, memo) for a in n.args()))
    elif t == op.ARRAY_VALUE:
        for a in n.args():
            okey(a, memo)
        pairs = [(okey(i, memo), okey(v, memo)) for i, v in n.array_value_assigned_values_map().items()]
        k = ("arr", sort_of(n.array_value_index_type()), okey(n.array_value_default(), memo),
             tuple(sorted(pairs, key=repr)))
    else:
        if t == op.BV_EXTRACT:
            params = (n.bv_extract_start(), n.bv_extract_end())
        elif t in (op.BV_ROL, op.BV_ROR):
            params = (n.bv_rotation_step(),)
        elif t in (op.BV_ZEXT, op.BV_SEXT):
            params = (n.bv_extend_step(),)
        else:
            params = ()
        k = ("op", NT2NAME.get(t, "?node%d" % t), params, tuple(okey(a, memo) for a in n.args()))
    memo[id(n)] = (n, k)
    return k


def all_nodes(f):
    """id -> node for every FNode reachable from f, payload nodes included"""
    out, stack = {}, [f]
    while stack:
        n = stack.pop()
        if id(n) in out:
            continue
        out[id(n)] = n
        stack.extend(n.args())
        if n.is_quantifier():
            stack.extend(n.quantifier_vars())
        elif n.is_function_application():
            stack.append(n.function_name())
    return out


def interned(env, ty):
    """is `ty` (and every component) the object that env.type_manager hands out for that sort?"""
    tm = env.type_manager
    if ty.is_bool_type():
        return ty is tm.BOOL()
    if ty.is_int_type():
        return ty is tm.INT()
    if ty.is_real_type():
        return ty is tm.REAL()
    if ty.is_string_type():
        return ty is tm.STRING()
    if ty.is_bv_type():
        return ty is tm.BVType(ty.width)
    if ty.is_array_type():
        return (interned(env, ty.index_type) and interned(env, ty.elem_type)
                and ty is tm.ArrayType(ty.index_type, ty.elem_type))
    if ty.is_function_type():
        return (interned(env, ty.return_type) and all(interned(env, p) for p in ty.param_types)
                and ty is tm.FunctionType(ty.return_type, list(ty.param_types)))
    args = tuple(ty.args or ())
    if not all(interned(env, a) for a in args):
        return False
    decl = tm.Type(ty.basename, len(args))
    if len(args) == 0:
        return ty is decl
    return ty is tm.get_type_instance(decl, *args)


def node_types(n):
    """the type objects a node carries in its payload"""
    if n.is_symbol():
        return [n.symbol_type()]
    if n.is_array_value():
        return [n.array_value_index_type()]
    return []


PRED = {"and": "is_and", "or": "is_or", "not": "is_not", "implies": "is_implies", "iff": "is_iff",
        "plus": "is_plus", "minus": "is_minus", "times": "is_times", "div": "is_div", "equals": "is_equals",
        "le": "is_le", "lt": "is_lt", "ite": "is_ite", "toreal": "is_toreal", "bvnot": "is_bv_not",
        "bvand": "is_bv_and", "bvor": "is_bv_or", "bvxor": "is_bv_xor", "bvconcat": "is_bv_concat",
        "extract": "is_bv_extract", "bvult": "is_bv_ult", "bvule": "is_bv_ule", "bvneg": "is_bv_neg",
        "bvadd": "is_bv_add", "bvmul": "is_bv_mul", "bvudiv": "is_bv_udiv", "bvurem": "is_bv_urem",
        "bvshl": "is_bv_lshl", "bvlshr": "is_bv_lshr", "rol": "is_bv_rol", "ror": "is_bv_ror",
        "zext": "is_bv_zext", "sext": "is_bv_sext", "bvsub": "is_bv_sub", "bvslt": "is_bv_slt",
        "bvsle": "is_bv_sle", "bvcomp": "is_bv_comp", "bvsdiv": "is_bv_sdiv", "bvsrem": "is_bv_srem",
        "bvashr": "is_bv_ashr", "select": "is_select", "store": "is_store"}
CONST_SORTS = (BOOL, INT, REAL, STRING, BV2, BV3)
INDEX_POOL = {INT: [("Int", i) for i in range(15)],
              REAL: [("Real", Fraction(0)), ("Real", Fraction(1, 2)), ("Real", Fraction(2))],
              BV2: [("BV", i, 2) for i in range(4)]}


def _raw_ok(sort, v):
    """the Python type of a constant's value: bool / the library's Integer / Fraction class / str"""
    from pysmt.constants import is_pysmt_fraction, is_pysmt_integer
    if sort == BOOL:
        return type(v) is bool
    if sort == STRING:
        return type(v) is str
    if sort == REAL:
        return is_pysmt_fraction(v)
    return is_pysmt_integer(v) or type(v) is int


def audit_node(W, n, k, memo):
    """accessor facts of one node against its key; returns None or (accessor, msg)"""
    args = n.args()
    if not isinstance(args, tuple):
        return ("args", "args() is %r, not a tuple" % (args,))
    for i, a in enumerate(args):
        if n.arg(i) is not a:
            return ("arg", "arg(%d) is not args()[%d]" % (i, i))
    if n not in W.m:
        return ("contains", "the formula is not `in` its own formula manager")
    h = k[0]
    exp = {"is_symbol": h == "sym", "is_quantifier": h == "q", "is_forall": h == "q" and k[1] == "forall",
           "is_exists": h == "q" and k[1] == "exists", "is_function_application": h == "app",
           "is_array_value": h == "arr",
           "is_term": not (h == "sym" and isinstance(k[2], tuple) and k[2][0] == "Fun"),
           "is_literal": (h == "sym" and k[2] == BOOL) or (h == "op" and k[1] == "not" and k[3][0][0] == "sym"
                                                           and k[3][0][2] == BOOL)}
    for name, pred in PRED.items():
        exp[pred] = (h == "op" and k[1] == name)
    if h != "arr":
        exp.update({"is_constant": h == "const", "is_bool_constant": h == "const" and k[1] == BOOL,
                    "is_int_constant": h == "const" and k[1] == INT, "is_real_constant": h == "const" and k[1] == REAL,
                    "is_string_constant": h == "const" and k[1] == STRING,
                    "is_bv_constant": h == "const" and isinstance(k[1], tuple),
                    "is_true": k == ("const", BOOL, True), "is_false": k == ("const", BOOL, False),
                    "is_zero": h == "const" and k[1] in (INT, REAL) and k[2] in (0, (0, 1)),
                    "is_one": h == "const" and k[1] in (INT, REAL) and k[2] in (1, (1, 1))})
    else:
        exp["is_constant"] = _all_const(k)
    for pred, want in exp.items():
        got = getattr(n, pred)()
        if bool(got) != want:
            return (pred, "%s() is %r for %s" % (pred, got, kshort(k)))
    s = ksort(k)
    if isinstance(s, tuple) and s[0] == "BV":
        if n.bv_width() != s[1]:
            return ("bv_width", "bv_width() is %r for %s of width %d" % (n.bv_width(), kshort(k), s[1]))
    for ty in node_types(n):
        if not interned(W.env, ty):
            return ("type-object", "%s carries the type object %s that is not its environment's" % (kshort(k), ty))
    if h == "const":
        v = n.constant_value()
        if not _raw_ok(k[1], v):
            return ("constant_value", "constant_value() of %s is %r of type %s" % (kshort(k), v, type(v).__name__))
        if sort_of(n.constant_type()) != k[1]:
            return ("constant_type", "constant_type() of %s is %s" % (kshort(k), n.constant_type()))
        val = Fraction(*k[2]) if k[1] == REAL else k[2]
        other = {BOOL: (not val) if k[1] == BOOL else None, STRING: "zz"}.get(k[1], 7 if val != 7 else 8)
        for cs in CONST_SORTS:
            ty = mk_type(W.env, cs)
            if n.is_constant(ty) != (cs == k[1]):
                return ("is_constant", "is_constant(%s) is %r for %s" % (sort_str(cs), n.is_constant(ty), kshort(k)))
            if n.is_constant(ty, val) != (cs == k[1]):
                return ("is_constant", "is_constant(%s, %r) is %r for %s" % (sort_str(cs), val, n.is_constant(ty, val), kshort(k)))
        if n.is_constant(value=other) or not n.is_constant(value=val):
            return ("is_constant", "is_constant(value=..) is wrong for %s" % kshort(k))
        if isinstance(k[1], tuple):
            w = k[1][1]
            if not n.is_bv_constant(val, w) or n.is_bv_constant(val, w + 1) or n.is_bv_constant(val + 1, w):
                return ("is_bv_constant", "is_bv_constant(value, width) is wrong for %s" % kshort(k))
    if h == "arr":
        amap = n.array_value_assigned_values_map()
        d = n.array_value_default()
        if d is not args[0]:
            return ("array_value_default", "array_value_default() is not args()[0]")
        if len(args) != 1 + 2 * len(k[3]) or len(amap) != len(k[3]):
            return ("array_value_assigned_values_map", "%d arguments / %d assignments for %s"
                    % (len(args), len(amap), kshort(k)))
        want = dict(k[3])
        for c_term in INDEX_POOL.get(k[1], ()):
            c = construct(W, c_term)
            ck = norm(c_term)
            got = n.array_value_get(c)
            wantk = want.get(ck, k[2])
            gotk = okey(got, memo)
            if gotk != wantk:
                return ("array_value_get", "array_value_get(%s) is %s on %s" % (kshort(ck), kshort(gotk), kshort(k)))
            if got is not (amap[c] if c in amap else d):
                return ("array_value_get", "array_value_get(%s) is not the object held by the array value %s"
                        % (kshort(ck), kshort(k)))
    return None


def _all_const(k):
    if k[0] == "const":
        return True
    if k[0] == "arr":
        return _all_const(k[2]) and all(_all_const(i) and _all_const(v) for i, v in k[3])
    return False


def kshort(k, limit=200):
    def r(k):
        h = k[0]
        if h == "sym":
            return k[1]
        if h == "const":
            if k[1] == REAL:
                return "%d/%dr" % k[2]
            if isinstance(k[1], tuple):
                return "%d_%d" % (k[2], k[1][1])
            return repr(k[2])
        if h == "q":
            return "%s[%s].%s" % (k[1], ",".join(r(v) for v in k[2]), r(k[3][0]))
        if h == "app":
            return "%s(%s)" % (r(k[1]), ",".join(r(a) for a in k[2]))
        if h == "arr":
            return "arr<%s>{%s|%s}" % (sort_str(k[1]), r(k[2]), ",".join("%s:%s" % (r(i), r(v)) for i, v in k[3]))
        return "%s%s(%s)" % (k[1], list(k[2]) if k[2] else "", ",".join(r(a) for a in k[3]))
    s = r(k)
    return s if len(s) <= limit else s[:limit] + "..."


def kdiff(want, got, path="root"):
    """first place where two keys differ: (path, field)"""
    if want == got:
        return None
    if want[0] != got[0]:
        return (path, "node_type")
    h = want[0]
    if h in ("sym", "const"):
        return (path, {"sym": ("symbol_name", "symbol_type"), "const": ("constant_type", "constant_value")}[h][0 if want[1] != got[1] else 1])
    if h == "op":
        if want[1] != got[1]:
            return (path, "node_type")
        if want[2] != got[2]:
            return (path, "parameters")
        if len(want[3]) != len(got[3]):
            return (path, "args")
        for i, (a, b) in enumerate(zip(want[3], got[3])):
            d = kdiff(a, b, "%s.%s/%d" % (path, want[1], i))
            if d:
                return d
    if h == "q":
        if want[1] != got[1]:
            return (path, "node_type")
        if want[2] != got[2]:
            return (path, "quantifier_vars")
        return kdiff(want[3][0], got[3][0], path + ".body")
    if h == "app":
        if want[1] != got[1]:
            return (path, "function_name")
        if len(want[2]) != len(got[2]):
            return (path, "args")
        for i, (a, b) in enumerate(zip(want[2], got[2])):
            d = kdiff(a, b, "%s.app/%d" % (path, i))
            if d:
                return d
    if h == "arr":
        if want[1] != got[1]:
            return (path, "array_value_index_type")
        if want[2] != got[2]:
            return (path, "array_value_default")
        return (path, "array_value_assigned_values_map")
    return (path, "structure")


# =========================================================================================
# the universe

a, b = ("Symbol", "a", BOOL), ("Symbol", "b", BOOL)
x, y = ("Symbol", "x", INT), ("Symbol", "y", INT)
r = ("Symbol", "r", REAL)
u, v, w3 = ("Symbol", "u", BV2), ("Symbol", "v", BV2), ("Symbol", "w", BV3)
f, g = ("Symbol", "f", FII), ("Symbol", "g", FII)
p2 = ("Symbol", "p", ("Fun", BOOL, (INT, INT)))
hbv = ("Symbol", "h", ("Fun", BV2, (INT,)))
Abv = ("Symbol", "A", ("Array", INT, BV2))
s_, k_ = ("Symbol", "s", S0), ("Symbol", "k", ("Fun", S0, (S0,)))
one = ("BV", 1, 2)
HALF = Fraction(1, 2)


def I(n):
    return ("Int", n)


def R(q):
    return ("Real", q)


def PI(*pairs):
    return tuple((I(i), I(val)) for i, val in pairs)


def ARR(*pairs, **kw):
    return ("Array", INT, I(kw.get("d", 0)), PI(*pairs))


FAMILIES = {}


def family(name, blueprints, fails):
    FAMILIES[name] = {"blueprints": blueprints, "fails": fails}


family("num", [
    ("real2", [("int", R(2)), ("float", R(2.0)), ("frac", R(Fraction(2))), ("pair", R((4, 2))), ("toreal", ("ToReal", I(2)))]),
    ("half", [("float", R(0.5)), ("frac", R(HALF)), ("pair", R((1, 2))), ("pair24", R((2, 4)))]),
    ("tenth", [("frac", R(Fraction(1, 10))), ("pair", R((1, 10)))]),
    # the float 0.1 denotes its exact binary value; that Fraction compares (and hashes) equal to the float
    ("tenth-float", [("float", R(0.1)), ("frac-exact", R(Fraction(0.1)))]),
    ("int2", [("int", I(2))]),
    ("bv1_2", [("int", ("BV", 1, 2)), ("str", ("BV", "01")), ("hash", ("BV", "#b01")), ("strw", ("BV", "01", 2)),
               ("sbv", ("SBV", 1, 2)), ("one", ("BVOne", 2))]),
    ("bv3_2", [("int", ("BV", 3, 2)), ("str", ("BV", "11")), ("sbv", ("SBV", -1, 2))]),
    ("bv5_3", [("int", ("BV", 5, 3)), ("hash", ("BV", "#b101")), ("sbv", ("SBV", -3, 3))]),
    ("bv1_3", [("int", ("BV", 1, 3)), ("str", ("BV", "001"))]),
    ("true", [("TRUE", ("TRUE",)), ("Bool", ("Bool", True)), ("And0", ("And",)), ("And0l", ("And[]",))]),
    ("str_a", [("String", ("String", "a"))]),
], [("Int(2.0)", ("Int", 2.0)), ("Real('2')", ("Real", "2")), ("BV(4,2)", ("BV", 4, 2)), ("BV('01',3)", ("BV", "01", 3)),
    ("SBV(-3,2)", ("SBV", -3, 2)), ("Int(True)", ("Int", True))])

family("bool", [
    ("a", [("sym", a), ("sym-default", ("Symbol", "a")), ("notnot", ("Not", ("Not", a))), ("and1l", ("And[]", a)), ("and1", ("And", a)),
           ("or1t", ("Or()", a)), ("forall0", ("ForAll", (), a)), ("exists0", ("Exists()", (), a)),
           ("app0", ("Function", a, ()))]),
    ("not_a", [("not", ("Not", a)), ("not3", ("Not", ("Not", ("Not", a))))]),
    ("niff", [("not-iff", ("Not", ("Iff", a, b))), ("xor", ("Xor", a, b))]),
    ("iff_ab", [("iff", ("Iff", a, b)), ("eqoriff", ("EqualsOrIff", a, b))]),
    ("iff_ba", [("iff", ("Iff", b, a))]),
    ("and_ab", [("args", ("And", a, b)), ("list", ("And[]", a, b)), ("tuple", ("And()", a, b)), ("iter", ("And~", a, b))]),
    ("and_ba", [("args", ("And", b, a))]),
    ("or_ab", [("args", ("Or", a, b)), ("list", ("Or[]", a, b))]),
    ("amo", [("explicit", ("Implies", a, ("Not", b))), ("amo", ("AtMostOne", a, b)), ("amol", ("AtMostOne[]", a, b))]),
    ("xone", [("explicit", ("And", ("Or", a, b), ("Implies", a, ("Not", b)))), ("xone", ("ExactlyOne", a, b))]),
], [("And(x,a)", ("And", x, a)), ("Symbol(a,Int)", ("And", a, ("Symbol", "a", INT))), ("Not(x)", ("Not", x)), ("Bool(1)", ("Bool", 1))])

family("arith", [
    ("x", [("sym", x), ("plus1l", ("Plus[]", x)), ("times1", ("Times", x)), ("min1", ("Min", x)), ("app0", ("Function", x, ()))]),
    ("le_xy", [("le", ("LE", x, y)), ("ge", ("GE", y, x))]),
    ("le_yx", [("le", ("LE", y, x)), ("ge", ("GE", x, y))]),
    ("lt_xy", [("lt", ("LT", x, y)), ("gt", ("GT", y, x))]),
    ("neq", [("not-eq", ("Not", ("Equals", x, y))), ("noteq", ("NotEquals", x, y)), ("alldiff", ("AllDifferent", x, y))]),
    ("eq_xy", [("eq", ("Equals", x, y)), ("eqoriff", ("EqualsOrIff", x, y))]),
    ("half_r", [("times", ("Times", r, R(HALF))), ("div-int", ("Div", r, R(2))), ("div-float", ("Div", r, R(2.0))),
                ("timesl-pair", ("Times[]", r, R((1, 2))))]),
    ("r", [("sym", r), ("toreal", ("ToReal", r))]),
    ("min_xy", [("explicit", ("Ite", ("LE", x, y), x, y)), ("min", ("Min", x, y)), ("minl", ("Min[]", x, y))]),
    ("max_xy", [("explicit", ("Ite", ("LE", x, y), y, x)), ("max", ("Max", x, y))]),
    ("plus_xy", [("args", ("Plus", x, y)), ("list", ("Plus[]", x, y)), ("iter", ("Plus~", x, y))]),
    ("plus_yx", [("args", ("Plus", y, x))]),
    ("toreal_x", [("toreal", ("ToReal", x))]),
    ("div_x2", [("div", ("Div", x, I(2)))]),
], [("Times(x,1/2)", ("Times", x, R(HALF))), ("LE(x,r)", ("LE", x, r)), ("ToReal(a)", ("ToReal", a)), ("Plus()", ("Plus",))])

family("bv", [
    ("add3", [("nested", ("BVAdd", ("BVAdd", u, v), one)), ("args", ("BVAdd", u, v, one)), ("list", ("BVAdd[]", u, v, one))]),
    ("and3", [("nested", ("BVAnd", ("BVAnd", u, v), u)), ("tuple", ("BVAnd()", u, v, u))]),
    ("mul3", [("nested", ("BVMul", ("BVMul", u, v), u)), ("list", ("BVMul[]", u, v, u))]),
    ("cat3", [("nested", ("BVConcat", ("BVConcat", u, v), u)), ("args", ("BVConcat", u, v, u)), ("list", ("BVConcat[]", u, v, u))]),
    ("cat_uu", [("concat", ("BVConcat", u, u)), ("repeat2", ("BVRepeat", u, 2))]),
    ("cat_uuu", [("repeat3", ("BVRepeat", u, 3)), ("args", ("BVConcat", u, u, u))]),
    ("u", [("sym", u), ("add1l", ("BVAdd[]", u)), ("and1", ("BVAnd", u)), ("or1t", ("BVOr()", u)), ("repeat1", ("BVRepeat", u, 1)),
           ("repeat", ("BVRepeat", u))]),
    ("nand", [("explicit", ("BVNot", ("BVAnd", u, v))), ("nand", ("BVNand", u, v))]),
    ("xnor", [("explicit", ("BVNot", ("BVXor", u, v))), ("xnor", ("BVXnor", u, v))]),
    ("ult_vu", [("ult", ("BVULT", v, u)), ("ugt", ("BVUGT", u, v))]),
    ("ule_vu", [("ule", ("BVULE", v, u)), ("uge", ("BVUGE", u, v))]),
    ("slt_vu", [("slt", ("BVSLT", v, u)), ("sgt", ("BVSGT", u, v))]),
    ("sle_vu", [("sle", ("BVSLE", v, u)), ("sge", ("BVSGE", u, v))]),
    ("ult_uv", [("ult", ("BVULT", u, v))]),
], [("BVAdd(u,w3)", ("BVAdd", u, w3)), ("BVConcat[u]", ("BVConcat[]", u)), ("BVAnd()", ("BVAnd",)), ("BVULT(u,x)", ("BVULT", u, x))])

family("bvp", [
    ("shl1", [("bv", ("BVLShl", u, one)), ("int", ("BVLShl", u, 1))]),
    ("lshr1", [("bv", ("BVLShr", u, one)), ("int", ("BVLShr", u, 1))]),
    ("ashr1", [("bv", ("BVAShr", u, one)), ("int", ("BVAShr", u, 1))]),
    ("ext01", [("full", ("BVExtract", u, 0, 1)), ("defaults", ("BVExtract", u)), ("start", ("BVExtract", u, 0)),
               ("slice", ("BVSlice", u, 0, 1)), ("slice-open", ("BVSlice", u, None, None))]),
    ("ext00", [("full", ("BVExtract", u, 0, 0)), ("end", ("BVExtract", u, None, 0)),
               ("slice", ("BVSlice", u, 0, 0)), ("slice-to", ("BVSlice", u, None, 0)), ("index", ("BVIndex", u, 0))]),
    ("ext11", [("full", ("BVExtract", u, 1, 1)), ("start", ("BVExtract", u, 1)),
               ("slice-from", ("BVSlice", u, 1, None)), ("index", ("BVIndex", u, 1))]),
    ("rol1", [("rol", ("BVRol", u, 1))]), ("ror1", [("ror", ("BVRor", u, 1))]),
    ("rol0", [("rol", ("BVRol", u, 0))]), ("rol2", [("rol", ("BVRol", u, 2))]),
    ("zext1", [("zext", ("BVZExt", u, 1))]), ("sext1", [("sext", ("BVSExt", u, 1))]),
    ("zext2", [("zext", ("BVZExt", u, 2))]), ("zext0", [("zext", ("BVZExt", u, 0))]),
    ("comp", [("comp", ("BVComp", u, v))]),
    ("ite_uv", [("ite", ("Ite", a, u, v))]), ("sel_A", [("select", ("Select", Abv, x))]),
    ("app_h", [("app", ("Function", hbv, (x,)))]),
    ("neg_ite", [("neg", ("BVNeg", ("Ite", a, ("Ite", a, u, v), v)))]),
    ("sub_uv", [("sub", ("BVSub", u, v))]), ("sub_vu", [("sub", ("BVSub", v, u))]),
], [("BVExtract(u,1,0)", ("BVExtract", u, 1, 0)), ("BVRol(u,'1')", ("BVRol", u, "1")), ("BVZExt(u,-1)", ("BVZExt", u, -1)),
    ("BVLShl(u,4)", ("BVLShl", u, 4))])

R2, RH = R(2), R(HALF)
ARR0 = ("Array", INT, I(0))
family("array", [
    ("arr12_23", [("o12", ARR((1, 2), (2, 3))), ("o21", ARR((2, 3), (1, 2))), ("d3-first", ARR((3, 0), (1, 2), (2, 3))),
                  ("d3-mid", ARR((1, 2), (3, 0), (2, 3))), ("o21-d3-last", ARR((2, 3), (1, 2), (3, 0)))]),
    ("arr13_22", [("o12", ARR((1, 3), (2, 2))), ("o21", ARR((2, 2), (1, 3)))]),
    ("arr12", [("plain", ARR((1, 2))), ("d-last", ARR((1, 2), (2, 0))), ("d-first", ARR((2, 0), (1, 2)))]),
    ("arr0", [("omit", ARR0), ("none", ARR0 + (None,)), ("empty", ARR0 + ((),)), ("d1", ARR((1, 0))), ("d21", ARR((2, 0), (1, 0)))]),
    # beyond the small sizes: twelve assigned cells (look-ups by bisection over the stored cells)
    ("arr_big", [("up", ARR(*[(i, i + 1) for i in range(1, 13)])), ("down", ARR(*[(i, i + 1) for i in range(12, 0, -1)])),
                 ("d-mid", ARR(*([(i, i + 1) for i in range(1, 7)] + [(14, 0)] + [(i, i + 1) for i in range(7, 13)])))]),
    ("arr0_real", [("omit", ("Array", REAL, I(0)))]),
    ("arr0_bv", [("omit", ("Array", BV2, I(0)))]),
    ("arr_d2", [("plain", ARR((2, 3), d=2)), ("d-first", ARR((1, 2), (2, 3), d=2)), ("d-last", ARR((2, 3), (1, 2), d=2))]),
    ("arr_r2", [("int", ("Array", REAL, I(0), ((R2, I(1)),))), ("float", ("Array", REAL, I(0), ((R(2.0), I(1)),))),
                ("toreal", ("Array", REAL, I(0), ((("ToReal", I(2)), I(1)),)))]),
    ("arr_r2h", [("o12", ("Array", REAL, I(0), ((R2, I(1)), (RH, I(2))))), ("o21", ("Array", REAL, I(0), ((R(0.5), I(2)), (R((4, 2)), I(1)))))]),
    ("sel", [("o12", ("Select", ARR((1, 2), (2, 3)), I(1))), ("o21", ("Select", ARR((2, 3), (1, 2)), I(1)))]),
    ("nested", [("o12", ("Array", INT, ARR0, ((I(1), ARR((1, 2), (2, 3))), (I(2), ARR0)))),
                ("o21", ("Array", INT, ARR((1, 0)), ((I(1), ARR((2, 3), (1, 2))),)))]),
], [("Array(idx x)", ("Array", INT, I(0), ((x, I(1)),))), ("Array(idx Real)", ("Array", INT, I(0), ((R2, I(1)),))),
    ("Array(val Bool)", ("Array", INT, I(0), ((I(1), ("TRUE",)),))), ("Select(arr,Real)", ("Select", ARR((1, 2)), R2))])

BODY = ("LE", x, y)
FX = ("Function", f, (x,))
family("quf", [
    ("fa_x", [("list", ("ForAll", (x,), BODY)), ("tuple-ge", ("ForAll()", (x,), ("GE", y, x))), ("iter", ("ForAll~", (x,), BODY)),
              ("over-empty", ("ForAll", (x,), ("ForAll", (), BODY)))]),
    ("ex_x", [("list", ("Exists", (x,), BODY))]),
    ("fa_xy", [("list", ("ForAll", (x, y), BODY))]), ("fa_yx", [("list", ("ForAll", (y, x), BODY))]),
    ("fa_x_fa_y", [("nested", ("ForAll", (x,), ("ForAll", (y,), BODY)))]),
    ("fa_x_a", [("list", ("ForAll", (x,), a))]), ("fa_y_a", [("list", ("ForAll", (y,), a))]),
    ("fx", [("list", FX), ("tuple", ("Function()", f, (x,))), ("plus1", ("Function", f, (("Plus[]", x),)))]),
    ("gx", [("list", ("Function", g, (x,)))]),
    ("pxy", [("list", ("Function", p2, (x, y)))]), ("pyx", [("list", ("Function", p2, (y, x)))]),
    ("f", [("sym", f)]),
    ("ffx", [("nested", ("Function", f, (FX,)))]),
    ("ks", [("eq", ("Equals", s_, ("Function", k_, (s_,)))), ("eqoriff", ("EqualsOrIff", s_, ("Function()", k_, (s_,))))]),
    ("fa_s", [("list", ("ForAll", (s_,), ("Equals", s_, s_)))]),
], [("ForAll([1],a)", ("ForAll", (I(1),), a)), ("f(x,y)", ("Function", f, (x, y))), ("f(a)", ("Function", f, (a,))),
    ("ForAll([x],x)", ("ForAll", (x,), x))])

FAMILY_ORDER = ["num", "bool", "arith", "bv", "bvp", "array", "quf"]
SPELL = {}     # (family, blueprint, spelling) -> surface term
KEY = {}       # (family, blueprint) -> key
FAILS = {}     # (family, name) -> surface term
NOISE = 3


def _self_check():
    """the universe must be coherent under this module's own normaliser (harness self-test)"""
    for fam, F in FAMILIES.items():
        seen = {}
        for bp, spells in F["blueprints"]:
            keys = set()
            for sp, t in spells:
                SPELL[(fam, bp, sp)] = t
                keys.add(norm(t))
            assert len(keys) == 1, "spellings of %s/%s disagree: %r" % (fam, bp, keys)
            k = keys.pop()
            assert k not in seen, "blueprints %s and %s of %s have the same key" % (bp, seen.get(k), fam)
            seen[k] = bp
            KEY[(fam, bp)] = k
        for nm, t in F["fails"]:
            FAILS[(fam, nm)] = t


_self_check()


def alphabet(fam, core=False):
    F = FAMILIES[fam]
    evs = []
    for bp, spells in F["blueprints"]:
        for sp, _t in (spells[:2] if core else spells):
            evs.append(("b", bp, sp))
    evs.append(("t",))
    for i in range(1 if core else NOISE):
        evs.append(("n", i))
    for nm, _t in (F["fails"][:1] if core else F["fails"]):
        evs.append(("f", nm))
    return evs


def noise(W, i):
    m = W.m
    if i == 0:       # unrelated symbols, constants and operators
        ns = [m.Symbol("n%d" % j, mk_type(W.env, INT)) for j in range(3)]
        m.Plus(ns)
        m.And(m.LE(ns[0], m.Int(100)), m.Symbol("nb", mk_type(W.env, BOOL)))
        m.FreshSymbol(mk_type(W.env, BV2))
    elif i == 1:     # constants of the index pools in descending order (ids and addresses interleave)
        for j in (4, 3, 2, 1, 0):
            m.Int(j)
        m.Real(Fraction(2))
        m.Real(HALF)
        for j in (3, 2, 1, 0):
            m.BV(j, 2)
        m.Array(mk_type(W.env, INT), m.Int(9), {m.Int(3): m.Int(1), m.Int(1): m.Int(3)})
    else:            # short-lived formula nodes of another manager: freed slots are recycled by later nodes
        from pysmt.fnode import FNode, FNodeContent
        ty = mk_type(W.env, BV2)
        junk = [FNode(FNodeContent(op.SYMBOL, (), ("j%d" % j, ty)), 1000 + j) for j in range(16)]
        W.keep = junk[::2]
        del junk


class Bad(Exception):
    def __init__(self, kind, where, msg):
        Exception.__init__(self, msg)
        self.kind, self.where, self.msg = kind, where, msg


def run_history(fam, hist):
    """replay in a fresh environment, then the oracle; returns (stats, None) or (stats, Bad)"""
    W = World()
    push_env(W.env)
    stats = {"roots": 0, "equal_pairs": 0, "raised": 0}
    try:
        roots = []      # (blueprint, spelling, key, obj)
        for ev in hist:
            kind = ev[0]
            if kind == "b":
                t = SPELL[(fam, ev[1], ev[2])]
                try:
                    obj = construct(W, t)
                except Exception as e:
                    return stats, Bad("exception:%s" % type(e).__name__, "%s.%s" % (ev[1], ev[2]),
                                      "building %s by the spelling %s raised %r" % (ev[1], ev[2], e))
                roots.append((ev[1], ev[2], KEY[(fam, ev[1])], obj))
            elif kind == "n":
                noise(W, ev[1])
            elif kind == "f":
                try:
                    construct(W, FAILS[(fam, ev[1])])
                except Exception:
                    stats["raised"] += 1
            elif kind == "t":
                for bp, sp, k, obj in roots:
                    for got in (W.env.stc.get_type(obj), obj.get_type()):
                        if sort_of(got) != ksort(k):
                            return stats, Bad("type", bp, "%s built by %s has type %s" % (kshort(k), sp, got))
        stats["roots"] = len(roots)
        return stats, oracle(W, roots, stats)
    finally:
        pop_env()


def oracle(W, roots, stats):
    # identity  <=>  equal keys, for all pairs
    for i in range(len(roots)):
        for j in range(i + 1, len(roots)):
            bi, si, ki, oi = roots[i]
            bj, sj, kj, oj = roots[j]
            if ki == kj:
                stats["equal_pairs"] += 1
                if oi is not oj:
                    return Bad("two-objects", bi, "%s built by the spellings %s and %s gives two different objects"
                               % (kshort(ki), si, sj))
            elif oi is oj:
                return Bad("one-object", "|".join(sorted((bi, bj))),
                           "the different structures %s and %s are one object" % (kshort(ki), kshort(kj)))
    # accessors report the blueprint
    memo = {}
    for bp, sp, k, obj in roots:
        try:
            got = okey(obj, memo)
        except Exception as e:
            return Bad("accessor:exception", bp, "reading %s (built by %s) through its accessors raised %r" % (kshort(k), sp, e))
        if got != k:
            d = kdiff(k, got)
            return Bad("accessor:%s" % d[1], bp, "%s built by %s reads back as %s (at %s)" % (kshort(k), sp, kshort(got), d[0]))
    # one object per structure, everywhere below the roots
    reg = {}
    for n, k in list(memo.values()):
        o = reg.setdefault(k, n)
        if o is not n:
            return Bad("two-objects-below", k[1] if k[0] == "op" else k[0], "the sub-structure %s is held by two objects" % kshort(k))
    for n, k in list(memo.values()):
        try:
            bad = audit_node(W, n, k, memo)
        except Exception as e:
            bad = ("exception", "auditing %s raised %r" % (kshort(k), e))
        if bad:
            return Bad("accessor:%s" % bad[0], k[1] if k[0] in ("op", "q") else k[0], bad[1])
    return None


def _ab(ev):
    if ev[0] == "b":
        return "%s.%s" % (ev[1], ev[2])
    if ev[0] == "n":
        return "noise%d" % ev[1]
    if ev[0] == "f":
        return "fail[%s]" % ev[1]
    return "types"


def minimise(fam, hist, bad):
    cur = list(hist)
    changed = True
    while changed and len(cur) > 1:
        changed = False
        for i in range(len(cur)):
            cand = cur[:i] + cur[i + 1:]
            _s, b2 = run_history(fam, tuple(cand))
            if b2 is not None and b2.kind == bad.kind and b2.where == bad.where:
                cur, bad, changed = cand, b2, True
                break
    return cur, bad


def is_nontrivial(fam, hist):
    seen = {}
    for ev in hist:
        if ev[0] == "b":
            if seen.setdefault(ev[1], ev[2]) != ev[2]:
                return True
    return False


def run_hist_shard(args):
    fam, L, prefix, core, seed = args
    res = Result()
    evs = alphabet(fam, core)
    for tail in itertools.product(evs, repeat=L - len(prefix)):
        hist = tuple(prefix) + tail
        res.count("evaluations")
        stats, bad = run_history(fam, hist)
        nt = is_nontrivial(fam, hist)
        if nt:
            res.count("nontrivial")
            res.sample({"part": "hist-" + fam, "history": [list(e) for e in hist]}, limit=1)
        res.outcome("%s: roots=%d equal-pairs=%d failed-constructions=%d%s"
                    % (fam, stats["roots"], stats["equal_pairs"], stats["raised"], "" if bad is None else " VIOLATION"))
        if bad is not None:
            mh, mb = minimise(fam, hist, bad)
            res.violation("hist-" + fam, "hist:%s:%s:%s" % (fam, mb.where, mb.kind),
                          "after [%s]: %s" % (" ; ".join(_ab(e) for e in mh), mb.msg),
                          {"part": "hist", "family": fam, "history": [list(e) for e in mh]})
    return res


def hist_shards(ctx):
    plans = []
    for fam in FAMILY_ORDER:
        if getattr(ctx, "parts", None) and ("hist-" + fam) not in ctx.parts and "hist" not in ctx.parts:
            continue
        plans.append((fam, HIST_DEPTH["quick" if ctx.quick else "thorough"], False))
        if not ctx.quick and fam not in NO_CORE_PLAN:
            plans.append((fam, HIST_DEPTH["thorough-core"], True))
    shards = []
    for fam, depth, core in plans:
        evs = alphabet(fam, core)
        # the full-alphabet plan covers every length up to its depth; the core plan only adds its last level
        lengths = range(1, depth + 1) if not core else [depth]
        for L in lengths:
            if L <= 2:
                shards.append((fam, L, (), core, ctx.seed))
            else:
                for pre in itertools.product(evs, repeat=2):
                    shards.append((fam, L, pre, core, ctx.seed))
    return shards, plans


HIST_DEPTH = {"quick": 3, "thorough": 3, "thorough-core": 4}
NO_CORE_PLAN = {"bvp"}      # (nearly) one spelling per blueprint: the core alphabet is the full one


# =========================================================================================
# part 2: copies between environments

def sorts_profile(env):
    """custom and parametric sorts, alone and nested inside array / function / parametric sorts"""
    p = termgen.Profile("sorts", env)
    m = p.m
    PInt, PS = ("Sort", "P", (INT,)), ("Sort", "P", (S0,))
    PQ = ("Sort", "P", (("Sort", "Q", (INT,)),))
    ASS, AIP = ("Array", S0, S0), ("Array", INT, PInt)
    s1, s2 = p.sym("s1", S0), p.sym("s2", S0)
    pi, ps, pq = p.sym("pi", PInt), p.sym("ps", PS), p.sym("pq", PQ)
    ass, aip = p.sym("ass", ASS), p.sym("aip", AIP)
    fs = p.sym("fs", ("Fun", S0, (S0, PInt)))
    fp = p.sym("fp", ("Fun", PInt, (INT,)))
    fa = p.sym("fa", ("Fun", BOOL, (ASS,)))
    xi = p.sym("x", INT)
    p.leaf(S0, s1, s2)
    p.leaf(PInt, pi)
    p.leaf(PS, ps)
    p.leaf(PQ, pq)
    p.leaf(ASS, ass, m.Array(mk_type(env, S0), s1))
    p.leaf(AIP, aip, m.Array(mk_type(env, INT), pi, {m.Int(1): m.Function(fp, [m.Int(2)])}))
    p.leaf(INT, xi, m.Int(0))
    p.leaf(BOOL, p.sym("a", BOOL))
    p.leaf(("Fun", S0, (S0, PInt)), fs)
    p.op("eqS", [S0, S0], BOOL, lambda m, a, b: m.Equals(a, b))
    p.op("eqP", [PInt, PInt], BOOL, lambda m, a, b: m.Equals(a, b))
    p.op("eqPS", [PS, PS], BOOL, lambda m, a, b: m.Equals(a, b))
    p.op("eqPQ", [PQ, PQ], BOOL, lambda m, a, b: m.Equals(a, b))
    p.op("fs", [S0, PInt], S0, lambda m, a, b: m.Function(fs, [a, b]))
    p.op("fp", [INT], PInt, lambda m, a: m.Function(fp, [a]))
    p.op("fa", [ASS], BOOL, lambda m, a: m.Function(fa, [a]))
    p.op("selS", [ASS, S0], S0, lambda m, a, i: m.Select(a, i))
    p.op("selP", [AIP, INT], PInt, lambda m, a, i: m.Select(a, i))
    p.op("stoS", [ASS, S0, S0], ASS, lambda m, a, i, v: m.Store(a, i, v))
    p.op("iteS", [BOOL, S0, S0], S0, lambda m, c, a, b: m.Ite(c, a, b))
    p.op("not", [BOOL], BOOL, lambda m, a: m.Not(a))
    p.op("and", [BOOL, BOOL], BOOL, lambda m, a, b: m.And(a, b))
    p.op("forall_s1", [BOOL], BOOL, lambda m, a: m.ForAll([s1], a))
    p.op("exists_pi_x", [BOOL], BOOL, lambda m, a: m.Exists([pi, xi], a))
    p.op("forall_ass", [BOOL], BOOL, lambda m, a: m.ForAll([ass], a))
    p.op("arrS", [S0], ASS, lambda m, a: m.Array(mk_type(env, S0), a))
    return p


def _names(*ns):
    s = set(ns)
    return lambda o: o.name in s


def _binary_or_less(o):
    return len(o.args) <= 2


def parts(ctx):
    q = ctx.quick
    ps = []
    A = ps.append
    A(dict(name="copy-sorts-d2", profile=sorts_profile, depth=2, shards=8, max_new=1 if q else None))
    A(dict(name="copy-bool-d2", profile=lambda e: P.bool_profile(e, 2), depth=2, shards=8 if q else 48,
           mid_ops=_binary_or_less, top_ops=None if not q else _binary_or_less, max_new=1 if q else None))
    A(dict(name="copy-lira-d2", profile=P.lira_profile, depth=2, shards=16,
           mid_ops=_binary_or_less, top_ops=_binary_or_less, max_new=1))
    A(dict(name="copy-lia-d1", profile=P.lia_profile, depth=1, shards=2))
    A(dict(name="copy-lra-d1", profile=P.lra_profile, depth=1, shards=2))
    A(dict(name="copy-bv12-d1", profile=lambda e: P.bv_profile(e, (1, 2)), depth=1, shards=4))
    A(dict(name="copy-bv3-d1", profile=lambda e: P.bv_profile(e, (3,)), depth=1, shards=4))
    A(dict(name="copy-str-d1", profile=P.str_profile, depth=1, shards=4))
    for nm, i, e_ in (("int-int", INT, INT), ("bv2-bv2", BV2, BV2), ("real-bool", REAL, BOOL)):
        A(dict(name="copy-arr-%s-d2" % nm, profile=(lambda i, e_: lambda e: P.arr_profile(e, i, e_))(i, e_),
               depth=2, shards=8, mid_ops=lambda o: o.name != "arrite", top_ops=lambda o: o.name != "store",
               max_new=1))
    A(dict(name="copy-uf-d2", profile=P.uf_profile, depth=2, shards=8, max_new=1 if q else None))
    A(dict(name="copy-quant-d2", profile=P.quant_profile, depth=2, shards=16, max_new=1,
           mid_ops=_binary_or_less if q else None))
    if not q:
        A(dict(name="copy-bv12-d2", profile=lambda e: P.bv_profile(e, (1, 2), nsyms=1), depth=2, shards=32,
               mid_ops=_binary_or_less, top_ops=_binary_or_less, max_new=1))
        A(dict(name="copy-lia-d2", profile=lambda e: P.lia_profile(e, big=True), depth=2, shards=16,
               mid_ops=_binary_or_less, top_ops=_binary_or_less, max_new=1))
        A(dict(name="copy-lra-d2", profile=P.lra_profile, depth=2, shards=16,
               mid_ops=_binary_or_less, top_ops=_binary_or_less, max_new=1))
        A(dict(name="copy-str-d2", profile=lambda e: P.str_profile(e, strs=("", "ab"), ints=(-1, 0, 1)), depth=2,
               shards=16, max_new=1))
    return ps


def symbols_of(f):
    return sorted(((n.symbol_name(), sort_of(n.symbol_type())) for n in all_nodes(f).values() if n.is_symbol()),
                  key=repr)


def prepopulate(env, syms):
    """same-named symbols, created in another order and among other formulas"""
    m = env.formula_manager
    m.Symbol("zz-unrelated", mk_type(env, BV3))
    for name, sort in reversed(sorted(syms, key=repr)):
        m.Symbol(name, mk_type(env, sort))
        m.Int(len(name))


def role(root, n):
    """what a node is inside a formula: payload role, or its operator (symbols with their sort constructor)"""
    for m in all_nodes(root).values():
        if m.is_function_application() and m.function_name() is n:
            return "function-name"
        if m.is_quantifier() and any(q is n for q in m.quantifier_vars()):
            return "quantifier-variable"
    if n.is_symbol():
        s = sort_of(n.symbol_type())
        return "SYMBOL<%s>" % (s if not isinstance(s, tuple) else ("Sort/%d" % len(s[2]) if s[0] == "Sort" else s[0]))
    return op.op_to_str(n.node_type())


def copy_audit(X, Y, f, kf, nodes_f):
    """f lives in X; returns (g, None) or (g, (kind, msg))"""
    try:
        g = Y.formula_manager.normalize(f)
    except Exception as e:
        return None, ("exception:%s" % type(e).__name__, "normalize raised %r" % (e,))
    try:
        kg = okey(g, {})
    except Exception as e:
        return g, ("structure", "the copy cannot be read back: %r" % (e,))
    if kg != kf:
        d = kdiff(kf, kg)
        return g, ("structure", "the copy reads back as %s (differs at %s: %s)" % (kshort(kg), d[0], d[1]))
    nodes_g = all_nodes(g)
    shared = [n for i, n in nodes_g.items() if i in nodes_f]
    if shared:
        return g, ("shared-node:" + role(g, shared[0]), "the copy shares the node %s with the source environment" % (shared[0],))
    for n in nodes_g.values():
        if n not in Y.formula_manager:
            return g, ("not-in-target:" + role(g, n), "the node %s of the copy is not `in` the target manager" % (n,))
        if n in X.formula_manager:
            return g, ("in-source:" + role(g, n), "the node %s of the copy is `in` the source manager" % (n,))
        for ty in node_types(n):
            if not interned(Y, ty):
                return g, ("foreign-type:" + role(g, n), "the node %s of the copy carries a type object %s that is "
                           "not the target type manager's" % (n, ty))
    if Y.formula_manager.normalize(f) is not g:
        return g, ("unstable", "normalising the same formula twice gives two objects")
    if Y.formula_manager.normalize(g) is not g:
        return g, ("not-idempotent", "a formula of the target does not normalise to itself")
    back = X.formula_manager.normalize(g)
    if back is not f:
        return g, ("round-trip", "normalising the copy back gives %s, not the original object" % (back,))
    return g, None


def copy_case(X, f, targets):
    """all ordered pairs of {X} + targets; returns None or (kind, msg)"""
    try:
        return _copy_case(X, f, targets)
    except Exception as e:
        return ("exception:%s" % type(e).__name__, "copying between the environments raised %r" % (e,))


def _copy_case(X, f, targets):
    kf = okey(f, {})
    nodes_f = all_nodes(f)
    copies = []
    for nm, Y in targets:
        if nm == "clashing":
            bad = clash_case(X, f, Y, kf) if any(n.is_symbol() for n in nodes_f.values()) else None
            if bad:
                return bad
            continue
        g, bad = copy_audit(X, Y, f, kf, nodes_f)
        if bad:
            return ("%s" % bad[0], "X->%s: %s" % (nm, bad[1]))
        copies.append((nm, Y, g))
    for (n1, Y1, g1), (n2, Y2, g2) in itertools.permutations(copies, 2):
        h, bad = copy_audit(Y1, Y2, g1, kf, all_nodes(g1))
        if bad:
            return (bad[0], "%s->%s: %s" % (n1, n2, bad[1]))
        if h is not g2:
            return ("two-objects", "%s->%s gives another object than X->%s" % (n1, n2, n2))
    return None


def clash_sort(s):
    """another sort for the same name; chosen so that polymorphic contexts (=, <=, ite, binders) still type-check"""
    if s == INT:
        return REAL
    if s == REAL:
        return INT
    if s == BOOL:
        return INT
    if isinstance(s, tuple) and s[0] == "BV":
        return ("BV", s[1] + 1)
    if isinstance(s, tuple) and s[0] == "Fun":
        return ("Fun", clash_sort(s[1]), s[2])
    if isinstance(s, tuple) and s[0] == "Array":
        return ("Array", s[1], clash_sort(s[2]))
    return BOOL


def clashing(syms):
    """a target that already owns every name of `syms` with another type: a faithful copy does not exist"""
    Y = Environment()
    for name, sort in syms:
        Y.formula_manager.Symbol(name, mk_type(Y, clash_sort(sort)))
    return Y


def clash_case(X, f, Y, kf):
    """normalising into a target whose same-named symbols have other types: refuse, or copy faithfully"""
    from pysmt.exceptions import PysmtTypeError, PysmtValueError
    before = dict((n, sort_of(v.symbol_type())) for n, v in Y.formula_manager.symbols.items())
    try:
        g = Y.formula_manager.normalize(f)
    except (PysmtTypeError, PysmtValueError):
        g = None
    if g is not None:
        kg = okey(g, {})
        if kg != kf:
            d = kdiff(kf, kg)
            return ("clash-structure", "X->clashing: a target that owns the same names with other types got the "
                    "copy %s (differs at %s: %s) instead of a refusal" % (kshort(kg), d[0], d[1]))
    for n, srt in before.items():
        v = Y.formula_manager.symbols.get(n)
        if v is None or sort_of(v.symbol_type()) != srt:
            return ("clash-redeclared", "X->clashing: the target's own symbol %s changed type" % n)
    return None


def fresh_targets(syms):
    Y1, Y2 = Environment(), Environment()
    prepopulate(Y2, syms)
    return [("empty", Y1), ("prepopulated", Y2), ("clashing", clashing(syms))]


def sort_shape(s):
    """root constructor of a sort and, if any, the parametric custom sorts nested inside it"""
    if not isinstance(s, tuple):
        return s
    inner = set()

    def walk(x, top):
        if isinstance(x, tuple):
            if x[0] == "Sort" and len(x[2]) > 0 and not top:
                inner.add("Sort/%d" % len(x[2]))
            for y in (x[1:] if x[0] != "Sort" else x[2]):
                if isinstance(y, tuple) and len(y) > 0 and not isinstance(y[0], str):
                    for z in y:
                        walk(z, False)
                else:
                    walk(y, False)
    walk(s, True)
    root = "Sort/%d" % len(s[2]) if s[0] == "Sort" else s[0]
    if inner:
        return "%s containing %s" % (root, "+".join(sorted(inner)))
    return sort_str(s)


def copy_sig(f, kind):
    import pysmt.operators as ops
    from ..core.sig import kind as child_kind
    if f.is_symbol():
        return "copy:SYMBOL<%s>:%s" % (sort_shape(sort_of(f.symbol_type())), kind)
    extra = ""
    if f.is_quantifier():
        extra = "[%s]" % ",".join(sort_str(sort_of(q.symbol_type())) for q in f.quantifier_vars())
    elif f.is_function_application():
        extra = "<%s>" % sort_str(sort_of(f.function_name().symbol_type()))
    elif f.is_array_value():
        extra = "<%s>" % sort_str(sort_of(f.array_value_index_type()))
    return "copy:%s%s(%s):%s" % (ops.op_to_str(f.node_type()), extra, ",".join(child_kind(c) for c in f.args()), kind)


def make_copy_check(env, profile, res, part):
    syms = list(profile.symbols.items())
    targets = fresh_targets(syms)
    from ..core.sig import subterms_postorder

    def check(f):
        bad = copy_case(env, f, targets)
        res.outcome("%s:%s" % (part["name"], "ok" if bad is None else bad[0]))
        if len(f.args()) > 0:
            res.count("nontrivial")
            res.sample({"part": "copy", "term": termio.dump(f)}, limit=2)
        if bad is None:
            return
        # minimise: the first sub-term (post-order) that fails on its own with fresh targets
        small, sbad = f, bad
        payload = [n for n in all_nodes(f).values() if n.is_symbol()]
        for sub in sorted(payload, key=lambda n: n.symbol_name()) + subterms_postorder(f):
            b2 = copy_case(env, sub, fresh_targets(symbols_of(sub)))
            if b2:
                small, sbad = sub, b2
                break
        sig = "copy:" + sbad[0] if ":" in sbad[0] and not sbad[0].startswith("exception") else copy_sig(small, sbad[0])
        res.violation(part["name"], sig, "%s: %s" % (termio.short(termio.dump(small)), sbad[1]),
                      {"part": "copy", "term": termio.dump(small)})
    return check


# =========================================================================================

def run(ctx):
    ctx.level = "model_checking"
    q = ctx.quick
    shards, plans = hist_shards(ctx)
    nev = {fam: len(alphabet(fam)) for fam in FAMILY_ORDER}
    ctx.rule = ("part 1: every history of length <= %d over the event alphabet of each of %d families (%s events: build "
                "one blueprint by one spelling, type queries, %d kinds of unrelated constructions, failing "
                "constructions)%s, each replayed in a fresh Environment; afterwards identity <=> equal independently "
                "normalised keys for all pairs, accessors read back the key, one object per sub-structure; no state "
                "merging (a state is a history); non-trivial = one blueprint built by two different spellings.  part 2: "
                "every application of the listed profiles up to depth 2 copied between all ordered pairs of three "
                "environments (source, empty, pre-populated); non-trivial = compound term"
                % (HIST_DEPTH["quick" if q else "thorough"], len(FAMILY_ORDER),
                   "/".join(str(nev[f]) for f in FAMILY_ORDER), NOISE,
                   "" if q else " plus length %d over the core alphabet (two spellings per blueprint)" % HIST_DEPTH["thorough-core"]))
    ctx.assumptions = ["the key of a spelling is computed by the normaliser of mc/props/c04.py from the documented "
                       "constructor normalisations (a float denotes its exact binary value)",
                       "the order of the assignments inside args() of an array value is not part of the structure",
                       "group predicates (is_bool_op, is_theory_relation, ...) are not checked; typed constant "
                       "predicates are not called on array values (documented to raise)"]
    ctx.rng.shuffle(shards)
    if shards:
        ctx.pmap(run_hist_shard, shards)
    hist_n = ctx.res.counters.get("evaluations", 0)
    sweep.sweep(ctx, parts(ctx), make_copy_check)
    ctx.coverage.update({"states": hist_n, "transitions": hist_n, "traces_validated_against_impl": hist_n,
                         "history_plans": [{"family": f_, "depth": d, "alphabet": len(alphabet(f_, c)), "core": c}
                                           for f_, d, c in plans],
                         "copy_terms": ctx.res.counters.get("evaluations", 0) - hist_n,
                         "blueprints": len(KEY), "spellings": len(SPELL)})


def replay(rec):
    c = rec["case"]
    if c.get("part") == "hist":
        hist = tuple(tuple(e) for e in c["history"])
        _stats, bad = run_history(c["family"], hist)
        if bad is not None:
            return False, "after [%s]: %s" % (" ; ".join(_ab(e) for e in hist), bad.msg)
        return True, "after [%s]: identity, accessors and membership agree with the keys" % " ; ".join(_ab(e) for e in hist)
    X = Environment()
    push_env(X)
    try:
        f = termio.build(X, c["term"])
        bad = copy_case(X, f, fresh_targets(symbols_of(f)))
        if bad:
            return False, "%s: %s" % (termio.short(c["term"]), bad[1])
        return True, "%s: faithful copies between all pairs of environments" % termio.short(c["term"])
    finally:
        pop_env()
