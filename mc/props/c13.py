"""C13 - detected logic covers the formula; logic ordering and selection are sound.

Part (a) - exhaustive finite relation, on the real ``pysmt.logics`` objects:
  a-theories  every ordered pair of a universe of theories (all well-formed attribute vectors: 864
              without floating_point in the quick tier, all 1728 in the thorough tier; a superset of
              the closure of the theories of the named logics and of the theory oracle's atomic
              theories under ``combine`` and the ``Theory`` setters): ``<=`` is
              reflexive / antisymmetric / transitive (all triples, decided on the recorded relation),
              ``<=`` never loses a feature (a <= b  =>  everything a enables is enabled by b),
              ``combine`` returns a well-formed upper bound of both arguments, ``==`` is attribute
              equality, no call mutates its arguments;
  a-logics    all pairs/triples of the 76 named logics (LOGICS, PYSMT_LOGICS and the module constant
              UF): partial order up to name, ``< > >=`` agree
              with ``<=``, ``<=`` never loses a feature or the quantifiers;
  a-select    ``get_closer_logic(S, L)`` for every target L (named logics and "detected" logics
              over the theory universe) and every S among the library's own supported lists and
              all subsets of size <= 2 (quick) / <= 3, and <= 4 for named targets (thorough) of the
              40 base logics (the ones written out in logics.py, i.e. without the generated
              't' / '*' variants):
              result in S, L <= result, no s in S with L <= s < result, error iff no candidate;
              ``most_generic_logic(S)``; ``get_closer_smtlib_logic`` / ``get_closer_pysmt_logic``;
  a-factory   ``Factory._get_solver_class`` over stand-in solver classes carrying those supported lists:
              the (solver, logic) pair it returns satisfies the same obligations;
  a-tables    name table: names unique, ``get_logic_by_name`` and ``logics.get_logic(**flags)``
              return a logic with exactly the requested name / attributes.
Part (b) - every term of the profiles (mc/core/profiles.py plus the edge profile below): an
  independent feature extraction (own traversal over sub-terms, bound variables, operators and
  sorts) must be enabled by ``theoryo.get_theory(f)``, ``get_logic(f)`` and the ``set-logic`` of
  ``smtlibscript_from_formula(f)``.  A raised NoLogicAvailableError (any clean error) is counted.
"""
import itertools
import multiprocessing
import os
import warnings
from fractions import Fraction

import pysmt.logics as LG
import pysmt.operators as op
import pysmt.smtlib.commands as smtcmd
from pysmt.environment import Environment, push_env, pop_env
from pysmt.exceptions import NoLogicAvailableError, NoSolverAvailableError
from pysmt.oracles import get_logic as detect_logic
from pysmt.smtlib.script import smtlibscript_from_formula

from ..core import profiles as P
from ..core import termio
from ..core.runner import Result, NPROC
from ..core.sig import minimal_failing
from ..core.sweep import sweep
from ..core.termgen import Profile
from ..core.termio import BOOL, INT, REAL, STRING, sort_of, mk_type

warnings.simplefilter("ignore")

# =========================================================================================
# reference reading of a Theory / Logic: which features does it enable?
# =========================================================================================

TH_ATTRS = ("arrays", "arrays_const", "bit_vectors", "floating_point", "integer_arithmetic",
            "real_arithmetic", "integer_difference", "real_difference", "linear",
            "uninterpreted", "custom_type", "strings")
_POS = {a: i for i, a in enumerate(TH_ATTRS)}
_PLAIN = ("arrays", "arrays_const", "bit_vectors", "floating_point", "integer_arithmetic",
          "real_arithmetic", "uninterpreted", "custom_type", "strings")


def tkey(t):
    """attribute vector of a Theory object (read through its public attributes)"""
    return tuple(bool(getattr(t, a)) for a in TH_ATTRS)


def mk_theory(key):
    return LG.Theory(**dict(zip(TH_ATTRS, key)))


def well_formed(key):
    d = dict(zip(TH_ATTRS, key))
    return ((not d["arrays_const"] or d["arrays"]) and
            (not d["integer_difference"] or d["integer_arithmetic"]) and
            (not d["real_difference"] or d["real_arithmetic"]))


_KF = {}


def key_feats(key):
    r = _KF.get(key)
    if r is None:
        r = _KF[key] = _key_feats(key)
    return r


def _key_feats(key):
    """what a theory with this attribute vector can express (semantic reading of the docstrings:
    *_difference restricts the arithmetic to difference logic, linear restricts to linear terms)"""
    d = dict(zip(TH_ATTRS, key))
    fs = set(a for a in _PLAIN if d[a])
    if not d["linear"]:
        fs.add("nonlinear")
    if d["integer_arithmetic"] and not d["integer_difference"]:
        fs.add("general_linear:int")
    if d["real_arithmetic"] and not d["real_difference"]:
        fs.add("general_linear:real")
    return frozenset(fs)


def theory_enables(T, feat):
    if feat == "nonlinear":
        return not T.linear
    if feat == "general_linear:int":
        return bool(T.integer_arithmetic) and not T.integer_difference
    if feat == "general_linear:real":
        return bool(T.real_arithmetic) and not T.real_difference
    return bool(getattr(T, feat))


def logic_enables(L, feat):
    if feat == "quantifiers":
        return not L.quantifier_free
    return theory_enables(L.theory, feat)


def show_key(key):
    d = dict(zip(TH_ATTRS, key))
    short = {"arrays": "A", "arrays_const": "A*", "bit_vectors": "BV", "floating_point": "FP",
             "integer_arithmetic": "IA", "real_arithmetic": "RA", "integer_difference": "ID",
             "real_difference": "RD", "uninterpreted": "UF", "custom_type": "T", "strings": "S"}
    out = [short[a] for a in TH_ATTRS if a != "linear" and d[a]]
    out.append("lin" if d["linear"] else "NONLIN")
    return "{" + ",".join(out) + "}"


# =========================================================================================
# universes
# =========================================================================================

def named_logics():
    """every Logic object the library defines: LOGICS, PYSMT_LOGICS (BV, UFBV and QF_LIRA are only
    there) and the module-level constants (UF is in neither table); AUTO is a marker, not a logic"""
    ls = set(LG.LOGICS) | set(LG.PYSMT_LOGICS)
    ls |= set(v for v in vars(LG).values() if isinstance(v, LG.Logic) and v is not LG.AUTO)
    return sorted(ls, key=lambda l: l.name)


def base_logics():
    """the logics written out in logics.py (the others are generated 't' / '*' variants)"""
    gen = set(l.name for l in LG.ext_logics)
    return [l for l in named_logics() if l.name not in gen]


def oracle_atoms():
    """the theories the theory oracle starts from (one per sort class / leaf)"""
    T = LG.Theory
    return [T(), T(real_arithmetic=True, real_difference=True),
            T(integer_arithmetic=True, integer_difference=True), T(bit_vectors=True),
            T(arrays=True), T(arrays=True, arrays_const=True), T(strings=True),
            T(custom_type=True), T(uninterpreted=True)]


def theory_universe(full):
    """sorted list of attribute vectors: all well-formed ones (arrays_const => arrays, *_difference =>
    *_arithmetic); the quick tier leaves out floating_point, which no logic and no oracle rule sets.
    This contains the closure of the theories of the named logics and of the oracle's atomic theories
    under combine and the Theory setters (checked: see theory_closure / the counter
    combine_results_outside_universe)."""
    keys = [k for k in itertools.product((False, True), repeat=len(TH_ATTRS))
            if well_formed(k) and (full or not k[_POS["floating_point"]])]
    return sorted(keys)


def theory_closure_seeds():
    """attribute vectors the library itself starts from: named logics, oracle atoms, setter images"""
    out = set()
    for t in [l.theory for l in named_logics()] + oracle_atoms():
        out.add(tkey(t))
        for u in (t.set_linear(False), t.set_difference_logic(False), t.set_lira(), t.set_strings(),
                  t.set_arrays(), t.set_arrays_const()):
            out.add(tkey(u))
    return out


def families():
    """name -> the library's own supported-logic collections (as the library holds them)"""
    F = {}
    for nm in ("LOGICS", "SMTLIB2_LOGICS", "QF_LOGICS", "PYSMT_LOGICS", "PYSMT_QF_LOGICS",
               "BV_LOGICS", "ARRAYS_LOGICS", "ARRAYS_CONST_LOGICS"):
        F["logics." + nm] = getattr(LG, nm)
    try:
        from pysmt.solvers.qelim import ShannonQuantifierEliminator, SelfSubstitutionQuantifierEliminator
        F["qelim.Shannon.LOGICS"] = ShannonQuantifierEliminator.LOGICS
        F["qelim.SelfSubstitution.LOGICS"] = SelfSubstitutionQuantifierEliminator.LOGICS
    except Exception:
        pass
    # the solver wrappers cannot be imported without their native libraries; their LOGICS class
    # attributes are re-evaluated here from the same expressions over the real tables
    PL, PQ = LG.PYSMT_LOGICS, LG.PYSMT_QF_LOGICS
    F["solver:msat"] = PQ - set(l for l in PQ if not l.theory.linear or l.theory.strings)
    F["solver:z3"] = (PL | {LG.AUFLIRA, LG.AUFLIA, LG.AUFNIRA, LG.ALIA}) - set(x for x in PL if x.theory.strings)
    F["solver:cvc4"] = PL - LG.ARRAYS_CONST_LOGICS - set(l for l in PL if not l.theory.linear)
    F["solver:cvc5"] = (PL | {LG.AUFLIRA, LG.AUFLIA, LG.AUFNIRA, LG.ALIA}) - frozenset(
        l for l in PL if l.theory.arrays_const and l.theory.bit_vectors and
        (l.theory.integer_arithmetic or l.theory.real_arithmetic))
    F["solver:yices"] = PQ - LG.ARRAYS_LOGICS - set(l for l in PQ if not l.theory.linear or l.theory.strings)
    F["solver:btor"] = [LG.QF_BV, LG.QF_UFBV, LG.QF_ABV, LG.QF_AUFBV, LG.QF_AX] + list(
        filter(lambda l: l.name in {'QF_ABV*', 'QF_AUFBV*', 'QF_AX*'}, LG.ARRAYS_CONST_LOGICS))
    F["solver:bdd"] = [LG.QF_BOOL, LG.BOOL]
    F["solver:pico"] = [LG.QF_BOOL]
    F["qelim:lra-lia"] = [LG.LRA, LG.LIA]
    F["qelim:lia-lra"] = [LG.LIA, LG.LRA]
    F["qelim:lra"] = [LG.LRA]
    F["interp:z3"] = [LG.QF_UFLIA, LG.QF_UFLRA]
    F["interp:msat"] = [LG.QF_UFLIA, LG.QF_UFLRA, LG.QF_BV]
    F["empty"] = []
    return F


def logic_case(l):
    return {"name": l.name, "qf": bool(l.quantifier_free), "theory": list(tkey(l.theory))}


def logic_from_case(c):
    for l in named_logics():
        if l.name == c["name"]:
            return l
    return LG.Logic(name=c["name"], description="", quantifier_free=c["qf"],
                    theory=mk_theory(tuple(c["theory"])))


# =========================================================================================
# part (a): theories
# =========================================================================================

_U = {}   # data shared with forked workers
SIG_CAP = 5   # recorded cases per signature and shard (the rest is only counted)


def _viol(res, part, sig, msg, case):
    """res.violation with a per-signature cap, so that one prolific root cause cannot push
    the cases of another signature out of the (bounded) violation list"""
    d = res.__dict__.setdefault("_sigs", {})
    d[sig] = d.get(sig, 0) + 1
    if d[sig] <= SIG_CAP:
        res.violations.append({"part": part, "sig": sig, "msg": msg, "case": case})
    res.count("violations_raw")


def _collect(fn, shards):
    """like Ctx.pmap, but fn(shard) -> (Result, payload) and the payloads are returned"""
    shards = list(shards)
    out = []
    if len(shards) <= 1 or os.environ.get("VERIF_SERIAL"):
        return [fn(s) for s in shards]
    mpc = multiprocessing.get_context("fork")
    with mpc.Pool(min(NPROC, len(shards))) as pool:
        for r in pool.imap_unordered(fn, shards, chunksize=1):
            out.append(r)
    return out


def check_theory_pair(res, ka, kb):
    """all pair-level obligations for theories with attribute vectors ka, kb; returns a <= b"""
    a, b = mk_theory(ka), mk_theory(kb)
    case = {"kind": "theory-pair", "a": list(ka), "b": list(kb)}
    le = a <= b
    if le is not True and le is not False:
        _viol(res, "a-theories", "order:theory:not-bool", "Theory.__le__ returned %r" % (le,), case)
    le = bool(le)
    same = (ka == kb)
    if (a == b) is not same or (a != b) is same:
        _viol(res, "a-theories", "order:theory:eq", "%s == %s gives %r, != gives %r"
                      % (show_key(ka), show_key(kb), a == b, a != b), case)
    if same and not le:
        _viol(res, "a-theories", "order:theory:reflexive", "%s <= itself is False" % show_key(ka), case)
    if le:
        lost = key_feats(ka) - key_feats(kb)
        if lost:
            _viol(res, "a-theories", "order:theory:unsound:%s" % _fs(lost),
                          "%s <= %s holds although the left theory enables %s and the right one does not"
                          % (show_key(ka), show_key(kb), sorted(lost)), case)
    c = a.combine(b)
    kc = tkey(c)
    if not well_formed(kc):
        _viol(res, "a-theories", "combine:ill-formed", "combine(%s, %s) = %s is not a well-formed theory"
                      % (show_key(ka), show_key(kb), show_key(kc)), case)
    for who, x, kx in (("first", a, ka), ("second", b, kb)):
        if not (x <= c):
            lost = key_feats(kx) - key_feats(kc)
            _viol(res, "a-theories", "combine:not-upper-bound:%s" % (_fs(lost) or "order"),
                          "combine(%s, %s) = %s is not >= its %s argument"
                          % (show_key(ka), show_key(kb), show_key(kc), who), case)
        elif key_feats(kx) - key_feats(kc):
            _viol(res, "a-theories", "combine:loses:%s" % _fs(key_feats(kx) - key_feats(kc)),
                          "combine(%s, %s) = %s does not enable %s of its %s argument"
                          % (show_key(ka), show_key(kb), show_key(kc),
                             sorted(key_feats(kx) - key_feats(kc)), who), case)
    if tkey(a) != ka or tkey(b) != kb:
        _viol(res, "a-theories", "theory:mutated", "<= / == / combine changed an argument: %s, %s -> %s, %s"
                      % (show_key(ka), show_key(kb), show_key(tkey(a)), show_key(tkey(b))), case)
    return le, kc


def _fs(feats):
    return "+".join(sorted(set(f.split(":")[0] for f in feats)))


def theory_rows_shard(args):
    idx, nsh = args
    U = _U["theories"]
    pos = _U["theory_pos"]
    res = Result()
    rows = {}
    outside = 0
    for i in range(idx, len(U), nsh):
        ka = U[i]
        row = 0
        for j, kb in enumerate(U):
            le, kc = check_theory_pair(res, ka, kb)
            res.count("evaluations")
            if le:
                row |= (1 << j)
                if i != j:
                    res.count("nontrivial")
            if kc not in pos:
                outside += 1
        rows[i] = row
    res.count("combine_results_outside_universe", outside)
    return res, rows


def run_theories(ctx):
    res = ctx.res
    U = theory_universe(full=not ctx.quick)
    _U["theories"] = U
    _U["theory_pos"] = {k: i for i, k in enumerate(U)}
    n = len(U)
    for k in sorted(theory_closure_seeds()):
        if k not in _U["theory_pos"]:
            _viol(res, "a-theories", "universe:seed-outside", "the library builds the theory %s, which is outside "
                  "the enumerated universe" % show_key(k), {"kind": "theory-pair", "a": list(k), "b": list(k)})
    nsh = min(4 * NPROC, n)
    rows = {}
    for r, payload in _collect(theory_rows_shard, [(i, nsh) for i in range(nsh)]):
        res.merge(r)
        rows.update(payload)
    if len(rows) != n:
        _viol(res, "harness", "harness:rows", "theory relation incomplete: %d of %d rows" % (len(rows), n), {})
        return
    # all triples, decided on the recorded relation (every entry is an output of the real __le__)
    comparable = 0
    for i in range(n):
        up = rows[i]
        if not (up >> i) & 1:
            continue
        m = up & ~(1 << i)
        j = 0
        while m:
            if m & 1:
                comparable += 1
                if (rows[j] >> i) & 1:
                    _viol(res, "a-theories", "order:theory:antisymmetric",
                                  "%s <= %s and conversely, but they differ" % (show_key(U[i]), show_key(U[j])),
                                  {"kind": "theory-pair", "a": list(U[i]), "b": list(U[j])})
                bad = rows[j] & ~up
                if bad:
                    k = bad.bit_length() - 1
                    _viol(res, "a-theories", "order:theory:transitive",
                                  "%s <= %s <= %s but not %s <= %s" % (show_key(U[i]), show_key(U[j]),
                                                                       show_key(U[k]), show_key(U[i]), show_key(U[k])),
                                  {"kind": "theory-triple", "a": list(U[i]), "b": list(U[j]), "c": list(U[k])})
            m >>= 1
            j += 1
    res.count("theory_triples_decided", n * n * n)
    res.outcome("theories:universe", n)
    res.outcome("theories:comparable-distinct-pairs", comparable)
    res.outcome("theories:incomparable-or-equal-pairs", n * n - comparable)
    ctx.coverage["theory_universe"] = n
    res.sample({"part": "a-theories", "a": show_key(U[1]), "b": show_key(U[-1]),
                "a<=b": bool((rows[1] >> (n - 1)) & 1)}, limit=1)


# =========================================================================================
# part (a): named logics
# =========================================================================================

def run_logics(ctx):
    res = ctx.res
    Ls = named_logics()
    n = len(Ls)
    le = [[None] * n for _ in range(n)]
    for i, a in enumerate(Ls):
        fa = key_feats(tkey(a.theory))
        for j, b in enumerate(Ls):
            res.count("evaluations")
            case = {"kind": "logic-pair", "a": logic_case(a), "b": logic_case(b)}
            r = a <= b
            le[i][j] = bool(r)
            if r is not True and r is not False:
                _viol(res, "a-logics", "order:logic:not-bool", "%s <= %s returned %r" % (a, b, r), case)
            if bool(a >= b) != bool(b <= a) or bool(a > b) != bool(b < a):
                _viol(res, "a-logics", "order:logic:mirror", ">= / > of %s, %s do not mirror <= / <" % (a, b), case)
            lt = bool(a < b)
            if lt and (not r or a is b):
                _viol(res, "a-logics", "order:logic:strict", "%s < %s holds but <= does not (or same logic)" % (a, b), case)
            if r and not bool(b <= a) and not lt:
                _viol(res, "a-logics", "order:logic:strict", "%s <= %s strictly, but %s < %s is False" % (a, b, a, b), case)
            if (a == b) is not (i == j):
                _viol(res, "a-logics", "order:logic:eq", "%s == %s is %r" % (a, b, a == b), case)
            if r:
                if i != j:
                    res.count("nontrivial")
                lost = set(fa - key_feats(tkey(b.theory)))
                if not a.quantifier_free and b.quantifier_free:
                    lost.add("quantifiers")
                if lost:
                    _viol(res, "a-logics", "order:logic:unsound:%s" % _fs(lost),
                                  "%s <= %s holds although %s enables %s and %s does not"
                                  % (a, b, a, sorted(lost), b), case)
                if not (a.theory <= b.theory):
                    _viol(res, "a-logics", "order:logic:theory", "%s <= %s but not on their theories" % (a, b), case)
    for i, a in enumerate(Ls):
        if not le[i][i]:
            _viol(res, "a-logics", "order:logic:reflexive", "%s <= %s is False" % (a, a),
                          {"kind": "logic-pair", "a": logic_case(a), "b": logic_case(a)})
        for j, b in enumerate(Ls):
            if not le[i][j]:
                continue
            if i != j and le[j][i] and (tkey(a.theory) != tkey(b.theory) or a.quantifier_free != b.quantifier_free):
                _viol(res, "a-logics", "order:logic:antisymmetric",
                              "%s <= %s and conversely, but they differ in more than the name" % (a, b),
                              {"kind": "logic-pair", "a": logic_case(a), "b": logic_case(b)})
            for k, c in enumerate(Ls):
                res.count("logic_triples")
                if le[j][k] and not le[i][k]:
                    _viol(res, "a-logics", "order:logic:transitive", "%s <= %s <= %s but not %s <= %s" % (a, b, c, a, c),
                                  {"kind": "logic-triple", "a": logic_case(a), "b": logic_case(b), "c": logic_case(c)})
    res.outcome("logics:named", n)
    res.outcome("logics:comparable-pairs", sum(1 for i in range(n) for j in range(n) if i != j and le[i][j]))
    ctx.coverage["named_logics"] = n


# =========================================================================================
# part (a): selection
# =========================================================================================

def closer_verdict(S, L, call, named_le):
    """(failure kind, message) or None for one call of a closest-logic function.
    S: list of supported logics; L: target; call(): the real function applied to them;
    named_le(x, y): recorded real `x <= y` on supported logics"""
    cand = [s for s in S if L <= s]
    try:
        r = call()
    except Exception as e:
        if cand:
            return ("error-with-candidate", "raised %r although %s is above the target" % (e, cand[0]))
        return ("ok:error:%s" % type(e).__name__, None)
    if not cand:
        return ("no-error-without-candidate", "returned %s although no supported logic is above the target" % (r,))
    if not any(r is s for s in S):
        return ("not-in-S", "returned %s, which is not one of the supported logics" % (r,))
    if not (L <= r):
        return ("not-above", "returned %s, which is not above the target" % (r,))
    for s in cand:
        if s is not r and named_le(s, r) and not named_le(r, s):
            return ("not-minimal", "returned %s although %s is supported, above the target and strictly below it" % (r, s))
    return ("ok:returned" + (":choice" if len(cand) > 1 else ""), None)


def generic_verdict(S, call, named_le):
    top = [l for l in S if all(named_le(x, l) for x in S)]
    try:
        r = call()
    except Exception as e:
        if len(top) == 1:
            return ("error-with-unique-top", "raised %r although %s is the unique most generic logic" % (e, top[0]))
        return ("ok:error:%s" % type(e).__name__, None)
    if len(top) != 1:
        return ("no-error-without-unique-top", "returned %s although %d logics are above all the others" % (r, len(top)))
    if r is not top[0]:
        return ("wrong", "returned %s, the most generic logic is %s" % (r, top[0]))
    return ("ok:returned", None)


class _NamedLe(object):
    def __init__(self):
        self.memo = {}

    def __call__(self, x, y):
        k = (id(x), id(y))
        r = self.memo.get(k)
        if r is None:
            r = self.memo[k] = bool(x <= y)
        return r


def _subsets(maxk):
    base = base_logics()
    for k in range(0, maxk + 1):
        for c in itertools.combinations(base, k):
            yield list(c)


def _targets(quick):
    """named logics + detected logics (theory universe x quantifier-free flag)"""
    ts = [(l, "named") for l in named_logics()]
    for k in theory_universe(full=not quick):
        for qf in (True, False):
            ts.append((LG.Logic(name="Detected Logic", description="", quantifier_free=qf,
                                theory=mk_theory(k)), "detected"))
    return ts


def select_shard(args):
    idx, nsh, maxk_named, maxk_detected = args
    res = Result()
    nle = _NamedLe()
    fams = _U["families"]
    targets = _U["targets"]
    subsets = {k: list(_subsets(k)) for k in set((maxk_named, maxk_detected))}
    for ti in range(idx, len(targets), nsh):
        L, cls = targets[ti]
        up = [s for s in named_logics() if L <= s] if idx == 0 else []

        def one(fname, S, fn, part):
            res.count("evaluations")
            v = closer_verdict(S, L, fn, nle)
            if v[1] is None:
                res.outcome("%s:%s" % (part, v[0]))
                if v[0].endswith(":choice"):
                    res.count("nontrivial")
                return
            _viol(res, "a-select", "%s:%s" % (part, v[0]),
                          "%s(%s, %s) %s" % (part, fname if len(S) > 4 else [s.name for s in S], _lname(L), v[1]),
                          {"kind": part, "S": [s.name for s in S], "family": fname, "L": logic_case(L)})
        for fname, S in fams:
            Sl = list(S)
            # a temporary list per call (as a caller looping over sub-lists would build): results
            # must not depend on the identity of the collection
            one(fname, Sl, (lambda S=S: LG.get_closer_logic(list(S), L)), "closer")
        # the two documented special answers (QF_BOOL -> QF_UF, BOOL -> LRA) are members of SMTLIB2_LOGICS
        # above the target with nothing supported strictly below them, which is all the statement asks
        one("logics.SMTLIB2_LOGICS", list(LG.SMTLIB2_LOGICS), (lambda: LG.get_closer_smtlib_logic(L)), "closer_smtlib")
        one("logics.PYSMT_LOGICS", list(LG.PYSMT_LOGICS), (lambda: LG.get_closer_pysmt_logic(L)), "closer_pysmt")
        for S in subsets[maxk_named if cls == "named" else maxk_detected]:
            one("subset", S, (lambda S=S: LG.get_closer_logic(list(S), L)), "closer")
        if idx == 0:
            res.sample({"part": "a-select", "target": _lname(L), "supported_logics_above": [s.name for s in up][:6]},
                       limit=1)
    return res


def _lname(L):
    if L.name != "Detected Logic":
        return L.name
    return "Detected[%s%s]" % ("QF " if L.quantifier_free else "", show_key(tkey(L.theory)))


def generic_shard(args):
    idx, nsh, maxk = args
    res = Result()
    nle = _NamedLe()
    allS = [(fname, list(S)) for fname, S in _U["families"]] + [("subset", S) for S in _subsets(maxk)]
    for si in range(idx, len(allS), nsh):
        fname, S = allS[si]
        res.count("evaluations")
        v = generic_verdict(S, (lambda: LG.most_generic_logic(S)), nle)
        if v[1] is None:
            res.outcome("generic:%s" % v[0])
            if v[0] == "ok:returned" and len(S) > 1:
                res.count("nontrivial")
            continue
        _viol(res, "a-select", "generic:%s" % v[0],
                      "most_generic_logic(%s) %s" % (fname if len(S) > 4 else [s.name for s in S], v[1]),
                      {"kind": "generic", "S": [s.name for s in S], "family": fname})
    return res


def run_select(ctx):
    q = ctx.quick
    _U["families"] = sorted(families().items())
    _U["targets"] = _targets(q)
    nsh = 4 * NPROC
    ctx.pmap(select_shard, [(i, nsh, 2 if q else 4, 2 if q else 3) for i in range(nsh)])
    ctx.pmap(generic_shard, [(i, NPROC, 3 if q else 4) for i in range(NPROC)])
    ctx.coverage["selection_targets"] = len(_U["targets"])
    ctx.coverage["supported_lists"] = [n for n, _ in _U["families"]]


# =========================================================================================
# part (a): solver selection in the factory (built on the functions above)
# =========================================================================================

def _fake_solvers():
    """one stand-in solver class per supported list (only the LOGICS attribute is consulted)"""
    out = {}
    for i, (fname, S) in enumerate(sorted(families().items())):
        out["s%02d" % i] = type("Stub_%02d" % i, (object,), {"LOGICS": S, "family": fname})
    return out


def factory_shard(args):
    idx, nsh = args
    from pysmt.factory import Factory
    res = Result()
    nle = _NamedLe()
    env = Environment()
    fac = Factory(env)
    classes = _fake_solvers()
    fac.preferences = dict(fac.preferences)
    fac.preferences["Solver"] = sorted(classes)
    targets = _U["targets"]

    def pick(name, L):
        return fac._get_solver_class(solver_list=classes, solver_type="Solver",
                                     default_logic=fac.default_logic, name=name, logic=L)
    for ti in range(idx, len(targets), nsh):
        L, cls = targets[ti]
        names = [None] + (sorted(classes) if cls == "named" else [])
        supporting = [k for k in sorted(classes) if any(L <= l for l in classes[k].LOGICS)]
        for name in names:
            res.count("evaluations")
            case = {"kind": "factory", "solver": name, "L": logic_case(L)}
            if name is not None:
                S = list(classes[name].LOGICS)
                v = closer_verdict(S, L, (lambda: pick(name, L)[1]), nle)
                fam = classes[name].family
            else:
                got = []

                def call():
                    got.append(pick(None, L))
                    return got[0][1]
                # the supported list is the one of whichever stub the factory chose
                try:
                    call()
                except Exception as e:
                    v = (("error-with-candidate", "raised %r although %s supports the logic" % (e, supporting[0]))
                         if supporting else ("ok:error:%s" % type(e).__name__, None))
                    fam = "-"
                else:
                    chosen = got[0][0]
                    fam = getattr(chosen, "family", "?")
                    if not any(chosen is c for c in classes.values()):
                        v = ("unknown-solver", "returned the class %r" % (chosen,))
                    else:
                        v = closer_verdict(list(chosen.LOGICS), L, (lambda: got[0][1]), nle)
            if v[1] is None:
                res.outcome("factory:%s:%s" % ("named-solver" if name else "any-solver", v[0]))
                if v[0].endswith(":choice"):
                    res.count("nontrivial")
                continue
            _viol(res, "a-factory", "factory:%s" % v[0],
                  "Factory._get_solver_class(name=%s [LOGICS=%s], logic=%s) %s" % (name, fam, _lname(L), v[1]), case)
        # no logic given for a named solver: the selected logic must be one of the solver's own
        if cls == "named" and ti < len(classes):
            name = sorted(classes)[ti]
            res.count("evaluations")
            try:
                c, lg = pick(name, None)
            except Exception as e:
                res.outcome("factory:default-logic:error:%s" % type(e).__name__)
            else:
                if not any(lg is s for s in classes[name].LOGICS):
                    _viol(res, "a-factory", "factory:default-logic:not-in-S",
                          "Factory._get_solver_class(name=%s [LOGICS=%s]) selected %s, which the solver does not list"
                          % (name, classes[name].family, lg), {"kind": "factory", "solver": name, "L": None})
                else:
                    res.outcome("factory:default-logic:returned")
    return res


def run_factory(ctx):
    if "targets" not in _U:
        _U["families"] = sorted(families().items())
        _U["targets"] = _targets(ctx.quick)
    ctx.pmap(factory_shard, [(i, 2 * NPROC) for i in range(2 * NPROC)])


# =========================================================================================
# part (a): tables
# =========================================================================================

def run_tables(ctx):
    res = ctx.res
    Ls = named_logics()
    low = {}
    for l in Ls:
        low.setdefault(l.name.lower(), []).append(l)
    for nm, ls in sorted(low.items()):
        res.count("evaluations")
        if len(ls) > 1:
            _viol(res, "a-tables", "tables:name-clash", "logics %s share the name %r up to case (lookup is "
                          "case-insensitive)" % (ls, nm), {"kind": "table", "name": nm})
    for l in Ls:
        registered = any(l is x for x in LG.LOGICS)
        for si, spelling in enumerate((l.name, l.name.lower(), l.name.upper())):
            res.count("evaluations")
            case = {"kind": "by-name", "name": spelling}
            try:
                r = LG.get_logic_by_name(spelling)
                r2 = LG.convert_logic_from_string(spelling)
            except Exception as e:
                if not registered:
                    res.outcome("tables:by-name:clean-error-for-unregistered")
                    if si == 0:
                        res.notes.append("table remark: %s is a logic of the library (PYSMT_LOGICS / module constant) "
                                         "but get_logic_by_name(%r) raises %s" % (l.name, spelling, type(e).__name__))
                    continue
                _viol(res, "a-tables", "tables:by-name:raised", "get_logic_by_name(%r) raised %r" % (spelling, e), case)
                continue
            if r is not l or r2 is not l:
                _viol(res, "a-tables", "tables:by-name:wrong", "get_logic_by_name(%r) = %s, expected %s"
                              % (spelling, r, l), case)
            else:
                res.outcome("tables:by-name:ok")
        if not registered:
            continue
        res.count("evaluations")
        kw = dict(zip(TH_ATTRS, tkey(l.theory)))
        kw["quantifier_free"] = bool(l.quantifier_free)
        try:
            r = LG.get_logic(**kw)
        except Exception as e:
            _viol(res, "a-tables", "tables:by-flags:raised", "logics.get_logic(flags of %s) raised %r" % (l, e),
                          {"kind": "by-flags", "L": logic_case(l)})
            continue
        if tkey(r.theory) != tkey(l.theory) or bool(r.quantifier_free) != bool(l.quantifier_free):
            _viol(res, "a-tables", "tables:by-flags:wrong", "logics.get_logic(flags of %s) = %s with other flags"
                          % (l, r), {"kind": "by-flags", "L": logic_case(l)})
        else:
            res.outcome("tables:by-flags:ok" + ("" if r is l else ":other-name"))
            res.count("nontrivial")
    # descriptive only: attribute vectors that contradict the logic's name are noted, not reported
    for l in Ls:
        nm = l.name.rstrip("t*")
        if ("IDL" in nm) != bool(l.theory.integer_difference) or ("RDL" in nm) != bool(l.theory.real_difference):
            res.notes.append("table remark: %s has integer_difference=%s real_difference=%s"
                             % (l.name, l.theory.integer_difference, l.theory.real_difference))


# =========================================================================================
# part (b): independent feature extraction
# =========================================================================================

_BOOL_VALUED = frozenset([op.AND, op.OR, op.NOT, op.IMPLIES, op.IFF, op.FORALL, op.EXISTS, op.LE, op.LT,
                          op.EQUALS, op.BV_ULT, op.BV_ULE, op.BV_SLT, op.BV_SLE, op.STR_CONTAINS,
                          op.STR_PREFIXOF, op.STR_SUFFIXOF])
_INT_VALUED = frozenset([op.STR_LENGTH, op.STR_INDEXOF, op.STR_TO_INT, op.BV_TONATURAL])
_STR_VALUED = frozenset([op.STR_CONCAT, op.STR_REPLACE, op.STR_SUBSTR, op.STR_CHARAT, op.INT_TO_STR])
_FIRST_ARG = frozenset([op.PLUS, op.MINUS, op.TIMES, op.DIV, op.ARRAY_STORE])
_SORT_REASONS = frozenset(["symbol-sort", "constant-sort", "bound-var-sort", "function-signature",
                           "index-sort", "sort-parameter"])


class OracleUnsupported(Exception):
    pass


def sort_feats(s, reason, out):
    """features needed to *mention* sort s"""
    if isinstance(s, str):
        f = {INT: "integer_arithmetic", REAL: "real_arithmetic", STRING: "strings"}.get(s)
        if f:
            out.add((f, reason))
        return
    k = s[0]
    if k == "BV":
        out.add(("bit_vectors", reason))
    elif k == "Array":
        out.add(("arrays", reason))
        sort_feats(s[1], reason, out)
        sort_feats(s[2], reason, out)
    elif k == "Sort":
        out.add(("custom_type", reason))
        for a in s[2]:
            sort_feats(a, "sort-parameter", out)
    elif k == "Fun":
        out.add(("uninterpreted", reason))
        sort_feats(s[1], "function-signature", out)
        for a in s[2]:
            sort_feats(a, "function-signature", out)
    else:
        raise OracleUnsupported("sort %r" % (s,))


class Extractor(object):
    """node -> (sort, all features of the sub-DAG, free symbols, own (feature, reason) pairs)"""

    def __init__(self):
        self.memo = {}

    def info(self, f):
        memo = self.memo
        stack = [(f, False)]
        while stack:
            n, done = stack.pop()
            if n in memo:
                continue
            if not done:
                stack.append((n, True))
                for k in n.args():
                    if k not in memo:
                        stack.append((k, False))
                continue
            memo[n] = self._node(n, [memo[k] for k in n.args()])
        return memo[f]

    def _node(self, n, kids):
        t = n.node_type()
        own = set()
        fv = frozenset().union(*[k[2] for k in kids]) if kids else frozenset()
        name = op.op_to_str(t) if t in _OPSTR else None
        if t == op.SYMBOL:
            s = sort_of(n.symbol_type())
            sort_feats(s, "symbol-sort", own)
            fv = frozenset([n])
        elif t == op.BOOL_CONSTANT:
            s = BOOL
        elif t == op.INT_CONSTANT:
            s = INT
            own.add(("integer_arithmetic", "constant-sort"))
        elif t in (op.REAL_CONSTANT, op.ALGEBRAIC_CONSTANT):
            s = REAL
            own.add(("real_arithmetic", "constant-sort"))
        elif t == op.STR_CONSTANT:
            s = STRING
            own.add(("strings", "constant-sort"))
        elif t == op.BV_CONSTANT:
            s = ("BV", n.bv_width())
            own.add(("bit_vectors", "constant-sort"))
        elif t == op.FUNCTION:
            fs = sort_of(n.function_name().symbol_type())
            s = fs[1]
            own.add(("uninterpreted", "operator"))
            sort_feats(fs, "function-signature", own)
            fv = fv | frozenset([n.function_name()])
        elif t in (op.FORALL, op.EXISTS):
            s = BOOL
            own.add(("quantifiers", "operator"))
            for v in n.quantifier_vars():
                sort_feats(sort_of(v.symbol_type()), "bound-var-sort", own)
            fv = fv - frozenset(n.quantifier_vars())
        elif t == op.ARRAY_VALUE:
            isort = sort_of(n.array_value_index_type())
            s = ("Array", isort, kids[0][0])
            own.add(("arrays", "operator"))
            own.add(("arrays_const", "operator"))
            sort_feats(isort, "index-sort", own)
        elif t == op.ARRAY_SELECT:
            s = kids[0][0][2]
            own.add(("arrays", "operator"))
        elif t == op.ARRAY_STORE:
            s = kids[0][0]
            own.add(("arrays", "operator"))
        elif t == op.ITE:
            s = kids[1][0]
        elif t in _BOOL_VALUED:
            s = BOOL
        elif t in _INT_VALUED:
            s = INT
        elif t in _STR_VALUED:
            s = STRING
        elif t == op.TOREAL or t == op.POW:
            s = REAL      # pySMT types a power as Real whatever the base
        elif t in _FIRST_ARG:
            s = kids[0][0]
        elif t == op.BV_COMP:
            s = ("BV", 1)
        elif name is not None and name.startswith("BV_"):
            s = ("BV", n.bv_width())
        else:
            raise OracleUnsupported("node type %s" % t)
        if name is not None:
            if name.startswith("BV_"):
                own.add(("bit_vectors", "operator"))
            elif name.startswith("STR_") or t == op.INT_TO_STR:
                own.add(("strings", "operator"))
        if t not in (op.SYMBOL, op.FUNCTION) and t not in op.CONSTANTS:
            sort_feats(s, "result-sort", own)
        # arithmetic shape
        if t in (op.TIMES, op.DIV, op.POW):
            var = [bool(k[2]) for k in kids]
            gl = "general_linear:int" if s == INT else "general_linear:real"
            if t == op.TIMES:
                if sum(var) >= 2:
                    own.add(("nonlinear", "operator"))
                if any(var):
                    own.add((gl, "operator"))
            elif t == op.DIV:
                if var[1]:
                    own.add(("nonlinear", "operator"))
                if any(var):
                    own.add((gl, "operator"))
            elif var[0]:
                own.add(("nonlinear", "operator"))
        feats = frozenset(f for f, _ in own).union(*[k[1] for k in kids])
        return (s, feats, fv, frozenset(own))


_OPSTR = set(op.ALL_TYPES)


def script_logic(f):
    sc = smtlibscript_from_formula(f)
    for c in sc.commands:
        if c.name == smtcmd.SET_LOGIC:
            return c.args[0]
    return None


_BY_NAME = {}


def _resolve(lg):
    if isinstance(lg, LG.Logic):
        return lg
    if not _BY_NAME:
        for l in named_logics():
            _BY_NAME[l.name] = l
    return _BY_NAME.get(str(lg))


def make_verdict(env, ex):
    theoryo = env.theoryo

    def verdict(f):
        """None, or (api, missing features, message); second value: list of outcome labels"""
        need = ex.info(f)[1]
        labels = []
        fail = None
        try:
            T = theoryo.get_theory(f)
        except Exception as e:
            labels.append("theory:raised:%s" % type(e).__name__)
            T = None
        if T is not None:
            miss = sorted(x for x in need if x != "quantifiers" and not theory_enables(T, x))
            if miss:
                fail = ("theory", miss, "get_theory gives %s, which does not enable %s" % (show_key(tkey(T)), miss))
        try:
            L = detect_logic(f, env)
        except NoLogicAvailableError:
            labels.append("get_logic:no-logic-available")
            L = None
        except Exception as e:
            labels.append("get_logic:raised:%s" % type(e).__name__)
            L = None
        if L is not None:
            labels.append("get_logic:returned")
            miss = sorted(x for x in need if not logic_enables(L, x))
            if miss and fail is None:
                fail = ("get_logic", miss, "get_logic gives %s, which does not enable %s" % (L.name, miss))
        try:
            S = script_logic(f)
        except NoLogicAvailableError:
            labels.append("script:no-logic-available")
            S = None
        except Exception as e:
            labels.append("script:raised:%s" % type(e).__name__)
            S = None
        if S is not None:
            SL = _resolve(S)
            if SL is None:
                labels.append("script:unknown-logic-name")
            else:
                labels.append("script:set-logic" + ("" if SL in LG.SMTLIB2_LOGICS else ":non-standard"))
                miss = sorted(x for x in need if not logic_enables(SL, x))
                if miss and fail is None:
                    fail = ("script", miss, "smtlibscript_from_formula sets logic %s, which does not enable %s"
                            % (SL.name, miss))
        return fail, labels
    return verdict


def failure_sig(ex, sub, fail):
    api, miss, _ = fail
    t = sub.node_type()
    root = "QUANTIFIER" if t in (op.FORALL, op.EXISTS) else op.op_to_str(t)
    own = ex.info(sub)[3]
    reasons = sorted(set(r for f, r in own if f in miss))
    if "bound-var-sort" in reasons:
        reasons = ["bound-var-sort"]      # the parameters of an ignored sort are ignored with it
    if not reasons:
        reasons = ["combination"]
    sig = "%s:%s:%s" % (api, root, "+".join(reasons))
    if not all(r in _SORT_REASONS for r in reasons):
        sig += ":" + _fs(miss)
    return sig


_ABBR = {"bit_vectors": "bv", "integer_arithmetic": "int", "real_arithmetic": "real", "strings": "str",
         "arrays": "arr", "arrays_const": "arr*", "uninterpreted": "uf", "custom_type": "sort",
         "quantifiers": "q", "nonlinear": "nl", "general_linear:int": "gli", "general_linear:real": "glr"}


class _HandoffStub(object):
    """stands in for every kind of solver the factory can create; records the logic it is created for and
    every formula it is handed"""
    LOGICS = list(LG.PYSMT_LOGICS)
    log = []

    def __init__(self, environment, logic, **options):
        self.logic = logic
        _HandoffStub.log.append([logic, [], type(self)])

    def _got(self, *fs):
        _HandoffStub.log[-1][1].extend(fs)

    def __enter__(self):
        return self

    def __exit__(self, *a):
        return False

    def exit(self):
        pass

    def is_sat(self, f):
        self._got(f)
        return True

    is_valid = is_unsat = is_sat

    def add_assertion(self, f, named=None):
        self._got(f)

    def solve(self, assumptions=None):
        return False

    def get_model(self):
        return None

    def get_unsat_core(self):
        return set()

    def eliminate_quantifiers(self, f):
        self._got(f)
        return f

    def binary_interpolant(self, a, b):
        self._got(a, b)
        return None

    def sequence_interpolant(self, fs):
        self._got(*fs)
        return None


def make_handoff(env, ex):
    """the factory shortcuts detect a logic themselves when none is given: whatever solver object they create
    must be created for a logic that enables everything in the formulas it is then handed"""
    fac = env.factory
    # one name, four registries, four different lists of supported logics (as 'z3' or 'bdd' are a solver, a
    # quantifier eliminator, an interpolator ... with different LOGICS): whatever is created must be created
    # for a logic of its own list
    qf = [l for l in LG.PYSMT_LOGICS if l.quantifier_free]
    lists = {"_all_solvers": list(LG.PYSMT_LOGICS), "_all_unsat_core_solvers": qf,
             "_all_qelims": [l for l in LG.PYSMT_LOGICS if not l.quantifier_free],
             "_all_interpolators": [l for l in qf if not l.theory.arrays]}
    for attr, logics in lists.items():
        setattr(fac, attr, {"stub": type("Stub" + attr, (_HandoffStub,), {"LOGICS": logics, "kind": attr})})
    m = env.formula_manager
    hq = m.Symbol("hq", mk_type(env, INT))
    hb = m.Symbol("hb", mk_type(env, ("BV", 4)))
    partners = [("quantified-int", m.Exists([hq], m.Equals(m.Times(hq, m.Int(2)), m.Int(6)))),
                ("bv", m.Equals(hb, m.BV(1, 4))),
                ("bool", m.Symbol("hp"))]
    one = [("is_sat", fac.is_sat), ("is_valid", fac.is_valid), ("is_unsat", fac.is_unsat), ("get_model", fac.get_model),
           ("get_implicant", fac.get_implicant), ("qelim", fac.qelim)]

    def run(label, call):
        del _HandoffStub.log[:]
        try:
            call()
        except (NoLogicAvailableError, NoSolverAvailableError) as e:
            return "handoff:%s:refused" % label.split("[")[0], None
        except Exception as e:
            return "handoff:%s:raised:%s" % (label.split("[")[0], type(e).__name__), None
        for L, fs, cls in _HandoffStub.log:
            if not any(L is x or L == x for x in cls.LOGICS):
                return "handoff:%s:created" % label.split("[")[0], (
                    "handoff:" + label.split("[")[0], ["unsupported-logic"],
                    "factory.%s created its %s object for logic %s, which that class does not list as supported"
                    % (label, cls.kind, L.name))
            need = set()
            for g in fs:
                need |= set(ex.info(g)[1])
            miss = sorted(x for x in need if not logic_enables(L, x))
            if miss:
                return "handoff:%s:created" % label.split("[")[0], (
                    "handoff:" + label.split("[")[0], miss,
                    "factory.%s created its solver for logic %s, which does not enable %s of the formulas handed to it"
                    % (label, L.name, miss))
        return "handoff:%s:created" % label.split("[")[0], None

    def verdict(f):
        labels, fail = [], None
        for nm, fn in one:
            lab, bad = run(nm, lambda: fn(f, solver_name="stub"))
            labels.append(lab)
            fail = fail or bad
        for pn, g in partners:
            for order, cl in (("f,g", [f, g]), ("g,f", [g, f])):
                for nm, call in (("get_unsat_core[%s:%s]" % (pn, order), lambda: fac.get_unsat_core(cl, solver_name="stub")),
                                 ("sequence_interpolant[%s:%s]" % (pn, order), lambda: fac.sequence_interpolant(cl, solver_name="stub")),
                                 ("binary_interpolant[%s:%s]" % (pn, order), lambda: fac.binary_interpolant(cl[0], cl[1], solver_name="stub"))):
                    lab, bad = run(nm, call)
                    labels.append(lab)
                    fail = fail or bad
        return fail, labels
    return verdict


def make(env, profile, res, part):
    ex = Extractor()
    verdict = make_verdict(env, ex)
    other = {}
    handoff = make_handoff(env, ex) if part.get("handoff") else None

    def check(f):
        try:
            need = ex.info(f)[1]
        except OracleUnsupported as e:
            res.outcome("oracle:unsupported")
            return
        fail, labels = verdict(f)
        for l in labels:
            res.outcome(l)
        res.outcome("needs:" + ("+".join(sorted(_ABBR[x] for x in need)) or "core"))
        if need:
            res.count("nontrivial")
            if len(res.samples) < 2:
                res.sample({"part": part["name"], "term": termio.short(termio.dump(f)), "needs": sorted(need)}, limit=2)
        if fail is None and handoff is not None and f.get_type().is_bool_type():
            try:
                hfail, hlabels = handoff(f)
            except OracleUnsupported:
                hfail, hlabels = None, []
            for l in set(hlabels):
                res.outcome(l)
            res.count("handoff_terms")
            if hfail is not None:
                sub, r = minimal_failing(f, lambda g: handoff(g)[0] if g.get_type().is_bool_type() else None)
                if r is None:
                    sub, r = f, hfail
                _viol(res, part["name"], "%s:%s" % (r[0], "+".join(_ABBR.get(x, x) for x in r[1])),
                      "%s: %s: %s" % (part["name"], termio.short(termio.dump(sub)), r[2]),
                      {"term": termio.dump(sub), "found_in": termio.dump(f), "handoff": True})
                return
        if fail is None:
            # the copy in a companion environment that is never pushed, analysed by that environment's
            # oracles (which reach into the environment on top of the stack for free variables)
            st = other.get("env")
            if st is None or len(st.formula_manager.formulae) > 200000:
                st = other["env"] = Environment()
                other["verdict"] = make_verdict(st, ex)
            try:
                f2 = st.formula_manager.normalize(f)
                fail2 = other["verdict"](f2)[0]
            except OracleUnsupported:
                fail2 = None
            except Exception as e:
                fail2 = ("exception", [], "analysing the copy raised %r" % (e,))
            res.count("foreign_copies")
            if fail2 is not None and not other.get("reported"):
                other["reported"] = True
                _viol(res, part["name"], "foreign-environment:%s" % fail2[0],
                      "%s: the copy of %s in an environment that is not on top of the stack: %s"
                      % (part["name"], termio.short(termio.dump(f)), fail2[2]), {"term": termio.dump(f), "foreign": True})
            return
        sub, r = minimal_failing(f, lambda g: verdict(g)[0])
        if r is None:
            sub, r = f, fail
        _viol(res, part["name"], failure_sig(ex, sub, r),
                      "%s: %s: %s" % (part["name"], termio.short(termio.dump(sub)), r[2]),
                      {"term": termio.dump(sub), "found_in": termio.dump(f)})
    return check


# ---- the edge profile: bound-only sorts, int.to.str, constant arrays, custom sorts (also as array /
# ---- function parameters and with sort arguments), non-linear products / divisions / powers, UF

B2 = ("BV", 2)
S0 = ("Sort", "S", ())
PR = ("Sort", "P", (INT, B2))
ASI = ("Array", S0, INT)
AIS = ("Array", INT, S0)
AII = ("Array", INT, INT)
AB2B = ("Array", B2, BOOL)
ARS = ("Array", REAL, STRING)


def edge_profile(env, wide=True):
    p = Profile("edge", env)
    m = p.m
    ty = lambda s: mk_type(env, s)   # noqa: E731
    a = p.sym("a", BOOL)
    x, y = p.sym("x", INT), p.sym("y", INT)
    r, s = p.sym("r", REAL), p.sym("s", REAL)
    st = p.sym("st", STRING)
    u = p.sym("u", B2)
    c, d = p.sym("c", S0), p.sym("d", S0)
    pp, qq = p.sym("p", PR), p.sym("q", PR)
    As, Ai, Aii, Ab, Ars = p.sym("As", ASI), p.sym("Ai", AIS), p.sym("Aii", AII), p.sym("Ab", AB2B), p.sym("Ars", ARS)
    p.leaf(BOOL, a, m.TRUE())
    # 2*y as a leaf: general linear (not difference) arithmetic below every operator already at depth 1
    p.leaf(INT, x, y, m.Int(0), m.Int(2), m.Times(m.Int(2), y))
    p.leaf(REAL, r, s, m.Real(2))
    p.leaf(STRING, st, m.String("ab"))
    p.leaf(B2, u, m.BV(1, 2))
    p.leaf(S0, c, d)
    p.leaf(PR, pp, qq)
    p.leaf(ASI, As, m.Array(ty(S0), m.Int(0)))
    p.leaf(AIS, Ai, m.Array(ty(INT), c))
    p.leaf(AII, Aii, m.Array(ty(INT), m.Int(0)), m.Array(ty(INT), m.Int(0), {m.Int(0): m.Int(2)}))
    p.leaf(AB2B, Ab, m.Array(ty(B2), m.TRUE()))
    p.leaf(ARS, Ars)
    p.op("not", [BOOL], BOOL, lambda m, f: m.Not(f))
    p.op("and", [BOOL, BOOL], BOOL, lambda m, f, g: m.And(f, g))
    for nm, srt in (("I", INT), ("R", REAL), ("St", STRING), ("B2", B2), ("S", S0), ("P", PR), ("ASI", ASI),
                    ("AIS", AIS), ("AII", AII), ("AB2B", AB2B), ("ARS", ARS)):
        p.op("eq" + nm, [srt, srt], BOOL, lambda m, f, g: m.Equals(f, g))
    for nm, srt in (("I", INT), ("R", REAL)):
        two = m.Int(2) if srt == INT else m.Real(2)
        p.op("le" + nm, [srt, srt], BOOL, lambda m, f, g: m.LE(f, g))
        p.op("plus" + nm, [srt, srt], srt, lambda m, f, g: m.Plus(f, g))
        p.op("minus" + nm, [srt, srt], srt, lambda m, f, g: m.Minus(f, g))
        p.op("times" + nm, [srt, srt], srt, lambda m, f, g: m.Times(f, g))
        p.op("div" + nm, [srt, srt], srt, lambda m, f, g: m.Div(f, g))
        p.op("pow2" + nm, [srt], REAL, (lambda two: lambda m, f: m.Pow(f, two))(two))
    p.op("toreal", [INT], REAL, lambda m, f: m.ToReal(f))
    p.op("iteI", [BOOL, INT, INT], INT, lambda m, f, g, h: m.Ite(f, g, h))
    p.op("iteS", [BOOL, S0, S0], S0, lambda m, f, g, h: m.Ite(f, g, h))
    p.op("iteSt", [BOOL, STRING, STRING], STRING, lambda m, f, g, h: m.Ite(f, g, h))
    p.op("iteB2", [BOOL, B2, B2], B2, lambda m, f, g, h: m.Ite(f, g, h))
    p.op("inttostr", [INT], STRING, lambda m, f: m.IntToStr(f))
    p.op("strlen", [STRING], INT, lambda m, f: m.StrLength(f))
    p.op("strtoint", [STRING], INT, lambda m, f: m.StrToInt(f))
    p.op("strconcat", [STRING, STRING], STRING, lambda m, f, g: m.StrConcat(f, g))
    p.op("strcharat", [STRING, INT], STRING, lambda m, f, g: m.StrCharAt(f, g))
    p.op("strcontains", [STRING, STRING], BOOL, lambda m, f, g: m.StrContains(f, g))
    p.op("bv2nat", [B2], INT, lambda m, f: m.BVToNatural(f))
    p.op("bvadd", [B2, B2], B2, lambda m, f, g: m.BVAdd(f, g))
    p.op("bvult", [B2, B2], BOOL, lambda m, f, g: m.BVULT(f, g))
    for nm, A in (("ASI", ASI), ("AIS", AIS), ("AII", AII), ("AB2B", AB2B), ("ARS", ARS)):
        p.op("sel" + nm, [A, A[1]], A[2], lambda m, f, g: m.Select(f, g))
    for nm, A in (("ASI", ASI), ("AII", AII), ("AB2B", AB2B)):
        p.op("sto" + nm, [A, A[1], A[2]], A, lambda m, f, g, h: m.Store(f, g, h))
    funs = [("f", ("Fun", INT, (S0,))), ("g", ("Fun", S0, (INT,))), ("h", ("Fun", BOOL, (ASI,))),
            ("k", ("Fun", BOOL, (INT, PR))), ("bf", ("Fun", B2, (B2,))), ("pr", ("Fun", BOOL, (REAL,))),
            ("sf", ("Fun", STRING, (BOOL,)))]
    for nm, fs in funs:
        fsym = p.sym(nm, fs)
        p.op("app_" + nm, list(fs[2]), fs[1], (lambda fsym: lambda m, *args: m.Function(fsym, list(args)))(fsym))
    binders = [("a", [a]), ("x", [x]), ("r", [r]), ("u", [u]), ("c", [c]), ("p", [pp]), ("st", [st]),
               ("As", [As]), ("Aii", [Aii]), ("Ars", [Ars]), ("xu", [x, u])]
    for qn, Q in (("forall", m.ForAll), ("exists", m.Exists)):
        for nm, vs in binders:
            p.op("%s_%s" % (qn, nm), [BOOL], BOOL, (lambda Q, vs: lambda m, f: Q(vs, f))(Q, vs))
    # a quantifier inside a Boolean term nested in a theory term below an atom
    sfsym = [sy for sy in [m.get_symbol("sf")]][0]
    p.op("q_in_ite_under_eq", [BOOL], BOOL,
         lambda m, f: m.Equals(m.Ite(m.ForAll([x], m.Or(f, m.LE(x, y))), m.Int(1), m.Int(0)), y))
    p.op("q_in_uf_arg_under_eq", [BOOL], BOOL,
         lambda m, f: m.Equals(m.Function(sfsym, [m.Exists([u], m.And(f, m.BVULT(u, m.BV(1, 2))))]), st))
    return p


def _binary_or_less(o):
    return len(o.args) <= 2


def _names(*ns):
    return lambda o: o.name in ns


def _not_names(*ns):
    return lambda o: o.name not in ns


def parts(ctx):
    q = ctx.quick
    ps = []
    A = ps.append
    _B2 = ("not", "and", "or", "implies", "iff")
    A(dict(name="bool-d2", profile=lambda e: P.bool_profile(e, 2), depth=2, shards=8,
           mid_ops=_names(*_B2), top_ops=None if not q else _names(*_B2 + ("bite",)), max_new=1 if q else 2))
    A(dict(name="lia-d2", profile=lambda e: P.lia_profile(e, consts=(0, 1, 2), big=False) if q else P.lia_profile(e),
           depth=2, shards=32, mid_ops=_binary_or_less, top_ops=_binary_or_less, max_new=1 if q else None))
    A(dict(name="lra-d2", profile=lambda e: P.lra_profile(e, consts=(Fraction(0), Fraction(2), Fraction(1, 2)))
           if q else P.lra_profile(e),
           depth=2, shards=32, mid_ops=_binary_or_less, top_ops=_binary_or_less, max_new=1 if q else None))
    A(dict(name="lira-d2", profile=P.lira_profile, depth=2, shards=16,
           mid_ops=_binary_or_less, top_ops=_binary_or_less, max_new=1 if q else None))
    A(dict(name="lia-ite-nary-d2", profile=lambda e: P.lia_profile(e, consts=(0, 1), big=False, pow_=False, nary3=True),
           depth=2, shards=8, mid_ops=_binary_or_less, top_ops=_names("ite", "plus3", "times3"), max_new=1))
    A(dict(name="bv1-2-d2", profile=lambda e: P.bv_profile(e, (1, 2), nsyms=1, consts=(0, 1)), depth=2, shards=32,
           mid_ops=_binary_or_less, top_ops=_binary_or_less if q else None, max_new=1))
    A(dict(name="bv3-d1", profile=lambda e: P.bv_profile(e, (3,)), depth=1, shards=4))
    A(dict(name="str-d2", profile=lambda e: P.str_profile(e, strs=("", "ab"), ints=(-1, 0, 1)), depth=2,
           shards=16 if q else 64, max_new=1 if q else 2,
           top_ops=None if q else _not_names("strindexof", "strreplace", "strsubstr")))
    for nm, i, e_ in (("int-int", INT, INT), ("bv1-bool", ("BV", 1), BOOL), ("bv2-bv2", ("BV", 2), ("BV", 2)),
                      ("int-bool", INT, BOOL), ("real-int", REAL, INT)):
        A(dict(name="arr-%s-d2" % nm, profile=(lambda i, e_: lambda e: P.arr_profile(e, i, e_))(i, e_),
               depth=2, shards=8, mid_ops=_not_names("arrite"), top_ops=_not_names("store") if q else None,
               max_new=1))
    A(dict(name="mixed-d2", profile=lambda e: P.mixed_profile(e, quant=True), depth=2, shards=32, max_new=1, handoff=True))
    A(dict(name="nary5mix-d1", profile=P.nary5mix_profile, depth=1, shards=32))
    A(dict(name="uf-d2", profile=P.uf_profile, depth=2, shards=16))
    A(dict(name="quant-d2", profile=P.quant_profile, depth=2, shards=16, max_new=1 if q else None, handoff=True))
    A(dict(name="edge-d2", profile=edge_profile, depth=2, shards=32, handoff=True,
           top_ops=_not_names("iteI", "iteS", "iteSt", "stoASI", "stoAII", "stoAB2B") if q else None,
           max_new=1 if q else 2))
    if not q:
        A(dict(name="quant-d3", profile=P.quant_profile, depth=3, shards=64,
               mid_ops=_names("and", "not", "le", "bveq1", "forall_a", "exists_u", "forall_x", "exists_w"),
               top_ops=lambda o: "_" in o.name or o.name == "not", max_new=1))
        A(dict(name="edge-d3", profile=edge_profile, depth=3, shards=64,
               mid_ops=_names("not", "eqI", "eqSt", "eqS", "leR", "timesI", "divR", "pow2I", "inttostr", "strlen",
                              "bv2nat", "selASI", "selAII", "app_f", "app_g", "app_k", "toreal", "forall_u",
                              "exists_c", "forall_Aii", "exists_st", "iteB2", "strcharat"),
               top_ops=lambda o: o.name in ("not", "eqI", "eqSt", "eqS", "eqR", "leR", "leI", "pow2I", "pow2R",
                                            "inttostr", "strlen", "strtoint", "bv2nat", "toreal", "selASI",
                                            "selAIS", "selAII", "app_f", "app_g", "app_h", "app_k", "app_pr",
                                            "app_sf") or "_" in o.name and not o.name.startswith("app_"),
               max_new=1))
    return ps


# =========================================================================================
# run / replay
# =========================================================================================

A_PARTS = (("a-theories", run_theories), ("a-logics", run_logics), ("a-select", run_select),
           ("a-factory", run_factory), ("a-tables", run_tables))


def run(ctx):
    ctx.level = "exploration"
    ctx.rule = ("(a) every ordered pair (and, on the recorded relation, every triple) of the theory universe and "
                "of the named logics is evaluated on the real <=, ==, combine; every (supported list, target) "
                "pair on the real get_closer_logic / most_generic_logic / get_closer_smtlib_logic; a pair is "
                "non-trivial when the two elements are distinct and comparable, a selection when more than one "
                "supported logic is above the target; (b) all (operator, argument tuple) applications of each "
                "profile up to the part's depth; a term is non-trivial when the independent extraction demands "
                "at least one feature beyond the Boolean core")
    ctx.assumptions = ["a theory 'enables' a feature according to the reading of its attributes in key_feats "
                       "(integer/real_difference restrict the arithmetic, linear restricts products)",
                       "features a term needs: the sorts of all sub-terms, symbols, bound variables, function "
                       "signatures and array-value indices; operator families; quantifiers; a product of two "
                       "non-closed terms, a division by a non-closed term or a power of one is non-linear; a "
                       "product or division with a non-closed operand is beyond difference logic",
                       "clean errors (NoLogicAvailableError, ...) of detection / selection are counted as safe",
                       "solver LOGICS lists are re-evaluated from their defining expressions (the wrappers need "
                       "native libraries); qelim lists and pysmt.logics lists are the library's own objects"]
    wanted = getattr(ctx, "parts", None)
    for name, fn in A_PARTS:
        if wanted and name not in wanted:
            continue
        fn(ctx)
    ps = parts(ctx)
    ctx.coverage["parts"] = [n for n, _ in A_PARTS] + [p["name"] for p in ps]
    if not wanted or any(p["name"] in wanted for p in ps):
        sweep(ctx, ps, make)


def replay(rec):
    case = rec["case"]
    kind = case.get("kind")
    res = Result()
    if case.get("foreign"):
        env = Environment()
        push_env(env)
        try:
            ex = Extractor()
            f = termio.build(env, case["term"])
            make_verdict(env, ex)(f)
            env2 = Environment()
            fail = make_verdict(env2, ex)(env2.formula_manager.normalize(f))[0]
            if fail is not None:
                return False, "copy of %s in an environment that is not on top of the stack: %s" % (
                    termio.short(case["term"]), fail[2])
            return True, "the logic detected for the copy of %s in another environment covers it" % termio.short(case["term"])
        finally:
            pop_env()
    if case.get("handoff"):
        env = Environment()
        push_env(env)
        try:
            ex = Extractor()
            f = termio.build(env, case["term"])
            fail = make_handoff(env, ex)(f)[0]
            if fail is not None:
                return False, "%s: %s" % (termio.short(case["term"]), fail[2])
            return True, "every factory shortcut creates its solver for a logic that covers %s" % termio.short(case["term"])
        finally:
            pop_env()
    if kind in ("theory-pair", "theory-triple"):
        ks = [tuple(case[x]) for x in ("a", "b", "c") if x in case]
        for ka in ks:
            for kb in ks:
                check_theory_pair(res, ka, kb)
        if len(ks) == 3:
            a, b, c = [mk_theory(k) for k in ks]
            if a <= b and b <= c and not a <= c:
                return False, "transitivity fails on %s" % [show_key(k) for k in ks]
        if len(ks) == 2 and ks[0] != ks[1]:
            a, b = mk_theory(ks[0]), mk_theory(ks[1])
            if a <= b and b <= a:
                return False, "antisymmetry fails on %s" % [show_key(k) for k in ks]
        if res.violations:
            return False, res.violations[0]["msg"]
        return True, "theory axioms hold on %s" % [show_key(k) for k in ks]
    if kind in ("logic-pair", "logic-triple"):
        ls = [logic_from_case(case[x]) for x in ("a", "b", "c") if x in case]
        a, b = ls[0], ls[1]
        if len(ls) == 3 and a <= b and b <= ls[2] and not a <= ls[2]:
            return False, "transitivity fails on %s" % ls
        if a <= b:
            lost = set(key_feats(tkey(a.theory)) - key_feats(tkey(b.theory)))
            if not a.quantifier_free and b.quantifier_free:
                lost.add("quantifiers")
            if lost:
                return False, "%s <= %s although %s is lost" % (a, b, sorted(lost))
            if b <= a and a is not b and (tkey(a.theory) != tkey(b.theory) or a.quantifier_free != b.quantifier_free):
                return False, "antisymmetry fails on %s, %s" % (a, b)
        if bool(a < b) != (bool(a <= b) and not bool(b <= a)) and a is not b:
            return False, "< disagrees with <= on %s, %s" % (a, b)
        return True, "logic order obligations hold on %s" % ls
    if kind in ("closer", "closer_smtlib", "closer_pysmt", "generic"):
        S = [logic_from_case({"name": n, "qf": True, "theory": [False] * 12}) for n in case["S"]]
        nle = _NamedLe()
        if kind == "generic":
            v = generic_verdict(S, lambda: LG.most_generic_logic(S), nle)
        else:
            L = logic_from_case(case["L"])
            fn = {"closer": lambda: LG.get_closer_logic(S, L), "closer_smtlib": lambda: LG.get_closer_smtlib_logic(L),
                  "closer_pysmt": lambda: LG.get_closer_pysmt_logic(L)}[kind]
            v = closer_verdict(S, L, fn, nle)
        if v[1] is None:
            return True, "%s: %s" % (kind, v[0])
        return False, "%s: %s" % (kind, v[1])
    if kind == "factory":
        _U["families"] = sorted(families().items())
        L = logic_from_case(case["L"]) if case.get("L") else None
        _U["targets"] = [(L, "named" if case.get("solver") else "detected")] if L is not None else _targets(True)[:30]
        r = factory_shard((0, 1))
        if r.violations:
            return False, r.violations[0]["msg"]
        return True, "factory selection is sound for this target"
    if kind in ("table", "by-name", "by-flags"):
        ctx = type("C", (), {})()
        ctx.res = res
        run_tables(ctx)
        if res.violations:
            return False, res.violations[0]["msg"]
        return True, "name tables are consistent"
    env = Environment()
    push_env(env)
    try:
        f = termio.build(env, case["term"])
        ex = Extractor()
        fail, labels = make_verdict(env, ex)(f)
        if fail is None:
            return True, "%s: every needed feature %s is enabled (%s)" % (
                termio.short(case["term"]), sorted(ex.info(f)[1]), ", ".join(labels))
        return False, "%s: %s" % (termio.short(case["term"]), fail[2])
    finally:
        pop_env()
