"""C18 - optimisation returns the true optimum and restores the solver.

Every constraint system (conjunction of <= 2-3 atoms of a pool over Bool p,q; BV x,y; range-
bounded Int i,j) x every goal (Int, unsigned/signed BV, MaxSMT with integer or real weights,
MinMax / MaxMin) x every routine (optimize, boxed, lexicographic, Pareto) x {linear, binary} x
{assumption-based, incremental} x {empty stack, inside a user push} is run on pySMT's own
SUAOptimizerMixin / IncrementalOptimizerMixin mixed into the reference BruteSolver (exactly as
optimization/z3.py mixes them into Z3Solver); optimum, lexicographic optimum and Pareto front
are recomputed by plain enumeration with the reference semantics.
"""
import itertools
from fractions import Fraction
from pysmt.environment import Environment, push_env, pop_env
from pysmt.optimization.optimizer import SUAOptimizerMixin, IncrementalOptimizerMixin
from pysmt.optimization.goal import (MaximizationGoal, MinimizationGoal, MinMaxGoal, MaxMinGoal, MaxSMTGoal)
from pysmt.logics import QF_UFLIRA
from ..core.runner import Result
from ..core.refsolver import BruteSolver, NativeError
from ..core.refsem import compile_term, free_symbols, to_signed, const_to_value
from ..core.termgen import sort_values
from ..core.termio import INT, BOOL, mk_type


class Budget(Exception):
    pass


class _Budgeted(BruteSolver):
    BUDGET = 400

    def _solve(self, assumptions=None):
        if self.native.checks > self.BUDGET:
            raise Budget("more than %d satisfiability checks" % self.BUDGET)
        return BruteSolver._solve(self, assumptions=assumptions)


class BruteSUAOptimizer(_Budgeted, SUAOptimizerMixin):
    def can_diverge_for_unbounded_cases(self):
        return True


class BruteIncrementalOptimizer(_Budgeted, IncrementalOptimizerMixin):
    def can_diverge_for_unbounded_cases(self):
        return True


INT_RANGE = (-1, 0, 1, 2)


class World(object):
    def __init__(self, env, w):
        self.env = env
        m = env.formula_manager
        self.m = m
        self.w = w
        bw = ("BV", w)
        self.p, self.q = m.Symbol("p"), m.Symbol("q")
        self.x, self.y = m.Symbol("x", mk_type(env, bw)), m.Symbol("y", mk_type(env, bw))
        self.i, self.j = m.Symbol("i", mk_type(env, INT)), m.Symbol("j", mk_type(env, INT))
        self.dom = {INT: INT_RANGE}
        top = (1 << w) - 1
        self.atoms = {
            "p": self.p, "!p|q": m.Or(m.Not(self.p), self.q), "p!=q": m.Not(m.Iff(self.p, self.q)),
            "x<y": m.BVULT(self.x, self.y), "x!=top": m.Not(m.Equals(self.x, m.BV(top, w))),
            "y=x+1": m.Equals(self.y, m.BVAdd(self.x, m.BV(1, w))), "x>=s0": m.BVSGE(self.x, m.BV(0, w)),
            "x!=0": m.Not(m.Equals(self.x, m.BV(0, w))),
            "i<j": m.LT(self.i, self.j), "i+j=1": m.Equals(m.Plus(self.i, self.j), m.Int(1)),
            "p->i>0": m.Implies(self.p, m.GT(self.i, m.Int(0))), "x<y->i=2": m.Implies(m.BVULT(self.x, self.y), m.Equals(self.i, m.Int(2))),
            "false": m.And(self.p, m.Not(self.p)),
        }
        lo, hi = m.Int(INT_RANGE[0]), m.Int(INT_RANGE[-1])
        self.ranges = {"i": m.And(m.LE(lo, self.i), m.LE(self.i, hi)), "j": m.And(m.LE(lo, self.j), m.LE(self.j, hi))}

    def goal(self, name):
        m = self.m
        G = {
            "min i": lambda: MinimizationGoal(self.i), "max i": lambda: MaximizationGoal(self.i),
            "min i+j": lambda: MinimizationGoal(m.Plus(self.i, self.j)),
            "max i-j": lambda: MaximizationGoal(m.Minus(self.i, self.j)),
            "min x": lambda: MinimizationGoal(self.x), "max x": lambda: MaximizationGoal(self.x),
            "max x+y": lambda: MaximizationGoal(m.BVAdd(self.x, self.y)),
            "min x&y": lambda: MinimizationGoal(m.BVAnd(self.x, self.y)),
            "min x signed": lambda: MinimizationGoal(self.x, True), "max x signed": lambda: MaximizationGoal(self.x, True),
            "max y signed": lambda: MaximizationGoal(self.y, True),
            "minmax i j": lambda: MinMaxGoal([self.i, self.j]), "maxmin i j": lambda: MaxMinGoal([self.i, self.j]),
            "minmax x y": lambda: MinMaxGoal([self.x, self.y], False), "maxmin x y signed": lambda: MaxMinGoal([self.x, self.y], True),
            "maxsmt p:1 q:2 int": lambda: self._maxsmt([(self.p, 1), (self.q, 2)], False),
            "maxsmt p:1 !p:3 q:2 real": lambda: self._maxsmt([(self.p, 1), (m.Not(self.p), 3), (self.q, 2)], True),
            "maxsmt i>0:2 p:1 int": lambda: self._maxsmt([(m.GT(self.i, m.Int(0)), 2), (self.p, 1)], False),
            "maxsmt x<y:1 p:2 int": lambda: self._maxsmt([(m.BVULT(self.x, self.y), 1), (self.p, 2)], False),
            # negative weights, in both polarities (the first model of the search is all-false): the
            # optimum exceeds the sum of the weights
            "maxsmt p:5 q:-3 int": lambda: self._maxsmt([(self.p, 5), (self.q, -3)], False),
            "maxsmt !p:5 !q:-3 real": lambda: self._maxsmt([(m.Not(self.p), 5), (m.Not(self.q), -3)], True),
        }
        return G[name]()

    def _maxsmt(self, soft, real):
        g = MaxSMTGoal(real_weights=real)
        for c, w in soft:
            g.add_soft_clause(c, self.m.Real(w) if real else self.m.Int(w))
        return g


GOALS_SINGLE = ["min i", "max i", "min i+j", "max i-j", "min x", "max x", "max x+y", "min x&y", "min x signed",
                "max x signed", "minmax i j", "maxmin i j", "minmax x y", "maxmin x y signed",
                "maxsmt p:1 q:2 int", "maxsmt p:1 !p:3 q:2 real", "maxsmt i>0:2 p:1 int", "maxsmt x<y:1 p:2 int",
                "maxsmt p:5 q:-3 int", "maxsmt !p:5 !q:-3 real"]
GOAL_PAIRS = [("min i", "max j*"), ("max x", "min x&y"), ("min x", "min x signed"), ("min x signed", "max y signed"), ("max i", "min i+j"),
              ("max x signed", "max x"),
              ("min x", "max i"), ("max x+y", "max x signed"), ("minmax i j", "max i-j")]


def goal_value(goal, I, w):
    """objective value of a goal under interpretation I (python number); for MaxSMT the weight sum"""
    if goal.is_maxsmt_goal():
        tot = Fraction(0)
        for c, wt in goal.soft:
            if compile_term(c)[1](I):
                tot += Fraction(wt.constant_value())
        return tot
    s, f = compile_term(goal.term())
    v = f(I)
    if isinstance(s, tuple) and s[0] == "BV" and goal.signed:
        return to_signed(v, s[1])
    return v


def maximizing(goal):
    return goal.is_maximization_goal()     # MaxSMT and MaxMin are maximisations


def const_num(c, goal):
    """returned cost constant -> python number comparable with goal_value"""
    s, v = const_to_value(c)
    if isinstance(s, tuple) and s[0] == "BV" and goal.signed:
        return to_signed(v, s[1])
    return Fraction(v) if goal.is_maxsmt_goal() else v


class Case(object):
    def __init__(self, world, atoms, prestate):
        self.world = world
        self.atoms = atoms
        self.prestate = prestate

    def assertions(self, goals):
        W = self.world
        fs = [W.atoms[a] for a in self.atoms]
        used = set()
        for f in fs:
            used.update(free_symbols(f))
        for g in goals:
            if g.is_maxsmt_goal():
                for c, _ in g.soft:
                    used.update(free_symbols(c))
            else:
                used.update(free_symbols(g.term()))
        for n in ("i", "j"):
            if n in used:
                fs.append(W.ranges[n])
        return fs

    def models(self, fs, goals):
        """all interpretations (over the symbols of assertions and goals) satisfying fs"""
        syms = {}
        for f in fs:
            syms.update(free_symbols(f))
        for g in goals:
            if g.is_maxsmt_goal():
                for c, _ in g.soft:
                    syms.update(free_symbols(c))
            else:
                syms.update(free_symbols(g.term()))
        names = sorted(syms)
        fns = [compile_term(f)[1] for f in fs]
        out = []
        for vals in itertools.product(*[sort_values(syms[n], self.world.dom) for n in names]):
            I = dict(zip(names, vals))
            if all(g(I) for g in fns):
                out.append(I)
        return out


def model_interp(model, names_sorts, env):
    I = {}
    m = env.formula_manager
    for n, s in names_sorts.items():
        v = model.get_value(m.get_symbol(n))
        I[n] = const_to_value(v)[1]
    return I


def run_one(world, atoms, goal_names, routine, strategy, mixin, prestate):
    """returns None or (kind, msg)"""
    env = world.env
    m = world.m
    cls = BruteSUAOptimizer if mixin == "sua" else BruteIncrementalOptimizer
    opt = cls(env, QF_UFLIRA, dom=world.dom)
    if prestate.endswith("-last"):
        # the oracle answers with the last model instead of the first: another search trajectory
        opt.native.model_order = "last"
        prestate = prestate[:-5]
    case = Case(world, atoms, prestate)
    goals = []
    for gn in goal_names:
        if routine == "maxsmt-extend":
            continue
        if gn == "max j*":
            goals.append(MaximizationGoal(world.j))
        else:
            goals.append(world.goal(gn))
    if routine == "maxsmt-extend":
        # (only to collect the symbols: the goal actually optimised is built step by step below)
        goals = [world._maxsmt([(world.p, 1), (m.Not(world.p), 3), (world.q, 2)], goal_names[0].endswith("real"))]
    fs = case.assertions(goals)
    extra = m.Or(world.p, m.Not(world.p))      # a harmless user assertion inside the user push
    try:
        if prestate == "pushed":
            opt.add_assertion(fs[0]) if fs else None
            opt.push()
            opt.add_assertion(extra)
            for f in fs[1:]:
                opt.add_assertion(f)
            before_list = list(opt.assertions)
        else:
            for f in fs:
                opt.add_assertion(f)
            before_list = list(opt.assertions)
        before_depth = opt.native.depth()
        before_bt = len(opt._backtrack_points)
        models = case.models(fs, goals)
        unsat = not models
        syms = {}
        for f in fs:
            syms.update(free_symbols(f))
        for g in goals:
            if not g.is_maxsmt_goal():
                syms.update(free_symbols(g.term()))
            else:
                for c, _ in g.soft:
                    syms.update(free_symbols(c))
        fns = [compile_term(f)[1] for f in fs]

        def best(g, among):
            vals = [goal_value(g, I, world.w) for I in among]
            return max(vals) if maximizing(g) else min(vals)

        def check_model(model, g, cost, want, what):
            try:
                I = model_interp(model, syms, env)
            except Exception as e:
                return ("model", "%s: the returned model cannot be read: %r" % (what, e))
            if not all(fn(I) for fn in fns):
                return ("model", "%s: the returned model %r does not satisfy the assertions" % (what, I))
            got = const_num(cost, g)
            if goal_value(g, I, world.w) != got:
                return ("model", "%s: the model attains %r but the returned cost is %r" % (what, goal_value(g, I, world.w), got))
            if got != want:
                return ("optimum", "%s: returned cost %r, the true optimum is %r" % (what, got, want))
            return None

        bad = None
        if routine == "optimize":
            g = goals[0]
            r = opt.optimize(g, strategy=strategy)
            if unsat:
                if r is not None:
                    bad = ("nosolution", "returned a solution for unsatisfiable assertions")
            elif r is None:
                bad = ("nosolution", "reported no solution for satisfiable assertions")
            else:
                model, cost = r
                if g.is_maxsmt_goal():
                    cost_num = cost
                bad = check_model(model, g, cost, best(g, models), "optimize")
        elif routine == "maxsmt-extend":
            # a MaxSMT goal is optimised, extended with further soft clauses (weights given as Python
            # numbers and as constants) and optimised again
            real = goal_names[0].endswith("real")
            g = MaxSMTGoal(real_weights=real)
            g.add_soft_clause(world.p, m.Real(1) if real else m.Int(1))
            r1 = opt.optimize(g, strategy=strategy)
            stages = [("first", list(g.soft))]
            g.add_soft_clause(m.Not(world.p), 3)
            r2 = opt.optimize(g, strategy=strategy)
            g.add_soft_clause(world.q, m.Real(2) if real else m.Int(2))
            r3 = opt.optimize(g, strategy=strategy)
            goals = [g]
            if unsat:
                if r1 is not None or r2 is not None or r3 is not None:
                    bad = ("nosolution", "maxsmt-extend: returned a solution for unsatisfiable assertions")
            elif r3 is None or r2 is None or r1 is None:
                bad = ("nosolution", "maxsmt-extend: reported no solution for satisfiable assertions")
            else:
                # r2 must be optimal for the two-clause goal, r3 for the three-clause goal
                def opt_for(k):
                    h = MaxSMTGoal(real_weights=real)
                    for c, wt in g.soft[:k]:
                        h.add_soft_clause(c, wt)
                    return best(h, models), h
                for k, r in ((2, r2), (3, r3)):
                    want, h = opt_for(k)
                    bad = check_model(r[0], h, r[1], want, "maxsmt-extend stage %d" % k)
                    if bad:
                        break
        elif routine == "boxed":
            r = opt.boxed_optimize(goals, strategy=strategy)
            if unsat:
                if r is not None:
                    bad = ("nosolution", "boxed: returned a solution for unsatisfiable assertions")
            elif r is None:
                bad = ("nosolution", "boxed: reported no solution for satisfiable assertions")
            else:
                for g in goals:
                    if g not in r:
                        bad = ("optimum", "boxed: no entry for goal %r" % (g,))
                        break
                    model, cost = r[g]
                    bad = check_model(model, g, cost, best(g, models), "boxed %r" % (g,))
                    if bad:
                        break
        elif routine == "lexicographic":
            r = opt.lexicographic_optimize(goals, strategy=strategy)
            if unsat:
                if r is not None:
                    bad = ("nosolution", "lexicographic: returned a solution for unsatisfiable assertions")
            elif r is None:
                bad = ("nosolution", "lexicographic: reported no solution for satisfiable assertions")
            else:
                model, costs = r
                among = models
                wants = []
                for g in goals:
                    b = best(g, among)
                    wants.append(b)
                    among = [I for I in among if goal_value(g, I, world.w) == b]
                got = [const_num(c, g) for c, g in zip(costs, goals)]
                if got != wants:
                    bad = ("optimum", "lexicographic: returned costs %r, the lexicographic optimum is %r" % (got, wants))
                else:
                    try:
                        I = model_interp(model, syms, env)
                        if not all(fn(I) for fn in fns):
                            bad = ("model", "lexicographic: the model %r does not satisfy the assertions" % (I,))
                        elif [goal_value(g, I, world.w) for g in goals] != wants:
                            bad = ("model", "lexicographic: the model attains %r, costs %r"
                                   % ([goal_value(g, I, world.w) for g in goals], wants))
                    except Exception as e:
                        bad = ("model", "lexicographic: the model cannot be read: %r" % (e,))
        elif routine == "pareto":
            res = list(opt.pareto_optimize(goals))
            vecs = [tuple(goal_value(g, I, world.w) for g in goals) for I in models]

            def better_eq(a, b):
                return all((x >= y) if maximizing(g) else (x <= y) for x, y, g in zip(a, b, goals))
            front = set(v for v in vecs if not any(better_eq(u, v) and u != v for u in vecs))
            got = [tuple(const_num(c, g) for c, g in zip(costs, goals)) for _, costs in res]
            if len(got) != len(set(got)):
                bad = ("pareto", "pareto: a point is returned twice: %r" % (got,))
            elif set(got) != front:
                bad = ("pareto", "pareto: returned %r, the Pareto front is %r" % (sorted(got), sorted(front)))
            else:
                for model, costs in res:
                    I = model_interp(model, syms, env)
                    if not all(fn(I) for fn in fns) or tuple(goal_value(g, I, world.w) for g in goals) != \
                            tuple(const_num(c, g) for c, g in zip(costs, goals)):
                        bad = ("model", "pareto: model %r does not attain %r" % (I, costs))
                        break
        if bad:
            return bad
        # ---- the solver is left as it was found
        after = list(opt.assertions)
        if after != before_list:
            return ("restore", "assertions %r before, %r after" % (before_list, after))
        if opt.native.depth() != before_depth or len(opt._backtrack_points) != before_bt or \
                opt.native.live() != before_list:
            return ("restore", "stack depth %d (native %d) before, %d (native %d) after; native holds %r"
                    % (before_bt, before_depth, len(opt._backtrack_points), opt.native.depth(), opt.native.live()))
        if prestate == "pushed":
            opt.pop()
            if list(opt.assertions) != fs[:1]:
                return ("restore", "a user pop after the routine leaves %r, expected %r" % (list(opt.assertions), fs[:1]))
        return None
    except Budget as e:
        return ("nontermination", "%s" % e)
    except NativeError as e:
        return ("restore", "the underlying solver rejected the command stream: %s" % e)
    except Exception as e:
        return ("exception", "%s: %s" % (type(e).__name__, str(e)[:160]))


def systems(world, max_atoms):
    names = sorted(world.atoms)
    out = [()]
    for k in range(1, max_atoms + 1):
        out.extend(itertools.combinations(names, k))
    return out


def goal_class(gn):
    if gn in ("maxsmt int", "maxsmt real"):
        return gn.replace(" ", "-")
    if gn.startswith("maxsmt"):
        return "maxsmt-" + gn.split()[-1] + ("-bv" if "x<y" in gn else "")
    if "minmax" in gn or "maxmin" in gn:
        return gn.split()[0] + ("-bv" if "x" in gn.split()[1:] else "-int") + ("-signed" if "signed" in gn else "")
    term = gn.split()[1]
    kind = "bv" if ("x" in term or "y" in term) else "int"
    return "%s-%s%s" % (gn.split()[0], kind, "-signed" if "signed" in gn else "")


def run_shard(args):
    w, sysidx, nsys, quick, seed = args
    res = Result()
    env = Environment()
    push_env(env)
    try:
        world = World(env, w)
        allsys = systems(world, 2 if quick else 3)
        for si, atoms in enumerate(allsys):
            if si % nsys != sysidx:
                continue
            for routine, goalsets in (("optimize", [(g,) for g in GOALS_SINGLE]),
                                      ("maxsmt-extend", [("maxsmt int",), ("maxsmt real",)]),
                                      ("boxed", GOAL_PAIRS[:4] if quick else GOAL_PAIRS),
                                      ("lexicographic", GOAL_PAIRS + [(b, a) for a, b in GOAL_PAIRS if "*" not in b]),
                                      ("pareto", GOAL_PAIRS[:5] if quick else GOAL_PAIRS)):
                for gs in goalsets:
                    if routine in ("lexicographic", "pareto") and any(g.startswith("maxsmt") for g in gs):
                        continue
                    for strategy in ("linear", "binary"):
                        if routine == "pareto" and strategy == "binary":
                            continue
                        if strategy == "binary" and any(g.endswith("real") for g in gs):
                            continue      # bisection over real-valued objectives is not claimed
                        for mixin in ("sua", "inc"):
                            for prestate in ("empty", "pushed", "empty-last"):
                                res.count("evaluations")
                                bad = run_one(world, atoms, gs, routine, strategy, mixin, prestate)
                                res.outcome("%s:%s" % (routine, "ok" if bad is None else bad[0]))
                                if len(atoms) >= 1:
                                    res.count("nontrivial")
                                res.sample({"atoms": list(atoms), "goals": list(gs), "routine": routine,
                                            "strategy": strategy, "mixin": mixin, "prestate": prestate}, limit=2)
                                if bad:
                                    sig = "opt:%s:%s:%s:%s:%s" % (routine, "+".join(goal_class(g) for g in gs),
                                                                  strategy, mixin, bad[0])
                                    res.violation("opt", sig,
                                                  "%s(%s) %s/%s from %s stack, assertions %s (BV%d): %s"
                                                  % (routine, ", ".join(gs), strategy, mixin, prestate, list(atoms), w, bad[1]),
                                                  {"w": w, "atoms": list(atoms), "goals": list(gs), "routine": routine,
                                                   "strategy": strategy, "mixin": mixin, "prestate": prestate})
    finally:
        pop_env()
    return res


def run(ctx):
    ctx.level = "exploration"
    ctx.rule = ("all conjunctions of <=2 (thorough <=3) atoms of a 13-atom pool over Bool, BV2 (thorough BV3) and "
                "range-bounded Int x 18 goals / curated ordered goal pairs x {optimize, boxed, lexicographic, pareto} x "
                "{linear, binary} x {assumption-based, incremental} x {empty stack, inside a user push}; optimum, "
                "lexicographic optimum and Pareto front recomputed by enumeration; non-trivial = at least one atom")
    ctx.assumptions = ["the satisfiability oracle is the exhaustive BruteSolver (mc/core/refsolver.py) mixed with pySMT's "
                       "own SUAOptimizerMixin / IncrementalOptimizerMixin as optimization/z3.py does",
                       "Int symbols are asserted to lie in [-1,2] so that enumeration is exact",
                       "bisection over real-valued objectives is not claimed (statement)"]
    widths = (2,) if ctx.quick else (2, 3)
    shards = [(w, i, 32, ctx.quick, ctx.seed) for w in widths for i in range(32)]
    ctx.rng.shuffle(shards)
    ctx.pmap(run_shard, shards)


def replay(rec):
    c = rec["case"]
    env = Environment()
    push_env(env)
    try:
        world = World(env, c["w"])
        bad = run_one(world, tuple(c["atoms"]), tuple(c["goals"]), c["routine"], c["strategy"], c["mixin"], c["prestate"])
        if bad:
            return False, "%s(%s) %s/%s %s %s: %s" % (c["routine"], c["goals"], c["strategy"], c["mixin"], c["prestate"], c["atoms"], bad[1])
        return True, "optimum and solver state are correct for %r" % (c,)
    finally:
        pop_env()
