"""./check <ID> [--tier quick|thorough] [--seed N] [--replay file]

One process per property; PYTHONHASHSEED is pinned by re-exec so that set iteration is
reproducible; /repo is imported from its working tree (editable install), never copied.
"""
import argparse
import importlib
import json
import os
import sys

if os.environ.get("PYTHONHASHSEED") != "0":
    os.environ["PYTHONHASHSEED"] = "0"
    os.execv(sys.executable, [sys.executable, "-B"] + sys.argv)

HERE = os.path.dirname(os.path.abspath(__file__))
sys.path.insert(0, os.path.dirname(HERE))
# development only (mutation experiments on a scratch worktree): VERIF_REPO=/tmp/wt ./check ...
REPO = os.environ.get("VERIF_REPO", "/repo")
if REPO != "/repo":
    sys.path.insert(0, REPO)
sys.setrecursionlimit(1000)   # the default; C20 relies on it

import warnings  # noqa: E402
warnings.simplefilter("ignore")      # pySMT deprecation / division-by-zero warnings are not findings

from mc.core import runner  # noqa: E402


def main():
    ap = argparse.ArgumentParser()
    ap.add_argument("prop")
    ap.add_argument("--tier", default=os.environ.get("VERIF_TIER", "quick"),
                    choices=["quick", "thorough"])
    ap.add_argument("--seed", type=int, default=int(os.environ.get("VERIF_SEED", "0") or 0))
    ap.add_argument("--replay")
    ap.add_argument("--part", action="append", help="run only the named part(s) (debugging)")
    ap.add_argument("--estimate", action="store_true", help="print the size of each part and exit")
    a = ap.parse_args()
    import pysmt
    if not os.path.realpath(pysmt.__file__).startswith(os.path.realpath(REPO) + "/"):
        print("harness error: pysmt imported from %s, not %s" % (pysmt.__file__, REPO))
        return 2
    if REPO != "/repo":
        print("NOTE: running against scratch tree %s (not evidence)" % REPO)
    if a.prop == "selftest":
        from mc.core import selftest
        return selftest.main()
    mod = importlib.import_module("mc.props." + a.prop.lower())
    if a.replay:
        rec = json.load(open(a.replay))
        ok, msg = mod.replay(rec)
        print(msg)
        if not ok:
            print("VIOLATION property=%s replay=%s" % (a.prop.upper(), a.replay))
            return 1
        print("replay: property holds on this case")
        return 0
    ctx = runner.Ctx(a.prop.upper(), a.tier, a.seed)
    ctx.parts = a.part
    if a.estimate:
        from mc.core.sweep import estimate
        tot = 0
        for p in mod.parts(ctx):
            n = estimate(p)
            tot += n
            print("%-24s depth=%d applications=%d" % (p["name"], p["depth"], n))
        print("total", tot)
        return 0
    mod.run(ctx)
    return runner.finish(ctx)


if __name__ == "__main__":
    sys.exit(main())
