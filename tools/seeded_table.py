#!/venv/bin/python
"""Prints the markdown table of DESIGN.md 9.6 from seeded/*/meta.json."""
import glob
import json
import os

ROOT = os.path.dirname(os.path.dirname(os.path.abspath(__file__)))


def update_design():
    """rewrites the table between the seeded-table markers of DESIGN.md"""
    import io
    import re
    import contextlib
    buf = io.StringIO()
    with contextlib.redirect_stdout(buf):
        main()
    path = os.path.join(ROOT, "DESIGN.md")
    s = open(path).read()
    s = re.sub(r"<!-- seeded-table:begin -->.*<!-- seeded-table:end -->",
               lambda m_: "<!-- seeded-table:begin -->\n" + buf.getvalue().strip() + "\n<!-- seeded-table:end -->", s, flags=re.S)
    open(path, "w").write(s)


def main():
    rows = []
    for f in sorted(glob.glob(os.path.join(ROOT, "seeded", "C*", "meta.json"))):
        m = json.load(open(f))
        caught = [c for c, v in m["checks"].items() if v["caught"]]
        missed = [c for c, v in m["checks"].items() if not v["caught"]]
        needs = " ".join(m["needs_to_manifest"].split())
        if len(needs) > 150:
            needs = needs[:147] + "..."
        hist = m.get("history", "")
        hist = "first run" if hist.startswith("detected by") else hist
        rows.append("| %s | %s | %s%s | %s |" % (m["id"], needs, ", ".join(caught) or "-",
                                               (" (not: %s)" % ", ".join(missed)) if missed else "", hist))
    print("| seeded change | what it needs to manifest | caught by | history |")
    print("|---|---|---|---|")
    for r in rows:
        print(r)
    print()
    print("%d seeded changes, %d detected" % (len(rows), sum(1 for r in rows if "| - |" not in r and "| - (" not in r)))


if __name__ == "__main__":
    import sys
    if "--update" in sys.argv:
        update_design()
    else:
        main()
