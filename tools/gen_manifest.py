#!/venv/bin/python
"""Regenerates /verif/MANIFEST.json from the table below and validates it.
Properties without an entry in CLAIMED are listed under not_applicable with the reason
given in PENDING (kept current as checks are built)."""
import json, os, sys
ROOT = os.path.dirname(os.path.dirname(os.path.abspath(__file__)))

CLAIMED = {
    "C01": dict(
        category="exploration",
        technique="bounded-exhaustive enumeration of all terms per theory profile up to depth 2-3, "
                  "each evaluated under every interpretation over finite value pools against an "
                  "independent reference semantics",
        text="Every well-typed term of each profile (Bool, LIA, LRA, LIRA, BV widths 1-3 with all "
             "constants, strings, arrays, UF, quantifiers) up to the stated depth is simplified by the real "
             "Simplifier and compared with the input under every interpretation of its symbols over "
             "finite pools; exhaustive within the bound, so any rewrite rule that is wrong for some "
             "operand shape reachable at that depth is found with its smallest witness.",
        note="Trusted: mc/core/refsem.py (SMT-LIB 2.6 semantics, cross-checked against z3/cvc5 by "
             "./check selftest). Int/Real quantifiers range over explicit finite domains. Nothing is "
             "claimed beyond the enumerated depth/width.",
        design="§3 C01"),
    "C02": dict(
        category="exploration",
        technique="bounded-exhaustive enumeration of quantifier-free UF-free terms x all total and partial "
                  "assignments over finite pools (all operand values for every BV operator at widths 1-3/4), "
                  "compared with an independent reference evaluator",
        text="For every term of the profiles and every assignment of pool constants to its symbols, "
             "EagerModel.get_value/[]/get_py_value/satisfies are compared with the reference value; every "
             "non-empty subset of symbols is deleted to check completion defaults and the no-completion "
             "contract. Exhaustive within the bound.",
        note="Trusted: mc/core/refsem.py. Pools: Int -2..3, Real 6 values, all BV values of the width, corner "
             "strings, small canonical arrays. Nothing is claimed for widths > 4 or depth > 2.",
        design="§3 C02"),
    "C03": dict(
        category="exploration",
        technique="exhaustive matrix of public constructors x argument sorts x arities against an independent "
                  "typing table, plus bottom-up re-typing of every transformation output on enumerated pools",
        text="Every public constructor is applied to every tuple of a pool with one or two inhabitants per sort "
             "(arities n-1..n+1; in- and out-of-range integer parameters for indexed operators): ill-typed "
             "applications must raise, returned formulas must carry the sort the table predicts, according to "
             "get_type() and to the harness' own bottom-up derivation. Every transformation and both parsers "
             "are run on enumerated pools and their outputs re-typed.",
        note="Trusted: the typing table in mc/props/c03.py and reftype in mc/core/refsem.py. Refusing a "
             "well-typed application is outside the statement and only counted (listed in the evidence notes).",
        design="§3 C03"),
    "C06": dict(
        category="exploration", engine="table",
        technique="exhaustive table of derived constructors and infix forms x calling conventions x arities, each "
                  "evaluated under every interpretation of fresh operands (all BV values of the width, all Bool tuples) "
                  "against a direct Python definition of the named function",
        text="Each derived constructor / infix operator / FNode method is applied to fresh symbols, Python literals, "
             "constant formulas (alone and in pairs), a table of compound operand shapes (n-ary products with -1 in each position, sums, "
             "differences, negations) and the same formula at two argument positions, in a fresh infix-enabled "
             "environment; the formula pySMT builds is evaluated by the reference semantics under every interpretation "
             "and compared with an independently written Python definition of the function the name denotes "
             "(exhaustive for BV widths 1-3, thorough 1-5, and Bool; Int -3..3, six Reals; Min/Max up to 12, thorough 17, "
             "arguments over two- and three-value pools).",
        note="Trusted: the per-function definitions in mc/props/c06.py and mc/core/refsem.py. Int/Real arguments are "
             "confined to the pools; compound operands are the listed shapes, not arbitrary terms.",
        design="§3 C06"),
    "C04": dict(
        category="model_checking", engine="explorer",
        technique="exhaustive enumeration of construction histories (one blueprint by one spelling, noise, failed "
                  "constructions) replayed on fresh environments against an independently normalised structural key, plus "
                  "an exhaustive sweep of cross-environment copies",
        text="96 blueprints with 204 spellings in 7 families; every history up to length 3 (thorough 4 over a reduced "
             "alphabet) is replayed in a fresh Environment; after it, two built formulas must be the same object exactly "
             "when their hand-normalised keys are equal, every accessor must report the blueprint, array_value_get must "
             "be right on every index constant. Part 2: every term of the standard pools plus custom/parametric sorts is "
             "normalised into an empty and a pre-populated environment and back: same structure, no shared node or type "
             "object, idempotent, round trip is the identity.",
        note="Trusted: the normalisation table norm() in mc/props/c04.py (self-tested at import). Families are explored "
             "separately; widths <= 3.",
        design="§3 C04"),
    "C05": dict(
        category="exploration",
        technique="bounded-exhaustive enumeration of (formula, substitution map / function interpretation) pairs; "
                  "object identity against an independent reference implementation of most-general / most-specific "
                  "replacement, and the substitution lemma by exhaustive evaluation",
        text="All terms of five dedicated profiles (incl. nested/shadowing quantifiers and shared sub-DAGs) x all "
             "type-correct maps with up to 2 (shallow parts 3) keys that are symbols or arbitrary sub-terms x all "
             "acyclic interpretations of 1-2 function symbols, through FNode.substitute, env.substituter and fresh "
             "MGS/MSS instances. The result must BE the formula built by the reference replacement; for capture-free "
             "symbol maps the lemma ev(sub(f,s),I)=ev(f,I[x->ev(s x,I)]) is checked under every interpretation. "
             "All-operators part: every term of the standard profiles (all bit-vector operators at widths 1-3, strings, "
             "Int/Real, arrays incl. literals, cross-theory) x every one-key map from a symbol or constant sub-term to "
             "another leaf of its sort, three routes, against a top-down replacement on the JSON form of the term "
             "re-built through the public constructors.",
        note="Trusted: RefSub in mc/props/c05.py (written from the Substituter docstrings) and refsem. Capture cases "
             "and maps whose keys are free symbols of interpretation bodies are compared with the documented "
             "replacement only.",
        design="§3 C05"),
    "C07": dict(
        category="exploration",
        technique="bounded-exhaustive enumeration of formulas x four export routes, each text read by an independent "
                  "strict SMT-LIB reader/sort-checker and evaluated under every interpretation",
        text="Every term of 18 (thorough 20) profiles - all operators incl. indexed ones, negative/rational/huge "
             "constants, strings with quotes, constant arrays, nested/shadowing quantifiers, symbols, functions and bound "
             "variables whose names need quoting or equal the printer's let names, custom sorts of arity 0 and 1 - is "
             "exported as term (tree, DAG) and as script (tree, DAG), and 10k scripts with two or three assertions are "
             "serialised by one printer; smtref checks the text is well-formed, every sort and symbol declared exactly "
             "once before use and well-sorted, then its value under every interpretation must equal the formula's.",
        note="Trusted: mc/core/smtref.py (independent reading of SMT-LIB 2.6; accepted deviations in its docstring) "
             "and refsem. POW and undeclarable names are excluded as the statement says; a clean "
             "NoLogicAvailableError from the script generator is a refusal, not an export.",
        design="§3 C07"),
    "C08": dict(
        category="exploration",
        technique="bounded-exhaustive enumeration of SMT-LIB texts from an independent text grammar (every parser-table "
                  "entry in every syntactic variant, nested once) plus binder/definition families and malformed variants, "
                  "each compared with an independent reader under every interpretation",
        text="~376k texts: every operator, literal notation and indexed identifier of the parser tables applied to leaf "
             "texts and with one nested argument; ~75 hand-written families (parallel/nested/shadowing let, quantifiers "
             "shadowing globals, define-fun with parameters shadowing globals or definitions, definitions inside "
             "definitions, capture, declarations, annotations, comments, quoted symbols, numerals by logic) and ~28 "
             "malformed variants. Accepted text must evaluate as smtref says under every interpretation; malformed "
             "variants must raise; well-formed supported text must be accepted.",
        note="Trusted: mc/core/smtref.py. Valid forms the parser cannot handle today (n-ary -, =>, xor; division by "
             "the literal zero) may be rejected. Lenient readings that keep the meaning ((bvadd u), re-declaration with "
             "the same sort) are not in the must-reject list. Four known findings (undeclared symbol as String, three "
             "capture cases).",
        design="§3 C08"),
    "C09": dict(
        category="exploration",
        technique="bounded-exhaustive enumeration of formulas (print then parse: object identity) and of all legal "
                  "command sequences up to length 3-4 (parse, serialise, parse: structural equality), plus HR round trip "
                  "checked by exhaustive evaluation",
        text="(i) every term of the profiles incl. awkward names x {tree, DAG}: the script is serialised and parsed "
             "back in the same environment and must be the very same object; (ii) all legal sequences of length <=3 "
             "(thorough 4) over 30 command variants and <=2 (3) over 90 variants, with and without a declaration "
             "prelude: parse(serialize(parse(t))) == parse(t); (iii) HR fragment: HRParser.parse(f.serialize()) has the "
             "same sort, value under every interpretation and flattened serialisation.",
        note="Trusted: refsem for the HR meaning check. Commands whose serialisation is not implemented are counted. "
             "Two known findings (symbol named '(' / ')', quoted sort names).",
        design="§3 C09"),
    "C10": dict(
        category="exploration",
        technique="bounded-exhaustive enumeration of Boolean skeletons over theory atoms and quantifiers; equivalence by "
                  "exhaustive evaluation under every interpretation plus independent shape predicates",
        text="nnf, prenex_normal_form, aig, TimesDistributor, conjunctive/disjunctive partition, propagate_toplevel "
             "and both Boolean quantifier eliminators are run on every formula of 30 (thorough 34) parts (skeleton depth "
             "<=3 over <=3 atoms of 14 kinds, Boolean ITE/IFF in both polarities, nested/alternating/shadowing "
             "quantifiers over Bool, BV1-2, Int); outputs are compared with the input under every interpretation and "
             "against the advertised shape.",
        note="Trusted: refsem and the shape predicates in mc/props/c10.py. Int/Real quantifiers range over explicit "
             "finite domains. Clean errors outside a procedure's documented fragment are counted, not reported.",
        design="§3 C10"),
    "C11": dict(
        category="exploration",
        technique="bounded-exhaustive enumeration of quantifier-free formulas; for every interpretation of the input "
                  "symbols all assignments of the fresh symbols are enumerated (model-by-model equisatisfiability)",
        text="cnf, cnf_as_set, CNFizer and PolarityCNFizer on all skeletons of depth <=2 (six atom alphabets) and depth 3 "
             "over two atoms, the two converter classes also in an environment that is not on top of the stack and (over "
             "symbols named like generated ones) in brand-new environments; Ackermannizer on chains/nests of applications, "
             "fresh and reused. Shape is checked by an independent "
             "predicate; every model of the input must extend to the fresh symbols and every model of the output must "
             "satisfy the input (for Ackermann: with function tables read off the fresh constants).",
        note="Trusted: refsem, the shape predicates and the extension search in mc/props/c11.py (Int-sorted fresh "
             "constants are searched among application values and the pools; finite sorts are exact).",
        design="§3 C11"),
    "C12": dict(
        category="exploration",
        technique="bounded-exhaustive enumeration of terms of all profiles; each analysis compared with an independent "
                  "explicit-stack definition, plus semantic dependence tests by exhaustive evaluation",
        text="Free symbols, atoms, quantifier-freeness, sorts and the six size measures are recomputed independently for "
             "every term (nine theory profiles plus mixed/shadowing/Boolean-in-theory profiles and shared-DAG chains); "
             "additionally the value must not depend on symbols not reported free and the truth value of a qf formula "
             "must be a function of the valuation of the reported atoms (all interpretations enumerated).",
        note="Trusted: the reference definitions in mc/props/c12.py and refsem. Where the documentation is ambiguous "
             "(BOOL_DAG reading, SYMBOLS) both readings are accepted.",
        design="§3 C12"),
    "C13": dict(
        category="exploration",
        technique="exhaustive check of the finite order/selection relations over all theories and named logics, plus "
                  "bounded-exhaustive enumeration of formulas against an independent feature extraction",
        text="(a) all pairs/triples of the 864 (thorough 1728) well-formed theory vectors and of the 76 named logics: "
             "partial order, combine is an upper bound, get_closer_logic / most_generic_logic / get_closer_smtlib_logic "
             "over the library's own supported lists and all subsets of size <=2 (thorough <=3) of the base logics, and "
             "the factory's solver selection; (b) for every term of all profiles an independent extraction of required "
             "features must be enabled by get_logic / get_theory / the set-logic of smtlibscript_from_formula; hand-off: "
             "nine factory shortcuts (is_sat, is_valid, is_unsat, get_model, get_implicant, qelim, get_unsat_core and the "
             "interpolants over clause pairs) over recording stubs registered under one name in four registries with "
             "different LOGICS lists: the logic an object is created for is one of its own list and enables everything in "
             "the formulas it is handed.",
        note="Trusted: the feature extraction in mc/props/c13.py. A clean NoLogicAvailableError is safe and counted.",
        design="§3 C13"),
    "C17": dict(
        category="model_checking", engine="explorer",
        technique="explicit-state BFS over SmtLibSolver API histories on the real wrapper against a strict in-memory "
                  "SMT-LIB reference solver with byte-tagged reply streams",
        text="All reachable states to depth 5 (thorough 6-7) over add_assertion (symbols first seen at different "
             "levels, incl. UF and custom sorts), push/pop 1-2, reset, solve, get_value, get_model, is_sat/is_valid/"
             "is_unsat, plus the factory shortcuts: the strict solver must never answer (error ...), no non-blank reply "
             "byte may be unread when the next command arrives, no read may block, depths agree, verdicts equal the "
             "solver's answer and brute-force truth, models/values are the solver's.",
        note="Trusted: mc/core/smtref.py (independent SMT-LIB reader/sort checker/evaluator) and strictsolver.py; Popen "
             "and time.sleep are rebound inside pysmt.smtlib.solver. Blank bytes are not a reply. One known finding "
             "(reset_assertions keeps declared sets) prunes the branches below its trigger.",
        design="§3 C17"),
    "C18": dict(
        category="exploration", engine="refsolver",
        technique="bounded-exhaustive enumeration of finite-domain constraint systems x goals x optimisation routines x "
                  "strategies x solver histories, with the optimum / lexicographic optimum / Pareto front recomputed by "
                  "plain enumeration",
        text="pySMT's SUAOptimizerMixin and IncrementalOptimizerMixin are mixed into the exhaustive BruteSolver exactly "
             "as optimization/z3.py mixes them into Z3Solver; every conjunction of <=2 (thorough <=3) atoms of a 13-atom "
             "pool over Bool, BV2 (thorough BV3) and range-bounded Int x 18 goals (Int, unsigned/signed BV, MaxSMT with "
             "int/real weights, MinMax/MaxMin) x optimize/boxed/lexicographic/Pareto x linear/binary x two start states "
             "is executed; optimum, model, 'no solution', termination (step budget) and restoration of the assertion "
             "stack (list, depth, native solver, a later user pop) are checked.",
        note="Trusted: mc/core/refsolver.py and refsem. Int symbols are range-asserted so enumeration is exact. "
             "Bisection over real-valued objectives is not claimed (statement).",
        design="§3 C18"),
    "C19": dict(
        category="model_checking", engine="sched",
        technique="stateless model checking of Portfolio._solve/_run_solver under a controlled scheduler: every "
                  "interleaving at IPC granularity (CHESS-style preemption bound for 3-4 members)",
        text="For every configuration (member behaviours in {answers with first/last model, unknown, raises, exits "
             "silently}^n, n=2 unbounded, n=3-4 under a preemption bound; six caller scripts; exit_on_exception; "
             "sat/unsat) every schedule is executed on the real code; each must return the agreed verdict, a model "
             "that satisfies the assertions, or - if every member fails - an error, never a deadlock. Further configurations: "
             "members failing in their constructor / on assertion / on release, solve with assumptions, a query on which "
             "every member fails after a successful one followed by get_model, a failed one-shot query followed by solve, "
             "a member failing with a library exception, one solver listed twice with options.",
        note="Processes are scheduler-controlled threads; kill is synchronous at IPC granularity; objects crossing "
             "queues/pipes are pickled. Silent death of every member is a known finding (needs liveness polling).",
        design="§3 C19"),
    "C20": dict(
        category="exploration", engine="workmon",
        technique="exhaustive grid operation x nestable operator x family (chain/diamond) x size with an external "
                  "work monitor counting walker callbacks, created nodes and python-level calls per distinct node",
        text="22 operations x 49 (thorough 55) operators/argument positions x chains and diamonds at n=50/100/200, "
             "diamonds of height 60, chains - and for five operators also diamonds (memory-copy store chains, shared "
             "sums) - of depth 5000-20000 under the default recursion limit: at most one "
             "callback per (walker, node), counters linear in the number of distinct nodes, doubling n at most doubles "
             "the work, no RecursionError. No wall-clock time enters a verdict.",
        note="Trusted: mc/core/workmon.py (monitor installed from outside) and the per-operation constants in "
             "mc/props/c20.py. Known finding: Simplifier plus/times flattening is super-linear.",
        design="§3 C20"),
    "C14": dict(
        category="model_checking", engine="explorer",
        technique="exhaustive enumeration of API histories up to a length bound on a fresh real Environment, each "
                  "followed by a complete probe set compared with an untouched environment (differential oracle)",
        text="All histories of length <= 2 over ~110 events (thorough: ~310 events, and length 3 over a reduced "
             "alphabet): build, type query, simplify, substitute with 3 maps, analyses, logic/theory (incl. mutating "
             "the returned Theory), six size measures, printing, parsing, nnf/cnf/prenex/aig, 19 constant spellings, "
             "FreshSymbol. After each history ~380 probes are run (in both orders where value-keyed caches matter) and "
             "compared with a fresh environment up to commutative order and fresh-symbol numbering; repeating a call "
             "must return the same object. Construction order: in lazy worlds (symbols and formulas are created on first "
             "use, so the history changes node ids) all histories of length <= 2 of build / constant / FreshSymbol / "
             "parse events before each of 26 target formulas exists, then every query on the target, compared with an "
             "environment in which the target is the first thing built.",
        note="No state merging (the state is the history). Trusted: the canonical forms in mc/core/histworld.py.",
        design="§3 C14"),
    "C15": dict(
        category="fault_enumeration", engine="explorer",
        technique="exhaustive fault enumeration: every natural failing call and an injected failure at every callback "
                  "position of every long-lived walker, each followed by the complete probe set compared with a twin "
                  "that never made the failing call",
        text="prefix (<=1 event) x failing call x probes: ill-typed constructions, type-breaking substitution of every "
             "symbol in every universe formula, foreign keys, redefinition, wrong arity, SMT-LIB and HR text cut or "
             "corrupted at every token position (long-lived parser objects), model evaluation errors, an injected "
             "exception at the k-th callback for every k of 8 walkers, and solver calls that raise (refused formula, "
             "unknown, pop beyond depth, error reply to assert/declare/check-sat/push through SmtLibSolver, and natural "
             "refusals there: get_value without a model or of an undeclared symbol, pop beyond depth), argument-less "
             "failing constructions through create_node.",
        note="Injected faults are installed from outside by wrapping walker.functions. The tracking-solver part uses "
             "the harness' BruteSolver; failures inside a concrete solver's own _solve are out of reach.",
        design="§3 C15"),
    "C16": dict(
        category="model_checking", engine="explorer",
        technique="exhaustive enumeration of all legal SMT-LIB command sequences up to a length bound against an "
                  "executable assertion-stack model, plus explicit-state BFS over solver API histories on the real "
                  "IncrementalTrackingSolver with state merging",
        text="(a) every legal command sequence up to length 4 (17-command alphabet), 5 (10 commands) and 8 "
             "(5 commands) - thorough 5/6/10 - is built through script.add and through the parser and "
             "get_last_formula (formula, goals, soft clauses, weights, signedness) is compared with the reference "
             "model, the objective term() of every soft-clause goal is evaluated against the weighted sum of the live "
             "soft clauses; (b) all reachable (implementation x native solver x reference) states of the tracking solver "
             "to depth 6 (thorough 7) over add/push n/pop n (n up to 3)/reset/solve/assumptions/is_sat/is_valid/is_unsat/read and "
             "one-shot queries that are refused or answered unknown, repeated with generate_models=False (depth 5/6), a "
             "second solver object being alive during every history; assertions, native stack and verdicts are checked "
             "in every state.",
        note="Trusted: the reference stack model in mc/props/c16.py and BruteSolver (mc/core/refsolver.py), which "
             "follows the protocol of the concrete solvers (clear_pending_pop on proxy methods). Sequences beyond "
             "the length/depth bounds are not covered.",
        design="§3 C16"),
}

PENDING = {}
for i in range(1, 21):
    PENDING["C%02d" % i] = "check designed in DESIGN.md §3 but not built yet in this revision; no claim is made"

ENGINES = [
    dict(name="refsolver", path="mc/core/refsolver.py", serves_properties=["C16", "C18"],
         kind_free_text="exhaustive brute-force solver following the protocol of the concrete pySMT solvers"),
    dict(name="sched", path="mc/core/sched.py", serves_properties=["C19"],
         kind_free_text="controlled scheduler (virtual Process/Queue/Pipe), DFS over all schedules with replayed prefixes, optional preemption bound"),
    dict(name="workmon", path="mc/core/workmon.py", serves_properties=["C20"],
         kind_free_text="external work monitor (walker callbacks, create_node, python-level calls)"),
    dict(name="table", path="mc/props/c06.py", serves_properties=["C06"],
         kind_free_text="exhaustive table-driven enumeration over finite operand domains"),
    dict(name="explorer", path="mc/core/explorer.py", serves_properties=["C04", "C14", "C15", "C16", "C17"],
         kind_free_text="explicit-state breadth-first search over API histories replayed on fresh real objects in lock-step with a reference model"),
    dict(name="sweep", path="mc/core/sweep.py", serves_properties=["C01", "C02", "C03", "C05", "C07", "C08", "C09", "C10", "C11", "C12", "C13"],
         kind_free_text="sharded bounded-exhaustive term enumeration (termgen) + reference semantics (refsem)"),
]

def main():
    checks = []
    for pid in sorted(CLAIMED):
        c = CLAIMED[pid]
        checks.append({
            "property_id": pid,
            "quick_cmd": "./check %s --tier quick" % pid,
            "thorough_cmd": "./check %s --tier thorough" % pid,
            "evidence_file": "evidence/%s.json" % pid,
            "replay_cmd_template": "./check %s --replay {path}" % pid,
            "engine": c.get("engine", "sweep"),
            "level_claimed": {"category": c["category"], "text": c["text"], "design_ref": c["design"]},
            "level_note": c["note"],
            "technique": c["technique"],
        })
    man = {
        "version": 1,
        "setup_cmd": "/venv/bin/python -B -c \"import pysmt, os; assert os.path.realpath(pysmt.__file__).startswith('/repo/')\"",
        "hooks": {
            "guard": "PYSMT_VERIF",
            "enable": "no source hooks are needed: the harness wraps walker callbacks and rebinds Process/Queue/Pipe/Popen from outside; PYSMT_VERIF is unused",
            "baseline_off_cmd": "cd /repo && /venv/bin/python -m pytest -ra -q -p no:cacheprovider --timeout=900 --continue-on-collection-errors",
            "source_commits": [],
            "add_only": True,
        },
        "engines": ENGINES,
        "checks": checks,
        "notes": "All checks are bounded-exhaustive explorations of the real pySMT code imported from /repo's working tree (editable install); see DESIGN.md. Known findings: known-findings.txt.",
        "not_applicable": [{"property_id": p, "reason": PENDING[p]} for p in sorted(PENDING) if p not in CLAIMED],
    }
    path = os.path.join(ROOT, "MANIFEST.json")
    json.dump(man, open(path, "w"), indent=1)
    open(path, "a").write("\n")
    try:
        import jsonschema
        jsonschema.validate(man, json.load(open("/root/.vp/MANIFEST.schema.json")))
        print("MANIFEST.json valid; claimed:", " ".join(sorted(CLAIMED)))
    except ImportError:
        print("jsonschema not available; not validated")

if __name__ == "__main__":
    main()
