#!/venv/bin/python
"""Regenerates /verif/MANIFEST.json from the table below and validates it.
Properties without an entry in CLAIMED are listed under not_applicable with the reason
given in PENDING (kept current as checks are built)."""
import json, os, sys
ROOT = os.path.dirname(os.path.dirname(os.path.abspath(__file__)))

CLAIMED = {
    "C01": dict(
        category="exploration",
        technique="bounded-exhaustive enumeration of all terms per theory profile up to depth 2-3, "
                  "each evaluated under every interpretation over finite value pools against an "
                  "independent reference semantics",
        text="Every well-typed term of each profile (Bool, LIA, LRA, LIRA, BV widths 1-3 with all "
             "constants, strings, arrays, UF, quantifiers) up to the stated depth is simplified by the real "
             "Simplifier and compared with the input under every interpretation of its symbols over "
             "finite pools; exhaustive within the bound, so any rewrite rule that is wrong for some "
             "operand shape reachable at that depth is found with its smallest witness.",
        note="Trusted: mc/core/refsem.py (SMT-LIB 2.6 semantics, cross-checked against z3/cvc5 by "
             "./check selftest). Int/Real quantifiers range over explicit finite domains. Nothing is "
             "claimed beyond the enumerated depth/width.",
        design="§3 C01"),
    "C02": dict(
        category="exploration",
        technique="bounded-exhaustive enumeration of quantifier-free UF-free terms x all total and partial "
                  "assignments over finite pools (all operand values for every BV operator at widths 1-3/4), "
                  "compared with an independent reference evaluator",
        text="For every term of the profiles and every assignment of pool constants to its symbols, "
             "EagerModel.get_value/[]/get_py_value/satisfies are compared with the reference value; every "
             "non-empty subset of symbols is deleted to check completion defaults and the no-completion "
             "contract. Exhaustive within the bound.",
        note="Trusted: mc/core/refsem.py. Pools: Int -2..3, Real 6 values, all BV values of the width, corner "
             "strings, small canonical arrays. Nothing is claimed for widths > 4 or depth > 2.",
        design="§3 C02"),
    "C03": dict(
        category="exploration",
        technique="exhaustive matrix of public constructors x argument sorts x arities against an independent "
                  "typing table, plus bottom-up re-typing of every transformation output on enumerated pools",
        text="Every public constructor is applied to every tuple of a pool with one or two inhabitants per sort "
             "(arities n-1..n+1; in- and out-of-range integer parameters for indexed operators): ill-typed "
             "applications must raise, returned formulas must carry the sort the table predicts, according to "
             "get_type() and to the harness' own bottom-up derivation. Every transformation and both parsers "
             "are run on enumerated pools and their outputs re-typed.",
        note="Trusted: the typing table in mc/props/c03.py and reftype in mc/core/refsem.py. Refusing a "
             "well-typed application is outside the statement and only counted (listed in the evidence notes).",
        design="§3 C03"),
    "C06": dict(
        category="exploration", engine="table",
        technique="exhaustive table of derived constructors and infix forms x calling conventions x arities, each "
                  "evaluated under every interpretation of fresh operands (all BV values of the width, all Bool tuples) "
                  "against a direct Python definition of the named function",
        text="Each derived constructor / infix operator / FNode method is applied to fresh symbols or Python literals "
             "in a fresh infix-enabled environment; the formula pySMT builds is evaluated by the reference semantics "
             "under every interpretation and compared with an independently written Python definition of the function "
             "the name denotes (exhaustive for BV widths 1-3, thorough 1-5, and Bool; Int -3..3, six Reals).",
        note="Trusted: the per-function definitions in mc/props/c06.py and mc/core/refsem.py. Int/Real arguments are "
             "confined to the pools; operands are symbols or literals, not compound terms.",
        design="§3 C06"),
    "C16": dict(
        category="model_checking", engine="explorer",
        technique="exhaustive enumeration of all legal SMT-LIB command sequences up to a length bound against an "
                  "executable assertion-stack model, plus explicit-state BFS over solver API histories on the real "
                  "IncrementalTrackingSolver with state merging",
        text="(a) every legal command sequence up to length 4 (17-command alphabet), 5 (10 commands) and 8 "
             "(5 commands) - thorough 5/6/10 - is built through script.add and through the parser and "
             "get_last_formula (formula, goals, soft clauses, weights, signedness) is compared with the reference "
             "model; (b) all reachable (implementation x native solver x reference) states of the tracking solver "
             "to depth 6 (thorough 8) over add/push n/pop n/reset/solve/assumptions/is_sat/is_valid/is_unsat/read; "
             "assertions, native stack and verdicts are checked in every state.",
        note="Trusted: the reference stack model in mc/props/c16.py and BruteSolver (mc/core/refsolver.py), which "
             "follows the protocol of the concrete solvers (clear_pending_pop on proxy methods). Sequences beyond "
             "the length/depth bounds are not covered.",
        design="§3 C16"),
}

PENDING = {}
for i in range(1, 21):
    PENDING["C%02d" % i] = "check designed in DESIGN.md §3 but not built yet in this revision; no claim is made"

ENGINES = [
    dict(name="table", path="mc/props/c06.py", serves_properties=["C06"],
         kind_free_text="exhaustive table-driven enumeration over finite operand domains"),
    dict(name="explorer", path="mc/core/explorer.py", serves_properties=["C16"],
         kind_free_text="explicit-state breadth-first search over API histories replayed on fresh real objects in lock-step with a reference model"),
    dict(name="sweep", path="mc/core/sweep.py", serves_properties=["C01", "C02", "C03"],
         kind_free_text="sharded bounded-exhaustive term enumeration (termgen) + reference semantics (refsem)"),
]

def main():
    checks = []
    for pid in sorted(CLAIMED):
        c = CLAIMED[pid]
        checks.append({
            "property_id": pid,
            "quick_cmd": "./check %s --tier quick" % pid,
            "thorough_cmd": "./check %s --tier thorough" % pid,
            "evidence_file": "evidence/%s.json" % pid,
            "replay_cmd_template": "./check %s --replay {path}" % pid,
            "engine": c.get("engine", "sweep"),
            "level_claimed": {"category": c["category"], "text": c["text"], "design_ref": c["design"]},
            "level_note": c["note"],
            "technique": c["technique"],
        })
    man = {
        "version": 1,
        "setup_cmd": "/venv/bin/python -B -c \"import pysmt, os; assert os.path.realpath(pysmt.__file__).startswith('/repo/')\"",
        "hooks": {
            "guard": "PYSMT_VERIF",
            "enable": "no source hooks are needed: the harness wraps walker callbacks and rebinds Process/Queue/Pipe/Popen from outside; PYSMT_VERIF is unused",
            "baseline_off_cmd": "cd /repo && /venv/bin/python -m pytest -ra -q -p no:cacheprovider --timeout=900 --continue-on-collection-errors",
            "source_commits": [],
            "add_only": True,
        },
        "engines": ENGINES,
        "checks": checks,
        "notes": "All checks are bounded-exhaustive explorations of the real pySMT code imported from /repo's working tree (editable install); see DESIGN.md. Known findings: known-findings.txt.",
        "not_applicable": [{"property_id": p, "reason": PENDING[p]} for p in sorted(PENDING) if p not in CLAIMED],
    }
    path = os.path.join(ROOT, "MANIFEST.json")
    json.dump(man, open(path, "w"), indent=1)
    open(path, "a").write("\n")
    try:
        import jsonschema
        jsonschema.validate(man, json.load(open("/root/.vp/MANIFEST.schema.json")))
        print("MANIFEST.json valid; claimed:", " ".join(sorted(CLAIMED)))
    except ImportError:
        print("jsonschema not available; not validated")

if __name__ == "__main__":
    main()
