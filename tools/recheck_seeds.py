#!/venv/bin/python
"""Re-run the registered quick checks against every kept seeded change (regression of the machinery).

  tools/recheck_seeds.py [--only C07-3-A,...] [--jobs 2]

For each seeded/<id>/: a scratch worktree of /repo HEAD under /tmp, `git apply patch.diff`, the checks
that are recorded as catching it (meta.json) are run with VERIF_REPO, the worktree is removed.  Prints one
line per change and a summary; writes seeded/recheck.json.  The repository's tests and the demonstration
are not run again (they were when the change was confirmed).  evidence/ is restored at the end.
"""
import concurrent.futures
import glob
import json
import os
import subprocess
import sys
import tempfile

ROOT = os.path.dirname(os.path.dirname(os.path.abspath(__file__)))


def sh(cmd, cwd=None, env=None, timeout=3600):
    p = subprocess.run(cmd, shell=True, cwd=cwd, env=env, stdout=subprocess.PIPE, stderr=subprocess.STDOUT,
                       text=True, timeout=timeout)
    return p.returncode, p.stdout


def one(d):
    meta = json.load(open(os.path.join(d, "meta.json")))
    sid = meta["id"]
    checks = [c for c, v in meta["checks"].items() if v["caught"]] or [meta["property"]]
    wt = tempfile.mkdtemp(prefix="rs-", dir="/tmp")
    os.rmdir(wt)
    out = {"id": sid, "checks": {}}
    try:
        rc, o = sh("git -C /repo worktree add --detach %s HEAD" % wt)
        if rc != 0:
            out["error"] = o[-200:]
            return out
        rc, o = sh("git -C %s apply %s" % (wt, os.path.join(d, "patch.diff")))
        out["applies"] = rc == 0
        if rc != 0:
            out["error"] = o[-200:]
            return out
        env = dict(os.environ, VERIF_REPO=wt, VERIF_OUT=wt + "-out", VERIF_NPROC=os.environ.get("VERIF_NPROC", ""))
        for c in checks:
            rc, o = sh("./check %s --tier quick" % c, cwd=ROOT, env=env)
            sigs = [l.strip()[:160] for l in o.splitlines() if l.strip().startswith("violation sig=")]
            out["checks"][c] = {"rc": rc, "first_signature": sigs[0] if sigs else None}
    finally:
        sh("git -C /repo worktree remove --force %s" % wt)
        sh("rm -rf %s-out" % wt)
    return out


def main():
    only = None
    jobs = 2
    for i, a in enumerate(sys.argv):
        if a == "--only":
            only = set(sys.argv[i + 1].split(","))
        if a == "--jobs":
            jobs = int(sys.argv[i + 1])
    dirs = sorted(glob.glob(os.path.join(ROOT, "seeded", "C*")))
    if only:
        dirs = [d for d in dirs if os.path.basename(d) in only]
    results = []
    with concurrent.futures.ThreadPoolExecutor(jobs) as ex:
        for r in ex.map(one, dirs):
            caught = any(v["rc"] == 1 for v in r["checks"].values())
            print("%-9s %s %s" % (r["id"], "caught" if caught else "MISSED", {c: v["rc"] for c, v in r["checks"].items()}
                                  if r.get("applies", True) else r.get("error")), flush=True)
            results.append(r)
    n = sum(1 for r in results if any(v["rc"] == 1 for v in r["checks"].values()))
    print("%d of %d seeded changes detected" % (n, len(results)))
    with open(os.path.join(ROOT, "seeded", "recheck.json"), "w") as fp:
        json.dump({"repo_head": sh("git -C /repo rev-parse --short HEAD")[1].strip(),
                   "verif_head": sh("git -C %s rev-parse --short HEAD" % ROOT)[1].strip(),
                   "detected": n, "total": len(results), "results": results}, fp, indent=1)
    return 0 if n == len(results) else 1


if __name__ == "__main__":
    sys.exit(main())
