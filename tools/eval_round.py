#!/venv/bin/python
"""Evaluate every change delivered by a seeding round:  tools/eval_round.py <round> [--jobs 4] [--only C07,C08] [--checks-extra C15]

Looks for /tmp/mut-cNN-<round>/_out/patch_{A,B}.diff + demo_{A,B}.py, runs tools/eval_seed.py on each
(scratch worktree, repository tests, demonstration, the property's quick check through VERIF_REPO) with
<jobs> evaluations in parallel (each check limited to VERIF_NPROC workers) and writes
/root/work/eval/<round>/CNN-X.json.  Prints one line per change.
"""
import concurrent.futures
import glob
import json
import os
import subprocess
import sys

ROOT = os.path.dirname(os.path.dirname(os.path.abspath(__file__)))


def main():
    rnd = sys.argv[1]
    jobs, only, extra = 4, None, []
    for i, a in enumerate(sys.argv):
        if a == "--jobs":
            jobs = int(sys.argv[i + 1])
        if a == "--only":
            only = set(sys.argv[i + 1].split(","))
        if a == "--checks-extra":
            extra = sys.argv[i + 1].split(",")
    outdir = "/root/work/eval/%s" % rnd
    os.makedirs(outdir, exist_ok=True)
    todo = []
    for wt in sorted(glob.glob("/tmp/mut-c*-%s" % rnd)):
        prop = os.path.basename(wt).split("-")[1].upper()
        for x in "AB":
            patch, demo = os.path.join(wt, "_out", "patch_%s.diff" % x), os.path.join(wt, "_out", "demo_%s.py" % x)
            sid = "%s-%s" % (prop, x)
            if only and prop not in only and sid not in only:
                continue
            if os.path.exists(patch) and os.path.exists(demo) and os.path.getsize(patch) > 0:
                if not os.path.exists(os.path.join(outdir, sid + ".json")) or "--force" in sys.argv:
                    todo.append((prop, x, patch, demo))

    def one(t):
        prop, x, patch, demo = t
        env = dict(os.environ, VERIF_NPROC=str(max(2, 16 // jobs)))
        checks = ",".join([prop] + [c for c in extra if c != prop])
        p = subprocess.run([os.path.join(ROOT, "tools", "eval_seed.py"), prop, patch, demo, "--checks", checks],
                           stdout=subprocess.PIPE, stderr=subprocess.STDOUT, text=True, env=env)
        txt = p.stdout
        try:
            res = json.loads(txt[txt.index("{"):])
        except Exception:
            res = {"error": txt[-2000:]}
        with open(os.path.join(outdir, "%s-%s.json" % (prop, x)), "w") as fp:
            json.dump(res, fp, indent=1)
        return prop, x, res

    with concurrent.futures.ThreadPoolExecutor(jobs) as ex:
        for prop, x, res in ex.map(one, todo):
            ok = res.get("applies") and "376 passed" in res.get("tests", "") and res.get("demo_clean_rc") == 0 \
                and res.get("demo_patched_rc") not in (0, None)
            caught = {c: v["rc"] for c, v in res.get("checks", {}).items()}
            print("%s-%s confirmed=%s caught=%s %s" % (prop, x, bool(ok), caught,
                                                       "" if ok else {k: res.get(k) for k in ("applies", "tests", "demo_clean_rc", "demo_patched_rc", "error")}),
                  flush=True)


if __name__ == "__main__":
    main()
