#!/venv/bin/python
"""Store a confirmed seeded change under /verif/seeded/<id>/ from an eval_seed.py result.

  tools/keep_seed.py <eval-result.json> <id> "<what it needs in order to manifest>"

A change is kept only if it is confirmed: the patch applied, the repository's tests still pass on
it (376 passed), the demonstration passes on the clean tree and fails with the change.
"""
import json
import os
import shutil
import sys

ROOT = os.path.dirname(os.path.dirname(os.path.abspath(__file__)))


try:
    HISTORY = json.load(open(os.path.join(ROOT, "seeded", "strengthening-history.json")))
except Exception:
    HISTORY = {}


def main():
    res = json.load(open(sys.argv[1]))
    sid = sys.argv[2]
    needs = sys.argv[3] if len(sys.argv) > 3 else ""
    ok = res.get("applies") and "376 passed" in res.get("tests", "") and "failed" not in res.get("tests", "") \
        and res.get("demo_clean_rc") == 0 and res.get("demo_patched_rc") not in (0, None)
    if not ok:
        print("NOT CONFIRMED:", {k: res.get(k) for k in ("applies", "tests", "demo_clean_rc", "demo_patched_rc")})
        return 1
    d = os.path.join(ROOT, "seeded", sid)
    os.makedirs(d, exist_ok=True)
    shutil.copy(res["patch"], os.path.join(d, "patch.diff"))
    origin = os.path.dirname(os.path.dirname(res["demo"]))      # the author's scratch worktree

    def keep(src, dst):
        with open(src) as fp:
            text = fp.read()
        with open(dst, "w") as fp:
            fp.write(text.replace(origin, "@WORKTREE@"))
    keep(res["demo"], os.path.join(d, "demo.py"))
    # helper modules shipped next to the demonstration (fake solver, common code)
    dd = res.get("demo_dir") or os.path.dirname(res["demo"])
    for extra in os.listdir(dd):
        if extra.endswith(".py") and not extra.startswith(("demo_A", "demo_B")):
            keep(os.path.join(dd, extra), os.path.join(d, extra))
    caught = {c: {"caught": v["rc"] == 1, "signatures": v["signatures"][:3], "wall_s": v["wall"]}
              for c, v in res.get("checks", {}).items()}
    meta = {
        "id": sid,
        "property": res["property"],
        "breaks": "see patch.diff / demo.py",
        "needs_to_manifest": needs,
        "origin": "independent sub-agent given only the property text and a scratch worktree",
        "confirmed": {
            "patch_applies_to_repo_head": True,
            "repository_tests_with_change": res["tests"],
            "demo_on_clean_tree_rc": res["demo_clean_rc"],
            "demo_with_change_rc": res["demo_patched_rc"],
            "how": "tools/eval_seed.py in a scratch worktree of /repo (never /repo itself)",
        },
        "checks": caught,
        "history": HISTORY.get(sid, "detected by the registered check on the first run"),
        "detected": any(v["caught"] for v in caught.values()),
    }
    json.dump(meta, open(os.path.join(d, "meta.json"), "w"), indent=1)
    print("kept", sid, "detected" if meta["detected"] else "MISSED")
    return 0


if __name__ == "__main__":
    sys.exit(main())
