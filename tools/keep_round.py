#!/venv/bin/python
"""File every confirmed change of a seeding round under seeded/:  tools/keep_round.py <round> <notes.json>

notes.json maps "C07-A" -> {"needs": "...", "history": "..." (optional; default: first run), "first": {...} (optional:
check results of the first evaluation, kept when the change was re-evaluated after a strengthening)}.
Reads /root/work/eval/<round>/CNN-X.json (+ CNN-X.extra.json: further checks run against the same change),
copies patch, demonstration, helper modules and the author's notes, writes meta.json and updates
seeded/strengthening-history.json.
"""
import json
import os
import shutil
import sys

ROOT = os.path.dirname(os.path.dirname(os.path.abspath(__file__)))


def load(path):
    t = open(path).read()
    return json.loads(t[t.index("{"):])


def main():
    rnd, notes = sys.argv[1], json.load(open(sys.argv[2]))
    hpath = os.path.join(ROOT, "seeded", "strengthening-history.json")
    history = json.load(open(hpath))
    evd = "/root/work/eval/%s" % rnd
    n = 0
    for key in sorted(notes):
        prop, x = key.split("-")
        res = load(os.path.join(evd, key + ".json"))
        ok = res.get("applies") and "376 passed" in res.get("tests", "") and "failed" not in res.get("tests", "") \
            and res.get("demo_clean_rc") == 0 and res.get("demo_patched_rc") not in (0, None)
        if not ok:
            print("NOT CONFIRMED", key, {k: res.get(k) for k in ("applies", "tests", "demo_clean_rc", "demo_patched_rc")})
            continue
        checks = dict(res.get("checks", {}))
        extra = os.path.join(evd, key + ".extra.json")
        if os.path.exists(extra):
            for c, v in load(extra).get("checks", {}).items():
                checks.setdefault(c, v)
        sid = "%s-%s-%s" % (prop, rnd, x)
        d = os.path.join(ROOT, "seeded", sid)
        os.makedirs(d, exist_ok=True)
        shutil.copy(res["patch"], os.path.join(d, "patch.diff"))
        origin = os.path.dirname(os.path.dirname(res["demo"]))

        def keep(src, dst):
            with open(src) as fp:
                text = fp.read()
            with open(dst, "w") as fp:
                fp.write(text.replace(origin, "@WORKTREE@"))
        keep(res["demo"], os.path.join(d, "demo.py"))
        dd = os.path.dirname(res["demo"])
        for extra_f in os.listdir(dd):
            if extra_f.endswith(".py") and not extra_f.startswith(("demo_A", "demo_B")):
                keep(os.path.join(dd, extra_f), os.path.join(d, extra_f))
        if os.path.exists(os.path.join(dd, "NOTES.md")):
            keep(os.path.join(dd, "NOTES.md"), os.path.join(d, "author-notes.md"))
        nt = notes[key]
        hist = nt.get("history") or "detected by the registered check on the first run"
        if nt.get("history"):
            history[sid] = nt["history"]
        caught = {c: {"caught": v["rc"] == 1, "signatures": v["signatures"][:3], "wall_s": v["wall"]} for c, v in checks.items()}
        meta = {"id": sid, "property": prop, "breaks": "see patch.diff / demo.py / author-notes.md",
                "needs_to_manifest": nt["needs"],
                "origin": "independent sub-agent given only the property text and a scratch worktree",
                "confirmed": {"patch_applies_to_repo_head": True, "repository_tests_with_change": res["tests"],
                              "demo_on_clean_tree_rc": res["demo_clean_rc"], "demo_with_change_rc": res["demo_patched_rc"],
                              "how": "tools/eval_seed.py in a scratch worktree of /repo (never /repo itself)"},
                "checks": caught, "history": hist, "detected": any(v["caught"] for v in caught.values())}
        if nt.get("first"):
            meta["first_evaluation"] = nt["first"]
        json.dump(meta, open(os.path.join(d, "meta.json"), "w"), indent=1)
        n += 1
        print("kept", sid, "detected" if meta["detected"] else "MISSED", sorted(c for c, v in caught.items() if v["caught"]))
    json.dump(history, open(hpath, "w"), indent=1, sort_keys=True)
    print(n, "kept")


if __name__ == "__main__":
    main()
