#!/venv/bin/python
"""Fills the @Cxxq@ / @Cxxt@ cells (or refreshes already filled cells) of DESIGN.md 9.2 from the evidence files."""
import json
import os
import re

ROOT = os.path.dirname(os.path.dirname(os.path.abspath(__file__)))


def cell(path):
    try:
        e = json.load(open(path))
    except Exception:
        return "not run"
    c = e["coverage"]
    n = c.get("evaluations", 0)
    num = "%.2fM" % (n / 1e6) if n >= 1e6 else ("%.0fk" % (n / 1e3) if n >= 1e4 else str(n))
    return "%s, %.0f s" % (num, e["wall_s"])


def main():
    path = os.path.join(ROOT, "DESIGN.md")
    s = open(path).read()
    out = []
    in_table = False
    for line in s.splitlines():
        if line.startswith("### 9.2"):
            in_table = True
        elif line.startswith("### 9.3"):
            in_table = False
        m = re.match(r"^\| (C\d\d) \| ", line)
        if in_table and m and line.count("|") >= 6:
            pid = m.group(1)
            cells = line.split(" | ")
            cells[-2] = cell(os.path.join(ROOT, "evidence", pid + ".json"))
            cells[-1] = cell(os.path.join(ROOT, "evidence", "thorough", pid + ".json")) + " |"
            line = " | ".join(cells)
        out.append(line)
    open(path, "w").write("\n".join(out) + "\n")


if __name__ == "__main__":
    main()
