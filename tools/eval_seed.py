#!/venv/bin/python
"""Evaluate a seeded change:  tools/eval_seed.py <property> <patch.diff> <demo.py> [--checks C01,C02] [--tier quick]

In a scratch worktree of /repo (never /repo itself): the demonstration must pass on the clean
tree, the patch must apply, the repository's tests must still pass, the demonstration must fail,
and then the registered check(s) are run against the patched worktree (VERIF_REPO).
Prints a JSON summary; the worktree is removed afterwards.
"""
import json
import os
import subprocess
import sys
import tempfile
import time


def sh(cmd, cwd=None, timeout=3600, env=None):
    p = subprocess.run(cmd, shell=True, cwd=cwd, stdout=subprocess.PIPE, stderr=subprocess.STDOUT, timeout=timeout,
                       env=env, text=True)
    return p.returncode, p.stdout


def main():
    prop, patch, demo = sys.argv[1], os.path.abspath(sys.argv[2]), os.path.abspath(sys.argv[3])
    checks = [prop]
    tier = "quick"
    for i, a in enumerate(sys.argv):
        if a == "--checks":
            checks = sys.argv[i + 1].split(",")
        if a == "--tier":
            tier = sys.argv[i + 1]
    wt = tempfile.mkdtemp(prefix="ev-", dir="/tmp")
    os.rmdir(wt)
    out = {"property": prop, "patch": patch, "demo": demo, "demo_dir": os.path.dirname(demo)}
    try:
        rc, o = sh("git -C /repo worktree add --detach %s HEAD" % wt)
        assert rc == 0, o
        # the demonstrations locate the library relative to their own path (<worktree>/_out/demo.py)
        os.makedirs(os.path.join(wt, "_out"), exist_ok=True)
        local_demo = os.path.join(wt, "_out", os.path.basename(demo))
        with open(demo) as fp:
            src = fp.read()
        src = src.replace(os.path.dirname(os.path.dirname(demo)), wt)     # hard-coded worktree paths
        src = src.replace("@WORKTREE@", wt)                               # demonstrations kept under seeded/
        with open(local_demo, "w") as fp:
            fp.write(src)
        # helper files shipped next to the demonstration (fake solvers, common code)
        for extra in os.listdir(os.path.dirname(demo)):
            if extra.endswith(".py") and not extra.startswith("demo_A") and not extra.startswith("demo_B") \
                    and extra != os.path.basename(demo):
                with open(os.path.join(os.path.dirname(demo), extra)) as fp:
                    esrc = fp.read().replace(os.path.dirname(os.path.dirname(demo)), wt).replace("@WORKTREE@", wt)
                with open(os.path.join(wt, "_out", extra), "w") as fp:
                    fp.write(esrc)
        demo_orig = demo
        demo = local_demo
        rc, o = sh("/venv/bin/python %s" % demo, cwd=wt, timeout=600)
        out["demo_clean_rc"] = rc
        rc, o = sh("git -C %s apply %s" % (wt, patch))
        out["applies"] = rc == 0
        if rc != 0:
            out["apply_error"] = o[-400:]
            print(json.dumps(out, indent=1))
            return
        rc, o = sh("/venv/bin/python -m pytest -q -p no:cacheprovider -n 4 2>&1 | tail -1", cwd=wt, timeout=1800)
        out["tests"] = o.strip()
        rc, o = sh("/venv/bin/python %s" % demo, cwd=wt, timeout=600)
        out["demo_patched_rc"] = rc
        out["demo_patched_tail"] = o[-300:]
        env = dict(os.environ, VERIF_REPO=wt, VERIF_OUT=wt + "-out")
        out["checks"] = {}
        for c in checks:
            t = time.time()
            rc, o = sh("./check %s --tier %s" % (c, tier), cwd="/verif", env=env, timeout=7200)
            sigs = [l.strip()[:220] for l in o.splitlines() if l.strip().startswith("violation sig=")]
            out["checks"][c] = {"rc": rc, "wall": round(time.time() - t, 1), "signatures": sigs[:6],
                                "n_signatures": len(sigs)}
    finally:
        sh("git -C /repo worktree remove --force %s" % wt)
        sh("rm -rf %s-out" % wt)
        # runs with VERIF_REPO write their evidence/replays under VERIF_OUT (a scratch directory), never under /verif
    print(json.dumps(out, indent=1))


if __name__ == "__main__":
    main()
