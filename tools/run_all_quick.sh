#!/bin/sh
# runs every claimed quick check once (sequentially) and prints the summary lines
cd "$(dirname "$0")/.." || exit 2
for p in $(python3-vt -c "import json;print(' '.join(c['property_id'] for c in json.load(open('MANIFEST.json'))['checks']))"); do
  /usr/bin/time -f "  $p wall=%es cpu=%Us" ./check $p --tier quick 2>&1 | grep "^C[0-9]\|VIOLATION\|wall=" | cut -c1-200
done
